#!/bin/bash
# Offline setup: optional third-party deps go to the git-ignored .deps (icontract for the ambient contracts).
HERE="$(cd "$(dirname "${BASH_SOURCE[0]}")" && pwd)"
cd "$HERE" || exit 1
if [ ! -d .deps/icontract ]; then
  /venv/bin/pip install -q --no-index --find-links /opt/veriftools/wheels --target .deps icontract >/dev/null 2>&1 \
    || echo "setup: icontract not installed (ambient contracts disabled; dedicated monitors unaffected)"
fi
mkdir -p evidence replays
PYTHONPATH=/repo/src:"$HERE" /venv/bin/python -B -c "import urllib3, vf.runner; assert urllib3.__file__.startswith('/repo/src'), urllib3.__file__; print('setup ok', urllib3.__version__)"
