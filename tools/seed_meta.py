#!/usr/bin/env python3
"""Fills caught_by (from selftest_results.json) and needs_to_manifest (from notes.md) in seeded/*/meta.json."""
import json, os, re
HERE = os.path.dirname(os.path.dirname(os.path.abspath(__file__)))
res = json.load(open(os.path.join(HERE, "selftest_results.json")))
for d in sorted(os.listdir(os.path.join(HERE, "seeded"))):
    mp = os.path.join(HERE, "seeded", d, "meta.json")
    if not os.path.exists(mp):
        continue
    m = json.load(open(mp))
    rs = [r for r in res if r["change"] == "seeded/" + d]
    m["caught_by"] = [{"check": r["check"], "tier": "quick", "result": r["result"], "clauses": r.get("clauses", "")} for r in rs] or None
    notes = os.path.join(HERE, "seeded", d, "notes.md")
    if os.path.exists(notes) and (not m.get("needs_to_manifest") or m["needs_to_manifest"] == "see notes.md"):
        t = open(notes).read()
        mm = re.search(r"^#+[^\n]*(?:needs|manifest|trigger|require)[^\n]*\n(.*?)(?=^#+ |\Z)", t, re.I | re.S | re.M)
        if mm:
            txt = re.sub(r"\s+", " ", mm.group(1)).strip()
            m["needs_to_manifest"] = txt[:600]
    json.dump(m, open(mp, "w"), indent=1)
    print(d, "|", (m.get("needs_to_manifest") or "")[:100], "|", [c["check"] + ":" + c["result"] for c in (m["caught_by"] or [])])
