#!/usr/bin/env python3
"""mkmut.py <name> <file-relative-to-repo> <<< 'OLD\n====\nNEW'  : builds mutants/<name>.patch by exact text substitution on /repo."""
import sys, subprocess, os, tempfile, shutil
name, rel = sys.argv[1], sys.argv[2]
old, new = sys.stdin.read().split("\n====\n")
new = new.rstrip("\n") if not new.endswith("\n\n") else new
old = old.rstrip("\n")
src = open(os.path.join("/repo", rel)).read()
assert src.count(old) == 1, f"old text occurs {src.count(old)} times"
d = tempfile.mkdtemp()
os.makedirs(os.path.join(d, "a", os.path.dirname(rel))); os.makedirs(os.path.join(d, "b", os.path.dirname(rel)))
open(os.path.join(d, "a", rel), "w").write(src); open(os.path.join(d, "b", rel), "w").write(src.replace(old, new))
out = subprocess.run(["diff", "-u", os.path.join("a", rel), os.path.join("b", rel)], cwd=d, capture_output=True, text=True).stdout
open(os.path.join("/verif/mutants", name + ".patch"), "w").write(out)
shutil.rmtree(d); print("wrote", name, len(out.splitlines()), "lines")
