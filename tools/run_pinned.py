#!/usr/bin/env python3
"""run_pinned.py <tree> [pytest-args...]: runs the repository's pinned test suite in <tree> (a checkout or
worktree of urllib3, its own src/ put first on PYTHONPATH) and reports every test of the stable
baseline (BASELINE.json stable_pass, 683 tests) that did not pass.  Exit 0 iff all of them passed."""
import json, os, subprocess, sys, tempfile, xml.etree.ElementTree as ET
tree = os.path.abspath(sys.argv[1]); extra = sys.argv[2:]
base = json.load(open("/root/.vp/BASELINE.json"))
want = set(x for x in base["stable_pass"] if x != "::")
fd, xmlp = tempfile.mkstemp(suffix=".xml"); os.close(fd)
env = dict(os.environ, PYTHONPATH=os.path.join(tree, "src"), PYTHONDONTWRITEBYTECODE="1")
env.pop("URLLIB3_VERIF", None)
cmd = ["/venv/bin/python", "-m", "pytest", "-q", "-p", "no:cacheprovider", "--timeout=120", "--continue-on-collection-errors", "--junitxml=" + xmlp] + extra
import time
proc = subprocess.Popen(cmd, cwd=tree, env=env, stdout=subprocess.PIPE, stderr=subprocess.STDOUT, text=True)
t0 = time.time(); done_at = None
while proc.poll() is None:
    time.sleep(2)
    # pytest sometimes hangs at interpreter exit on this machine after the junit file was written: once the file is
    # there and the process has not exited 20 s later, kill it and judge by the file
    if os.path.getsize(xmlp) > 0:
        done_at = done_at or time.time()
        if time.time() - done_at > 20:
            print("pytest wrote its junit file but did not exit; killed"); proc.kill(); break
    if time.time() - t0 > 1500:
        print("pinned run did not finish within 1500 s; killed"); proc.kill(); break
class p:  # noqa: N801
    stdout = ""
try:
    p.stdout = proc.communicate(timeout=20)[0] or ""
except Exception:  # noqa: BLE001
    pass
passed = set()
try:
    for tc in (ET.parse(xmlp).getroot().iter("testcase") if os.path.getsize(xmlp) else []):
        if not any(ch.tag in ("failure", "error", "skipped") for ch in tc):
            passed.add(f"{tc.get('classname')}::{tc.get('name')}")
finally:
    os.unlink(xmlp)
missing = sorted(want - passed)
print(p.stdout[-600:])
print(f"pinned tests passing: {len(want & passed)}/{len(want)}")
for m in missing[:40]:
    print("NOT PASSING:", m)
sys.exit(1 if missing else 0)
