#!/bin/bash
# tools/with_mutant.sh <patch-file> <check-id> [check args...]
# Copies /repo/src to a scratch dir outside /repo and /verif, applies the patch (git apply style,
# paths relative to the repo root), runs ./check <id> --src <scratch>/src --no-evidence, removes it.
set -u
PATCH="$(realpath "$1")"; shift
ID="$1"; shift
S="$(mktemp -d /tmp/vf-mut-XXXXXX)"
trap 'rm -rf "$S"' EXIT
mkdir -p "$S"
cp -r /repo/src "$S/src"
( cd "$S" && patch -p1 -s < "$PATCH" ) || { echo "PATCH FAILED"; exit 9; }
cd /verif && ./check "$ID" --src "$S/src" --no-evidence "$@"
echo "exit=$?"
