#!/usr/bin/env python3
"""Regenerates /verif/MANIFEST.json from vf/meta.py (single source of truth for what is claimed)."""
import json, os, sys
HERE = os.path.dirname(os.path.dirname(os.path.abspath(__file__)))
sys.path.insert(0, HERE)
from vf import meta

props = [json.loads(l)["id"] for l in open(os.path.join(HERE, "properties.jsonl"))]
checks, na = [], []
for p in props:
    m = meta.META.get(p)
    if not m or not m.get("CLAIMED", True):
        na.append({"property_id": p, "reason": (m or {}).get("NA_REASON", "check not built yet in this session (runtime-monitoring design exists in DESIGN.md; not claimed until the monitor runs clean and catches its mutants)")})
        continue
    checks.append({
        "property_id": p,
        "quick_cmd": f"./check {p} --tier quick",
        "thorough_cmd": f"./check {p} --tier thorough",
        "evidence_file": f"evidence/{p}.json",
        "replay_cmd_template": f"./check {p} --replay {{path}}",
        "engine": m.get("ENGINE", "vf"),
        "level_claimed": {"category": m["LEVEL"], "text": m["LEVEL_TEXT"], "design_ref": m.get("DESIGN_REF", f"DESIGN.md section 3 ({p})")},
        "level_note": m["LEVEL_NOTE"],
        "technique": m["TECHNIQUE"],
    })
manifest = {
    "version": 1,
    "setup_cmd": "./setup.sh",
    "hooks": {
        "guard": "URLLIB3_VERIF",
        "enable": "no source hooks: monitors attach from the harness through public extension points (ConnectionCls, QueueCls, container.lock, module-level create_connection/time) and sys.monitoring; checks run /repo/src directly via PYTHONPATH",
        "baseline_off_cmd": "cd /repo && /venv/bin/python -m pytest -ra -q -p no:cacheprovider --timeout=900 --continue-on-collection-errors",
        "source_commits": [],
        "add_only": True,
    },
    "engines": meta.ENGINES,
    "checks": checks,
    "not_applicable": na,
    "notes": meta.NOTES,
}
json.dump(manifest, open(os.path.join(HERE, "MANIFEST.json"), "w"), indent=1)
print("claimed:", [c["property_id"] for c in checks]); print("not claimed:", [x["property_id"] for x in na])
