#!/usr/bin/env python3
"""Regenerates the catch matrix (DESIGN.md section 9) from selftest_results.json and seeded/*/meta.json."""
import json, os, re
HERE = os.path.dirname(os.path.dirname(os.path.abspath(__file__)))
res = json.load(open(os.path.join(HERE, "selftest_results.json")))
own = [r for r in res if r["change"].startswith("mutants/")]
seeded = [r for r in res if r["change"].startswith("seeded/")]
out = []
out.append(f"Produced by `./selftest` (quick tier, each change applied to a scratch copy of `/repo/src`; nothing is applied to `/repo`). "
           f"{sum(r['result']=='caught' for r in res)} of {len([r for r in res if not (r['change'].startswith('benign/') or 'stricter' in r['change'])])} breaking (change, check) pairs end in exit 1 with a VIOLATION line; {sum(r['result'].startswith('quiet') for r in res)} of {len([r for r in res if r['change'].startswith('benign/') or 'stricter' in r['change']])} negative controls stay quiet.\n")
out.append("### 9.1 Own deliberate changes (`mutants/`)\n")
out.append("| property | change | result | clauses reported (count) |\n|---|---|---|---|")
for r in sorted(own, key=lambda r: (r["check"], r["change"])):
    name = r["change"][len("mutants/"):-len(".patch")]
    out.append(f"| {r['check']} | {name} | {r['result']} | {r.get('clauses','').strip('{}')[:140]} |")
out.append("\n### 9.2 Changes produced by independent sub-agents (`seeded/`)\n")
out.append("Each sub-agent was given only the text of one property and a scratch worktree; a change was kept only after I confirmed in a scratch worktree that it applies, that its demonstration passes without and fails with the change, and that the pinned suite still passes with it (`tools/verify_seed.sh`).\n")
out.append("| change | needs, to manifest | check | result | clauses reported (count) |\n|---|---|---|---|---|")
for r in sorted(seeded, key=lambda r: (r["change"], r["check"])):
    d = r["change"][len("seeded/"):]
    mp = os.path.join(HERE, "seeded", d, "meta.json")
    needs = ""
    if os.path.exists(mp):
        needs = json.load(open(mp)).get("needs_to_manifest", "")
    out.append(f"| {d} | {needs[:160]} | {r['check']} | {r['result']} | {r.get('clauses','').strip('{}')[:110]} |")
benign = [r for r in res if r["change"].startswith("benign/")]
out.append("\n### 9.2b Harmless changes produced by independent sub-agents (`benign/`, negative controls)\n")
out.append("Each of these changes behaviour or structure in a way the property allows (see its notes.md); the pinned suite passes with it (`tools/verify_benign.sh`). A check that exits 1 here would be a false alarm.\n")
out.append("| change | check | result |\n|---|---|---|")
for r in sorted(benign, key=lambda r: (r["change"], r["check"])):
    out.append(f"| {r['change'][len('benign/'):]} | {r['check']} | {r['result']} |")
p = os.path.join(HERE, "DESIGN.md"); s = open(p).read()
a = s.index("<!-- MATRIX-BEGIN -->") + len("<!-- MATRIX-BEGIN -->"); b = s.index("<!-- MATRIX-END -->")
open(p, "w").write(s[:a] + "\n" + "\n".join(out) + "\n" + s[b:])
print("matrix rows:", len(own), len(seeded), len(benign))
