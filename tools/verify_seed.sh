#!/bin/bash
# tools/verify_seed.sh <prop-id> <seed-dir-with patch.diff demo.py notes.md> : confirms a seeded change in a scratch
# worktree of /repo HEAD (applies; demo passes without, fails with; pinned suite passes with) and, if all
# hold, copies it to /verif/seeded/<prop>-<name>/ with a meta.json.
PROP="$1"; SRC="$(realpath "$2")"; NAME="$(basename "$SRC")"
WT="$(mktemp -d /tmp/vseed-XXXXXX)"; rmdir "$WT"
git -C /repo worktree add -q --detach "$WT" HEAD || exit 9
trap 'git -C /repo worktree remove --force "$WT" >/dev/null 2>&1; rm -rf "$WT"' EXIT
cp /repo/src/urllib3/_version.py "$WT/src/urllib3/_version.py"
run_demo() { ( cd "$WT" && if grep -q "^def test_\|^import pytest\|^class Test" "$SRC/demo.py" && ! grep -q "__main__" "$SRC/demo.py"; then URLLIB3_SRC="$WT/src" PYTHONPATH="$WT/src" timeout 120 /venv/bin/python -m pytest -q -p no:cacheprovider "$SRC/demo.py"; else URLLIB3_SRC="$WT/src" PYTHONPATH="$WT/src" timeout 120 /venv/bin/python "$SRC/demo.py"; fi ) >/dev/null 2>&1; echo $?; }
D0=$(run_demo)
if ! git -C "$WT" apply "$SRC/patch.diff" 2>/tmp/vseed-apply.err; then
  if ! ( cd "$WT" && patch -p1 -s --fuzz=3 < "$SRC/patch.diff" ); then echo "$PROP $NAME: PATCH DOES NOT APPLY"; exit 8; fi
fi
D1=$(run_demo)
python3 /verif/tools/run_pinned.py "$WT" > "$WT/pinned.log" 2>&1; P=$?
PIN=$(grep "pinned tests passing" "$WT/pinned.log")
echo "$PROP $NAME: demo_without=$D0 demo_with=$D1 pinned_rc=$P ($PIN)"
if [ "$D0" = "0" ] && [ "$D1" != "0" ] && [ "$P" = "0" ]; then
  DEST="/verif/seeded/$PROP-$NAME"; mkdir -p "$DEST"
  ( cd "$WT" && git diff -- src ) > "$DEST/patch.diff"
  cp "$SRC/demo.py" "$DEST/demo.py"; cp "$SRC/notes.md" "$DEST/notes.md" 2>/dev/null
  python3 - "$PROP" "$NAME" "$DEST" "$PIN" <<'PY'
import json,sys,subprocess
prop,name,dest,pin=sys.argv[1:5]
head=subprocess.run(["git","-C","/repo","rev-parse","--short","HEAD"],capture_output=True,text=True).stdout.strip()
notes=open(dest+"/notes.md").read() if __import__("os").path.exists(dest+"/notes.md") else ""
json.dump({"property":prop,"name":name,"origin":"independent sub-agent given only the property text and a scratch worktree",
 "verified_against_repo_head":head,
 "confirmed":{"demo_exit_without_change":0,"demo_fails_with_change":True,"pinned_suite_with_change":pin},
 "needs_to_manifest":"see notes.md","ran":"tools/verify_seed.sh (scratch worktree of /repo HEAD; demo before/after; tools/run_pinned.py with the change)",
 "caught_by":None},open(dest+"/meta.json","w"),indent=1)
PY
  echo "KEPT $DEST"
else
  echo "REJECTED $PROP $NAME"
fi
