#!/bin/bash
# tools/verify_benign.sh <prop-id> <dir-with patch.diff notes.md> : confirms that a harmless (property-preserving) change applies to
# /repo HEAD and keeps the pinned suite passing, then stores it under /verif/benign/<prop>-<name>/ as a negative control.
PROP="$1"; SRC="$(realpath "$2")"; NAME="$(basename "$SRC")"
WT="$(mktemp -d /tmp/vben-XXXXXX)"; rmdir "$WT"
git -C /repo worktree add -q --detach "$WT" HEAD || exit 9
trap 'git -C /repo worktree remove --force "$WT" >/dev/null 2>&1; rm -rf "$WT"' EXIT
cp /repo/src/urllib3/_version.py "$WT/src/urllib3/_version.py"
if ! git -C "$WT" apply "$SRC/patch.diff" 2>/dev/null; then echo "$PROP $NAME: PATCH DOES NOT APPLY"; exit 8; fi
python3 /verif/tools/run_pinned.py "$WT" > "$WT/pinned.log" 2>&1; P=$?
PIN=$(grep "pinned tests passing" "$WT/pinned.log")
echo "$PROP $NAME: pinned_rc=$P ($PIN)"
if [ "$P" = "0" ]; then
  DEST="/verif/benign/$PROP-$NAME"; mkdir -p "$DEST"
  ( cd "$WT" && git diff -- src ) > "$DEST/patch.diff"
  cp "$SRC/notes.md" "$DEST/notes.md" 2>/dev/null
  for f in "$SRC"/check_*.py; do [ -f "$f" ] && cp "$f" "$DEST/"; done
  echo "{\"property\": \"$PROP\", \"name\": \"$NAME\", \"origin\": \"independent sub-agent (round 5) asked for a change that does NOT break the property\", \"pinned_suite_with_change\": \"$PIN\", \"expected\": \"every check stays quiet\"}" > "$DEST/meta.json"
  echo "KEPT $DEST"
else
  echo "REJECTED $PROP $NAME"
fi
