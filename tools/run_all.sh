#!/bin/bash
# tools/run_all.sh [quick|thorough] [seed] : runs every check of MANIFEST.json sequentially on /repo, prints one line each
TIER="${1:-quick}"; SEED="${2:-0}"
cd "$(dirname "$0")/.."
for id in C01 C02 C03 C04 C05 C06 C07 C08 C09 C10 C11 C12 C13 C14 C15 C16 C17 C18 C19 C20; do
  s=$(date +%s)
  out=$(./check $id --tier "$TIER" --seed "$SEED" 2>&1); rc=$?
  e=$(( $(date +%s) - s ))
  echo "$id rc=$rc ${e}s $(echo "$out" | grep -E 'VERDICT' | tail -1) $(echo "$out" | grep -c 'KNOWN-FINDING') known $(echo "$out" | grep -E '^INCONCLUSIVE' | head -2 | tr '\n' ' ')"
  if [ $rc -ne 0 ]; then echo "$out" | grep -E "VIOLATION|kind=" | head -6; fi
done
