"""Audit demo (unchanged source): the MIME type of a (filename, data, mime) filetuple is copied into the
part header verbatim, so CR LF in it adds a header, and CR LF CR LF + delimiter opens a new part.

Run: PYTHONPATH=/tmp/w4-c20/src /venv/bin/python demo.py      (exit 1 == violation observed)
In-memory only; finishes instantly.
"""
import sys

from urllib3 import encode_multipart_formdata

B = "XBOUNDARYX"


def strict_parse(body: bytes, boundary: str) -> list[tuple[list[tuple[bytes, bytes]], bytes]]:
    delim = b"--" + boundary.encode()
    assert body.startswith(delim + b"\r\n") and body.endswith(b"\r\n" + delim + b"--\r\n")
    inner = body[len(delim) + 2 : -(len(delim) + 6)]
    out = []
    for raw in inner.split(b"\r\n" + delim + b"\r\n"):
        head, sep, data = raw.partition(b"\r\n\r\n")
        if not sep:  # empty header block
            assert raw.startswith(b"\r\n")
            head, data = b"", raw[2:]
        hdrs = []
        for line in head.split(b"\r\n") if head else []:
            k, _, v = line.partition(b": ")
            hdrs.append((k, v))
        out.append((hdrs, data))
    return out


rc = 0

# 1. extra header
mime = "text/plain\r\nX-Evil: 1"
body, ct = encode_multipart_formdata([("f", ("a.txt", b"x", mime))], boundary=B)
parts = strict_parse(body, B)
print(body)
hdr_names = [k for k, _ in parts[0][0]]
if hdr_names != [b"Content-Disposition", b"Content-Type"] or dict(parts[0][0])[b"Content-Type"] != mime.encode():
    print("VIOLATION 1: part headers are", parts[0][0])
    rc = 1

# 2. a whole extra part; neither the data nor the name/filename contain the boundary
mime = f'text/plain\r\n\r\nx\r\n--{B}\r\nContent-Disposition: form-data; name="is_admin"\r\n\r\n1\r\n--{B}\r\nContent-Disposition: form-data; name="junk"'
body, ct = encode_multipart_formdata([("f", ("a.txt", b"payload", mime))], boundary=B)
parts = strict_parse(body, B)
print(body)
if len(parts) != 1:
    print(f"VIOLATION 2: one field in, {len(parts)} parts out:", [p[0][0] for p in parts])
    rc = 1

sys.exit(rc)
