"""C05 audit: "301/302/307/308 keep method and body" -- not for a body given as an iterator / generator.

A POST whose body is a generator (a documented body type: "iterable of bytes") is answered with 307.  The
follow-up keeps the method but is sent with an EMPTY body (the generator was consumed by the first attempt),
silently: no exception, the caller gets the target's 200.  bytes / list / file bodies are replayed correctly
(controls).

exit 1 = violation observed, 0 = not observed.  Loopback only, all sockets have timeouts.
Run: PYTHONPATH=/tmp/w4-c05/src /venv/bin/python demo.py
"""
from __future__ import annotations

import io
import socket
import sys
import threading

import urllib3
from urllib3 import HTTPConnectionPool, PoolManager

TIMEOUT = urllib3.Timeout(connect=3, read=3)


class Origin:
    """POST /start -> <code> Location: /target ; logs (method, target, body)."""

    def __init__(self) -> None:
        self.log: list[tuple[str, str, bytes]] = []
        self.code = 307
        self.sock = socket.socket()
        self.sock.bind(("127.0.0.1", 0))
        self.sock.listen(16)
        self.sock.settimeout(0.2)
        self.port = self.sock.getsockname()[1]
        self.stop = False
        threading.Thread(target=self._accept, daemon=True).start()

    def _accept(self) -> None:
        while not self.stop:
            try:
                c, _ = self.sock.accept()
            except (TimeoutError, socket.timeout):
                continue
            except OSError:
                return
            threading.Thread(target=self._serve, args=(c,), daemon=True).start()

    def _serve(self, c: socket.socket) -> None:
        c.settimeout(3)
        buf = b""

        def more() -> None:
            nonlocal buf
            d = c.recv(65536)
            if not d:
                raise OSError("eof")
            buf += d

        try:
            while True:
                while b"\r\n\r\n" not in buf:
                    more()
                head, buf = buf.split(b"\r\n\r\n", 1)
                lines = head.decode("latin-1").split("\r\n")
                method, target, _ = lines[0].split(" ", 2)
                hdrs = {k.strip().lower(): v.strip() for k, v in (ln.split(":", 1) for ln in lines[1:])}
                body = b""
                if "content-length" in hdrs:
                    n = int(hdrs["content-length"])
                    while len(buf) < n:
                        more()
                    body, buf = buf[:n], buf[n:]
                elif "chunked" in hdrs.get("transfer-encoding", ""):
                    while True:
                        while b"\r\n" not in buf:
                            more()
                        ln, buf = buf.split(b"\r\n", 1)
                        n = int(ln, 16)
                        while len(buf) < n + 2:
                            more()
                        body += buf[:n]
                        buf = buf[n + 2 :]
                        if n == 0:
                            break
                self.log.append((method, target, body))
                if target == "/start":
                    c.sendall(f"HTTP/1.1 {self.code} X\r\nLocation: /target\r\nContent-Length: 0\r\n\r\n".encode())
                else:
                    c.sendall(b"HTTP/1.1 200 OK\r\nContent-Length: 2\r\n\r\nok")
        except (OSError, ValueError):
            pass
        finally:
            c.close()


def gen():
    yield b"ab"
    yield b"cd"


def main() -> int:
    o = Origin()
    url = f"http://127.0.0.1:{o.port}/start"
    violated = 0
    bodies = {
        "bytes (control)": lambda: b"abcd",
        "list (control)": lambda: [b"ab", b"cd"],
        "BytesIO (control)": lambda: io.BytesIO(b"abcd"),
        "generator": gen,
        "iter(list)": lambda: iter([b"ab", b"cd"]),
    }
    for code in (301, 302, 307, 308):
        o.code = code
        for label, mk in bodies.items():
            for via in ("PoolManager", "HTTPConnectionPool"):
                del o.log[:]
                try:
                    if via == "PoolManager":
                        r = PoolManager(timeout=TIMEOUT).request("POST", url, body=mk())
                    else:
                        r = HTTPConnectionPool("127.0.0.1", o.port, timeout=TIMEOUT).urlopen("POST", "/start", body=mk())
                    got = f"response {r.status}"
                except Exception as e:  # noqa: BLE001  (an explicit refusal to replay would be acceptable)
                    got = f"{type(e).__name__}"
                second = [e for e in o.log if e[1] == "/target"]
                bad = bool(second) and second[0] != ("POST", "/target", b"abcd")
                violated += bad
                if bad or code == 307:
                    print(f"{code} {via:18} {label:18} -> {got}; server saw {o.log} {'<-- VIOLATION' if bad else ''}")
    o.stop = True
    o.sock.close()
    print(f"\n{violated} violating case(s)")
    return 1 if violated else 0


if __name__ == "__main__":
    sys.exit(main())
