"""C04 audit: PoolManager forgets the retries spent inside the pool when it follows a
redirect, so more than 1 + total requests go on the wire.

Run: PYTHONPATH=/tmp/w4-c04/src /venv/bin/python demo.py   (exit 1 = violation observed)
"""
import os, socket, sys, threading

import urllib3
from urllib3.util.retry import Retry


class Server:
    def __init__(self, script):
        self.script, self.seen = list(script), []
        self.lsock = socket.socket()
        self.lsock.bind(("127.0.0.1", 0))
        self.lsock.listen(16)
        self.lsock.settimeout(5)
        self.port = self.lsock.getsockname()[1]
        threading.Thread(target=self.run, daemon=True).start()

    def run(self):
        try:
            while self.script:
                try:
                    c, _ = self.lsock.accept()
                except OSError:
                    return
                c.settimeout(5)
                try:
                    buf = b""
                    while b"\r\n\r\n" not in buf:
                        d = c.recv(65536)
                        if not d:
                            break
                        buf += d
                    if not buf:
                        continue
                    self.seen.append(buf.split(b"\r\n")[0].decode())
                    act = self.script.pop(0)
                    if act == "eof":
                        continue
                    code, hdrs = act
                    h = "".join(f"{k}: {v}\r\n" for k, v in hdrs.items())
                    c.sendall(
                        f"HTTP/1.1 {code} X\r\nContent-Length: 0\r\nConnection: close\r\n{h}\r\n".encode()
                    )
                except OSError:
                    pass
                finally:
                    c.close()
        finally:
            self.lsock.close()


SCRIPT = ["eof", "eof", (302, {"Location": "/b"}), "eof", "eof", (200, {})]


def attempt(fn):
    try:
        return f"status {fn().status}"
    except Exception as e:  # noqa: BLE001
        return type(e).__name__


def main():
    total = 2
    srv = Server(SCRIPT)
    pool = urllib3.HTTPConnectionPool("127.0.0.1", srv.port, timeout=3)
    out = attempt(lambda: pool.request("GET", "/a", retries=Retry(total=total)))
    print(f"pool    Retry(total={total}): {out}; {len(srv.seen)} requests on the wire {srv.seen}")
    pool_ok = len(srv.seen) <= 1 + total

    srv = Server(SCRIPT)
    pm = urllib3.PoolManager(timeout=3)
    out = attempt(lambda: pm.request("GET", f"http://127.0.0.1:{srv.port}/a", retries=Retry(total=total)))
    print(f"manager Retry(total={total}): {out}; {len(srv.seen)} requests on the wire {srv.seen}")
    if len(srv.seen) > 1 + total or not pool_ok:
        print(f"VIOLATION: more than 1 + total = {1 + total} requests were sent")
        return 1
    return 0


if __name__ == "__main__":
    t = threading.Timer(50, lambda: os._exit(3))
    t.daemon = True
    t.start()
    sys.exit(main())
