"""C10 audit (weaker than the other two findings): what HTTPConnection.request lets through in header
names and values because it relies on http.client's checks, which are laxer than the HTTP/1.1 grammar:

  names : anything matching [^:\\s][^:\\r\\n]*  -> SP, HTAB, VT, NUL, DEL, '(' ... inside or at the end
  values: only a bare CR / LF that is not followed by SP/HTAB is refused -> NUL, and CRLF/LF + SP/HTAB
          ("obs-fold", which a sender MUST NOT generate) are written as they are

The sharpest consequence: a name with trailing whitespace ("Content-Length ", "Host\\t") is not
recognised by urllib3's own header_keys test, so the automatic Content-Length / Host line is written
AS WELL: two differing framing/Host lines, the classic desync ingredient.

Run:  PYTHONPATH=/tmp/w4-c10/src /venv/bin/python demo.py     exit 1 = violation observed
In-memory only.
"""
from __future__ import annotations

import io
import re
import sys

from urllib3.connection import HTTPConnection


class FakeSock:
    def __init__(self) -> None:
        self.out = bytearray()

    def sendall(self, data) -> None:  # type: ignore[no-untyped-def]
        self.out += bytes(data)

    def settimeout(self, t) -> None:  # type: ignore[no-untyped-def]
        pass

    def close(self) -> None:
        pass


def emit(headers, body=None):  # type: ignore[no-untyped-def]
    conn = HTTPConnection("example.test", 80, timeout=3)
    conn.sock = sock = FakeSock()  # type: ignore[assignment]
    try:
        conn.request("POST", "/", headers=headers, body=body)
    except Exception as e:  # noqa: BLE001
        return bytes(sock.out), e
    return bytes(sock.out), None


TOKEN = re.compile(rb"^[!#$%&'*+\-.^_`|~0-9A-Za-z]+$")
# field-value = *( field-content ) ; VCHAR / obs-text, SP / HTAB inside; no CTL
VALUE = re.compile(rb"^[\t\x20-\x7e\x80-\xff]*$")


def strict_head(raw: bytes):  # type: ignore[no-untyped-def]
    head, sep, body = raw.partition(b"\r\n\r\n")
    if not sep:
        return "no CRLFCRLF"
    lines = head.split(b"\r\n")
    seen = {}
    for line in lines[1:]:
        name, colon, value = line.partition(b":")
        if not colon or not TOKEN.match(name):
            return f"illegal field line {line!r}"
        if not VALUE.match(value):
            return f"illegal field value in {line!r}"
        seen.setdefault(name.lower(), []).append(value.strip())
    for single in (b"host", b"content-length"):
        if len(set(seen.get(single, []))) > 1:
            return f"conflicting {single.decode()} lines {seen[single]}"
    return None


CASES = [
    ("name with SP inside", {"X Y": "v"}, None),
    ("name with NUL", {"X\x00Y": "v"}, None),
    ("value with NUL", {"X-A": "a\x00b"}, None),
    ("value with bare LF + HTAB (obs-fold)", {"X-A": "a\n\tInjected: x"}, None),
    ("value with CRLF + SP (obs-fold)", {"X-A": "a\r\n Injected: x"}, None),
    ("'Content-Length ' next to the automatic one", {"Content-Length ": "0"}, b"GET /smuggled HTTP/1.1\r\nHost: example.test\r\n\r\n"),
    ("'Host\\t' next to the automatic one", {"Host\t": "internal.test"}, None),
]

bad = 0
for label, headers, body in CASES:
    raw, err = emit(headers, body)
    if err is not None and not raw:
        print(f"[{label}] rejected before any write: {err!r}")
        continue
    problem = strict_head(raw)
    print(f"[{label}] wrote {raw!r}")
    if problem:
        bad += 1
        print(f"VIOLATION [{label}]: {problem}")
sys.exit(1 if bad else 0)
