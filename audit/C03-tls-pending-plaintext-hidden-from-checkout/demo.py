#!/usr/bin/env python
"""C03 audit demo (unchanged source): unsolicited bytes that are pending on a pooled
HTTPS connection at checkout are NOT noticed when they sit, already decrypted, inside
the TLS layer (OpenSSL's record buffer) instead of in the kernel socket buffer.

HTTPConnection.is_connected == not wait_for_read(sock, 0.0) only polls the file
descriptor.  If the peer's unsolicited bytes arrived in the same TLS record as the end
of the previous response, OpenSSL has already pulled the whole record off the wire;
http.client's 8 KiB BufferedReader took the first io.DEFAULT_BUFFER_SIZE bytes of it
and the rest stays in SSL_pending().  poll() says "not readable", the connection is
reused, and the next request is answered with bytes the server sent BEFORE that
request existed.

Run:  PYTHONPATH=/tmp/w4-c03/src /venv/bin/python demo.py
exit 1 = violation observed, exit 0 = not observed.
"""
from __future__ import annotations

import io
import os
import socket
import ssl
import sys
import tempfile
import threading

import trustme

import urllib3

BUF = io.DEFAULT_BUFFER_SIZE  # size of the BufferedReader http.client puts on the socket
log: list[str] = []


def build(tag: bytes, total: int | None) -> bytes:
    """A complete keep-alive HTTP/1.1 response whose body starts with `tag`;
    padded inside the body to exactly `total` bytes on the wire when given."""
    body = tag
    if total is not None:
        for _ in range(3):  # the Content-Length digits may change the header size
            head = b"HTTP/1.1 200 OK\r\nContent-Length: %d\r\n\r\n" % len(body)
            body = tag + b"." * (total - len(head) - len(tag))
        head = b"HTTP/1.1 200 OK\r\nContent-Length: %d\r\n\r\n" % len(body)
        assert len(head) + len(body) == total, (len(head), len(body))
    else:
        head = b"HTTP/1.1 200 OK\r\nContent-Length: %d\r\n\r\n" % len(body)
    return head + body


def read_request(conn: ssl.SSLSocket) -> bytes:
    buf = b""
    while b"\r\n\r\n" not in buf:
        chunk = conn.recv(65536)
        if not chunk:
            break
        buf += chunk
    return buf


def server(lsock: socket.socket, ctx: ssl.SSLContext, done: threading.Event) -> None:
    try:
        lsock.settimeout(10)
        for nconn in range(2):  # a second accept only happens if urllib3 reconnects
            try:
                raw, _ = lsock.accept()
            except OSError:
                return
            raw.settimeout(10)
            try:
                conn = ctx.wrap_socket(raw, server_side=True)
            except (OSError, ssl.SSLError) as e:
                log.append(f"server: handshake failed {e!r}")
                continue
            try:
                nreq = 0
                while True:
                    req = read_request(conn)
                    if not req:
                        break
                    nreq += 1
                    path = req.split(b" ", 2)[1]
                    log.append(f"server: conn#{nconn} got request {path!r}")
                    if nconn == 0 and nreq == 1:
                        # The reply to request 1 is exactly BUF bytes; a second, unsolicited
                        # response follows it in the SAME TLS record (one sendall <= 16 KiB).
                        reply = build(b"reply-to=" + path + b";", BUF)
                        stray = build(b"UNSOLICITED-sent-after-" + path + b";", None)
                        blob = reply + stray
                        assert len(blob) <= 16384
                        conn.sendall(blob)
                    else:
                        conn.sendall(build(b"reply-to=" + path + b";", None))
            except (OSError, ssl.SSLError) as e:
                log.append(f"server: conn#{nconn} ended {e!r}")
            finally:
                try:
                    conn.close()
                except OSError:
                    pass
    finally:
        done.set()


def main() -> int:
    ca = trustme.CA()
    cert = ca.issue_cert("localhost", "127.0.0.1")
    sctx = ssl.SSLContext(ssl.PROTOCOL_TLS_SERVER)
    cert.configure_cert(sctx)
    cafile = tempfile.NamedTemporaryFile(suffix=".pem", delete=False)
    cafile.write(ca.cert_pem.bytes())
    cafile.close()

    lsock = socket.socket()
    lsock.setsockopt(socket.SOL_SOCKET, socket.SO_REUSEADDR, 1)
    lsock.bind(("127.0.0.1", 0))
    lsock.listen(5)
    port = lsock.getsockname()[1]
    done = threading.Event()
    t = threading.Thread(target=server, args=(lsock, sctx, done), daemon=True)
    t.start()

    rc = 0
    try:
        with urllib3.HTTPSConnectionPool(
            "localhost",
            port,
            ca_certs=cafile.name,
            maxsize=1,
            timeout=urllib3.Timeout(connect=5, read=5),
            retries=False,
        ) as pool:
            r1 = pool.request("GET", "/one")
            print("request /one ->", r1.status, r1.data[:40])
            assert r1.data.startswith(b"reply-to=/one;")

            # At this point the unsolicited bytes are pending on the pooled connection.
            conn = pool.pool.queue[-1]
            pending = conn.sock.pending() if conn is not None and conn.sock else None
            print("pooled connection: SSL pending() =", pending,
                  "| is_connected =", conn.is_connected if conn is not None else None)

            try:
                r2 = pool.request("GET", "/two")
            except urllib3.exceptions.HTTPError as e:
                print("request /two -> urllib3 error (allowed by the property):", repr(e))
            else:
                print("request /two ->", r2.status, r2.data[:60])
                if not r2.data.startswith(b"reply-to=/two;"):
                    print("VIOLATION: the body delivered for /two was sent by the server "
                          "before /two was requested (it was pending at checkout).")
                    rc = 1
            print("connections opened by the pool:", pool.num_connections)
    finally:
        lsock.close()
        done.wait(3)
        os.unlink(cafile.name)
        for line in log:
            print(line)
    return rc


if __name__ == "__main__":
    sys.exit(main())
