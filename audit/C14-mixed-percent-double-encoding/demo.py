"""C14 audit: a valid percent-escape is double-encoded as soon as the SAME component also
holds one '%' that is not a valid escape.  Pure in-memory, no I/O, runs in milliseconds.

Run:  PYTHONPATH=/tmp/w4-c14/src /venv/bin/python demo.py      (exit 1 == violation observed)
"""
import sys

from urllib3.util.url import parse_url
from urllib3.connectionpool import _encode_target  # what HTTPConnectionPool.urlopen() sends

CASES = [
    # (input, component, the valid escape that must survive as-is (upper-cased))
    ("http://h/%41%", "path", "%41"),
    ("http://h/report%20final/100%", "path", "%20"),
    ("http://h/search?q=a%20b&discount=100%", "query", "%20"),
    ("http://h/#sec%2fone%", "fragment", "%2F"),
    ("http://us%65r:100%@h/", "auth", "%65"),
]

violations = 0
for url, comp, escape in CASES:
    parsed = parse_url(url)
    value = getattr(parsed, comp)
    doubled = "%25" + escape[1:]
    ok = escape in value.upper() and doubled not in value.upper()
    print(f"{url!r:45} {comp}={value!r:40} {'ok' if ok else 'DOUBLE-ENCODED ' + doubled}")
    if not ok:
        violations += 1

# The same thing on the request-target route (pool.urlopen('/...') -> _encode_target)
target = _encode_target("/search?q=a%20b&discount=100%")
print("request target:", target)
if "%2520" in target:
    violations += 1

# control: without the stray '%' the escape is kept
assert parse_url("http://h/search?q=a%20b").query == "q=a%20b"

if violations:
    print(f"VIOLATION: {violations} case(s) double-encode a valid escape")
    sys.exit(1)
print("no violation")
