"""C10 audit: a request that is rejected after putrequest() (illegal header value, illegal
header name, unsupported body type, non-latin-1 header value ...) leaves its request line and
the headers queued so far in http.client's ``_buffer``.  ``HTTPConnection.close()`` resets the
state machine but not that buffer, so the NEXT request() on the same connection object writes
the leftovers in front of itself: its request line is the *previous* call's, and its own request
line shows up as a (malformed) header line.

Run:  PYTHONPATH=/tmp/w4-c10/src /venv/bin/python demo.py     exit 1 = violation observed
In-memory only (scripted socket), no network, finishes at once.
"""
from __future__ import annotations

import io
import re
import sys

from urllib3.connection import HTTPConnection


class FakeSock:
    def __init__(self) -> None:
        self.out = bytearray()

    def sendall(self, data) -> None:  # type: ignore[no-untyped-def]
        self.out += bytes(data)

    def settimeout(self, t) -> None:  # type: ignore[no-untyped-def]
        pass

    def close(self) -> None:
        pass

    def makefile(self, *a, **k):  # type: ignore[no-untyped-def]
        return io.BytesIO(b"HTTP/1.1 200 OK\r\nContent-Length: 0\r\n\r\n")


class Conn(HTTPConnection):
    """A connection whose socket is in memory; everything else is the library's."""

    def _new_conn(self):  # type: ignore[no-untyped-def]
        self.last_sock = FakeSock()
        return self.last_sock


TOKEN = re.compile(rb"^[!#$%&'*+\-.^_`|~0-9A-Za-z]+$")


def strict_parse(raw: bytes):  # type: ignore[no-untyped-def]
    """Exactly one request head: request-line, then token ':' value lines, then CRLF CRLF."""
    head, sep, rest = raw.partition(b"\r\n\r\n")
    assert sep, "no end of headers"
    lines = head.split(b"\r\n")
    m = re.match(rb"^([!#$%&'*+\-.^_`|~0-9A-Za-z]+) (\S+) HTTP/1\.1$", lines[0])
    assert m, f"bad request line {lines[0]!r}"
    headers = []
    for line in lines[1:]:
        name, colon, value = line.partition(b":")
        assert colon and TOKEN.match(name), f"bad header line {line!r}"
        headers.append((name.decode().lower(), value.strip().decode("latin-1")))
    return m.group(1).decode(), m.group(2).decode(), headers, rest


FAILING_FIRST_CALLS = {
    "illegal header value": dict(headers={"X-A": "a\r\nInjected: 1"}),
    "illegal header name": dict(headers={"X A\r\n": "v"}),
    "non latin-1 header value": dict(headers={"X-A": "€"}),
    "unsupported body type": dict(body=12345),
}

violations = []
for label, kw in FAILING_FIRST_CALLS.items():
    conn = Conn("example.test", 80, timeout=3)
    try:
        conn.request("DELETE", "/first?secret=1", **kw)
    except (ValueError, TypeError) as e:
        first_err = e
    else:
        print(f"[{label}] first call unexpectedly succeeded")
        continue
    wrote_first = bytes(getattr(conn, "last_sock", FakeSock()).out)
    assert wrote_first == b"", "first call wrote bytes"  # clause 1 holds: nothing written

    conn.close()  # what any caller does with a connection whose request() raised
    conn.request("GET", "/second", headers={"X-Good": "1"})
    wire = bytes(conn.last_sock.out)
    try:
        method, target, headers, rest = strict_parse(wire)
        ok = (method, target) == ("GET", "/second") and rest == b""
        why = f"request line is {method} {target}"
    except AssertionError as e:
        ok, why = False, str(e)
    print(f"[{label}] first call: {type(first_err).__name__}; second call wrote:\n    {wire!r}")
    if not ok:
        violations.append((label, why))

for label, why in violations:
    print(f"VIOLATION [{label}]: second request() asked for 'GET /second' but {why}")
sys.exit(1 if violations else 0)
