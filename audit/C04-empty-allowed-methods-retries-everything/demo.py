"""C04 audit: Retry(allowed_methods=<empty collection>) means "retry every method",
so a POST (outside the empty set) is re-sent after EOF and after a forcelisted status.

Run: PYTHONPATH=/tmp/w4-c04/src /venv/bin/python demo.py   (exit 1 = violation observed)
"""
import os, socket, sys, threading

import urllib3
from urllib3.util.retry import Retry


class Server:
    def __init__(self, script):
        self.script, self.seen = list(script), []
        self.lsock = socket.socket()
        self.lsock.bind(("127.0.0.1", 0))
        self.lsock.listen(16)
        self.lsock.settimeout(5)
        self.port = self.lsock.getsockname()[1]
        threading.Thread(target=self.run, daemon=True).start()

    def run(self):
        try:
            while self.script:
                try:
                    c, _ = self.lsock.accept()
                except OSError:
                    return
                c.settimeout(5)
                try:
                    buf = b""
                    while b"\r\n\r\n" not in buf:
                        d = c.recv(65536)
                        if not d:
                            break
                        buf += d
                    if not buf:
                        continue
                    self.seen.append(buf.split(b"\r\n")[0].decode())
                    act = self.script.pop(0)
                    if act == "eof":
                        continue
                    c.sendall(f"HTTP/1.1 {act} X\r\nContent-Length: 0\r\nConnection: close\r\n\r\n".encode())
                except OSError:
                    pass
                finally:
                    c.close()
        finally:
            self.lsock.close()


def attempt(fn):
    try:
        return f"status {fn().status}"
    except Exception as e:  # noqa: BLE001
        return type(e).__name__


def main():
    bad = 0
    for allowed in (frozenset(), [], frozenset(["GET"])):
        for script, kw in ((["eof", 200], {}), ([503, 200], {"status_forcelist": [503]})):
            srv = Server(script)
            pool = urllib3.HTTPConnectionPool("127.0.0.1", srv.port, timeout=3)
            out = attempt(
                lambda: pool.urlopen(
                    "POST", "/pay", body=b"x", retries=Retry(total=2, allowed_methods=allowed, **kw)
                )
            )
            pool.close()
            print(f"allowed_methods={allowed!r:22} {script[0]!s:>4}: {out:14} {len(srv.seen)} POSTs on the wire")
            if len(srv.seen) > 1:
                bad = 1
    if bad:
        print("VIOLATION: POST is outside an empty allowed_methods, yet it was sent again")
    return bad


if __name__ == "__main__":
    t = threading.Timer(50, lambda: os._exit(3))
    t.daemon = True
    t.start()
    sys.exit(main())
