#!/usr/bin/env python
"""C03 audit demo (unchanged source): urlopen(..., preload_content=False, release_conn=True)
puts the connection back into the pool while the body is still unread, and the response
object no longer knows the connection.  Disposing of that response (close(), or a read
error such as a read timeout) closes only the http.client response: the connection stays
in the pool, http.client's "previous response not finished" guard is gone, and nothing is
pending on the socket yet, so the next request is sent on it and is answered with the
rest of the FIRST reply.

Run:  PYTHONPATH=/tmp/w4-c03/src /venv/bin/python demo.py [close|timeout]
exit 1 = violation observed, exit 0 = not observed.
"""
from __future__ import annotations

import socket
import sys
import threading
import time

import urllib3

log: list[str] = []


def resp(body: bytes) -> bytes:
    return b"HTTP/1.1 200 OK\r\nContent-Length: %d\r\n\r\n" % len(body) + body


def read_request(conn: socket.socket) -> bytes:
    buf = b""
    while b"\r\n\r\n" not in buf:
        chunk = conn.recv(65536)
        if not chunk:
            return b""
        buf += chunk
    return buf


def handle(n: int, conn: socket.socket) -> None:
    conn.settimeout(15)
    try:
        while True:
            req = read_request(conn)
            if not req:
                break
            path = req.split(b" ", 2)[1]
            log.append(f"server: conn#{n} got {path!r}")
            if path == b"/one":
                # A slow reply: the head at once, the body a second later.  The body is a
                # document that happens to look like an HTTP message (a stored response, a
                # proxy log, anything an attacker can make the origin serve).
                body = resp(b"PART OF THE BODY OF /one")
                conn.sendall(b"HTTP/1.1 200 OK\r\nContent-Length: %d\r\n\r\n" % len(body))
                time.sleep(1.0)
                conn.sendall(body)
            else:
                conn.sendall(resp(b"reply-to=" + path))
    except OSError as e:
        log.append(f"server: conn#{n} ended {e!r}")
    finally:
        conn.close()


def acceptor(lsock: socket.socket) -> None:
    n = 0
    while True:
        try:
            c, _ = lsock.accept()
        except OSError:
            return
        threading.Thread(target=handle, args=(n, c), daemon=True).start()
        n += 1


def main() -> int:
    how = sys.argv[1] if len(sys.argv) > 1 else "close"
    lsock = socket.socket()
    lsock.setsockopt(socket.SOL_SOCKET, socket.SO_REUSEADDR, 1)
    lsock.bind(("127.0.0.1", 0))
    lsock.listen(8)
    lsock.settimeout(30)
    port = lsock.getsockname()[1]
    threading.Thread(target=acceptor, args=(lsock,), daemon=True).start()

    rc = 0
    try:
        with urllib3.HTTPConnectionPool(
            "127.0.0.1", port, maxsize=1, retries=False,
            timeout=urllib3.Timeout(connect=5, read=5),
        ) as pool:
            r1 = pool.urlopen("GET", "/one", preload_content=False, release_conn=True,
                              timeout=urllib3.Timeout(connect=5, read=0.2))
            print("/one ->", r1.status, "head received, body not read; r1.connection =", r1.connection)
            if how == "close":
                r1.close()  # the caller is not interested in the body after all
            else:
                try:
                    r1.read()
                except urllib3.exceptions.ReadTimeoutError as e:
                    print("reading /one ->", repr(e))
            try:
                r2 = pool.request("GET", "/two")
            except urllib3.exceptions.HTTPError as e:
                print("/two -> urllib3 error (allowed by the property):", repr(e))
            else:
                print("/two ->", r2.status, r2.data)
                if r2.data != b"reply-to=/two":
                    print("VIOLATION: /two was answered with bytes of the reply to /one; the "
                          "connection whose exchange did not end cleanly was reused.")
                    rc = 1
            print("connections opened by the pool:", pool.num_connections)
    finally:
        lsock.close()
        time.sleep(0.1)
        for line in log:
            print(line)
    return rc


if __name__ == "__main__":
    sys.exit(main())
