"""Unchanged source: a streamed response that carries "Connection: close" owns the socket through its file
object (http.client already detached it from the connection).  Disposing of that response with
release_conn() returns the slot but leaves the socket open: it is neither idle in the pool nor closed.
Run: PYTHONPATH=/tmp/w4-c01/src /venv/bin/python demo.py   (exit 1 = violation observed)"""
import socket
import sys
import threading

import urllib3

result = {}
done = threading.Event()


def server(ls):
    c, _ = ls.accept()
    c.settimeout(5)
    buf = b""
    while b"\r\n\r\n" not in buf:
        buf += c.recv(65536)
    c.sendall(b"HTTP/1.1 200 OK\r\nConnection: close\r\nContent-Length: 5\r\n\r\nhello")
    c.settimeout(2.0)
    try:
        result["peer"] = "closed" if c.recv(16) == b"" else "data"
    except socket.timeout:
        result["peer"] = "still open after 2 s"
    except OSError as e:
        result["peer"] = f"closed ({e})"
    c.close()
    done.set()


def main():
    ls = socket.socket()
    ls.bind(("127.0.0.1", 0))
    ls.listen(1)
    ls.settimeout(10)
    threading.Thread(target=server, args=(ls,), daemon=True).start()
    pool = urllib3.HTTPConnectionPool("127.0.0.1", ls.getsockname()[1], maxsize=1, block=True, timeout=5)
    r = pool.urlopen("GET", "/", preload_content=False, pool_timeout=0.3)
    r.release_conn()  # one of the three ways of disposing of a response
    print("qsize after release_conn():", pool.pool.qsize())
    idle = pool.pool.queue[0]
    print("idle connection object has a socket:", idle.sock is not None)
    done.wait(10)
    print("server's view of the client socket:", result.get("peer"))
    bad = result.get("peer", "").startswith("still open")
    r.close()
    pool.close()
    ls.close()
    print("VIOLATION: socket neither idle in the pool nor closed" if bad else "no violation")
    return 1 if bad else 0


if __name__ == "__main__":
    sys.exit(main())
