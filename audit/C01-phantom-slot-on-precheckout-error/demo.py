"""Unchanged source: a request that fails BEFORE it checks a connection out still "gives back" a
placeholder, so a block=True pool of maxsize=1 ends up handing out two leases at once.
Run: PYTHONPATH=/tmp/w4-c01/src /venv/bin/python demo.py   (exit 1 = violation observed)"""
import sys

import urllib3
from urllib3.exceptions import EmptyPoolError, FullPoolError

import socket
import threading


def serve(respond):
    """Tiny loopback HTTP/1.1 server. respond(path, conn_index, request_index) -> bytes or None (None: close without answering)."""
    ls = socket.socket()
    ls.bind(("127.0.0.1", 0))
    ls.listen(16)
    ls.settimeout(30)
    counter = {"conns": 0}

    def handle(c, idx):
        c.settimeout(10)
        try:
            buf = b""
            n = 0
            while True:
                while b"\r\n\r\n" not in buf:
                    d = c.recv(65536)
                    if not d:
                        return
                    buf += d
                head, buf = buf.split(b"\r\n\r\n", 1)
                path = head.split(b" ")[1].decode()
                out = respond(path, idx, n)
                n += 1
                if out is None:
                    return
                c.sendall(out)
        except OSError:
            pass
        finally:
            c.close()

    def loop():
        try:
            while True:
                c, _ = ls.accept()
                counter["conns"] += 1
                threading.Thread(target=handle, args=(c, counter["conns"]), daemon=True).start()
        except OSError:
            pass

    threading.Thread(target=loop, daemon=True).start()
    return ls, ls.getsockname()[1], counter


def main():
    ok = lambda path, c, n: b"HTTP/1.1 200 OK\r\nContent-Length: 5\r\n\r\nhello"
    ls, port, counter = serve(ok)
    problems = []
    for label, kwargs in (("timeout=0", {"timeout": 0}), ("pool_timeout=-1", {"pool_timeout": -1})):
        pool = urllib3.HTTPConnectionPool("127.0.0.1", port, maxsize=1, block=True, timeout=5)
        r1 = pool.urlopen("GET", "/", preload_content=False, pool_timeout=0.3)  # the only slot is leased
        assert pool.pool.qsize() == 0
        kw = {"pool_timeout": 0.3}
        kw.update(kwargs)
        try:
            pool.urlopen("GET", "/", **kw)
        except ValueError as e:  # argument validation, raised before _get_conn() took anything
            print(f"[{label}] rejected as expected: {type(e).__name__}: {e}")
        except EmptyPoolError:
            print(f"[{label}] EmptyPoolError (fine)")
        q = pool.pool.qsize()
        print(f"[{label}] qsize after the rejected call, with one lease outstanding: {q} (expected 0)")
        if q != 0:
            problems.append(f"{label}: phantom placeholder in the queue")
        try:
            r2 = pool.urlopen("GET", "/", preload_content=False, pool_timeout=0.3)
        except EmptyPoolError:
            print(f"[{label}] second lease refused (correct for maxsize=1, block=True)")
        else:
            both_open = r1.connection.sock is not None and r2.connection.sock is not None
            print(f"[{label}] second lease GRANTED; two sockets open at once: {both_open}")
            problems.append(f"{label}: 2 connections open at once on a block=True maxsize=1 pool")
            r2.read()
            try:
                r1.read()
            except FullPoolError as e:
                print(f"[{label}] reading the first response to its end raised {type(e).__name__}")
                problems.append(f"{label}: FullPoolError out of HTTPResponse.read()")
        pool.close()
    ls.close()
    if problems:
        print("VIOLATION:", "; ".join(problems))
        return 1
    print("no violation")
    return 0


if __name__ == "__main__":
    sys.exit(main())
