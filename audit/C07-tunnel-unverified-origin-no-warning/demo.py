"""C07 audit demo (unchanged source): a request tunnelled (CONNECT) through an HTTPS proxy
to an origin whose certificate is NOT validated (cert_reqs='CERT_NONE', no origin pin) is
sent without any InsecureRequestWarning, as soon as the *proxy* hop counts as verified
(here: proxy_assert_fingerprint pins the proxy certificate).

Run:  PYTHONPATH=/tmp/w4-c07/src /venv/bin/python demo.py
Exit 1 when the violation is observed (request bytes reached the untrusted, mismatching
origin and no InsecureRequestWarning was raised), exit 0 otherwise.
"""
from __future__ import annotations

import hashlib
import socket
import ssl
import sys
import threading
import time
import warnings

import trustme

import urllib3
from urllib3.exceptions import InsecureRequestWarning

TIMEOUT = 5


def serve(lsock: socket.socket, handler) -> None:  # type: ignore[no-untyped-def]
    lsock.settimeout(0.2)

    def loop() -> None:
        while True:
            try:
                conn, _ = lsock.accept()
            except socket.timeout:
                continue
            except OSError:
                return
            conn.settimeout(TIMEOUT)
            threading.Thread(target=handler, args=(conn,), daemon=True).start()

    threading.Thread(target=loop, daemon=True).start()


def listener() -> socket.socket:
    s = socket.socket()
    s.bind(("127.0.0.1", 0))
    s.listen(8)
    return s


def main() -> int:
    socket.setdefaulttimeout(TIMEOUT)
    proxy_ca, rogue_ca = trustme.CA(), trustme.CA()

    # origin: issuer nobody trusts, subject name that doesn't match the requested host
    origin_ctx = ssl.SSLContext(ssl.PROTOCOL_TLS_SERVER)
    rogue_ca.issue_cert("attacker.invalid").configure_cert(origin_ctx)
    origin_received: list[bytes] = []
    origin_l = listener()

    def origin_handler(conn: socket.socket) -> None:
        try:
            tls = origin_ctx.wrap_socket(conn, server_side=True)
            buf = b""
            while b"\r\n\r\n" not in buf:
                d = tls.recv(65536)
                if not d:
                    break
                buf += d
            origin_received.append(buf)
            tls.sendall(b"HTTP/1.1 200 OK\r\nContent-Length: 2\r\nConnection: close\r\n\r\nok")
            tls.close()
        except (OSError, ssl.SSLError):
            conn.close()

    serve(origin_l, origin_handler)

    # HTTPS proxy speaking CONNECT
    proxy_ctx = ssl.SSLContext(ssl.PROTOCOL_TLS_SERVER)
    proxy_cert = proxy_ca.issue_cert("localhost")
    proxy_cert.configure_cert(proxy_ctx)
    proxy_pin = hashlib.sha256(
        ssl.PEM_cert_to_DER_cert(proxy_cert.cert_chain_pems[0].bytes().decode())
    ).hexdigest()
    proxy_l = listener()
    connects: list[str] = []

    def proxy_handler(conn: socket.socket) -> None:
        up = None
        try:
            tls = proxy_ctx.wrap_socket(conn, server_side=True)
            buf = b""
            while b"\r\n\r\n" not in buf:
                d = tls.recv(65536)
                if not d:
                    return
                buf += d
            line = buf.split(b"\r\n", 1)[0].decode()
            connects.append(line)
            port = int(line.split()[1].rpartition(":")[2])
            up = socket.create_connection(("127.0.0.1", port), timeout=TIMEOUT)
            tls.sendall(b"HTTP/1.1 200 Connection established\r\n\r\n")
            tls.settimeout(0.05)
            up.settimeout(0.05)
            deadline = time.time() + 10
            while time.time() < deadline:
                for a, b in ((tls, up), (up, tls)):
                    try:
                        d = a.recv(65536)
                    except (socket.timeout, ssl.SSLWantReadError):
                        continue
                    if not d:
                        return
                    b.sendall(d)
        except (OSError, ssl.SSLError):
            pass
        finally:
            if up is not None:
                up.close()
            conn.close()

    serve(proxy_l, proxy_handler)

    pm = urllib3.ProxyManager(
        f"https://localhost:{proxy_l.getsockname()[1]}",
        cert_reqs="CERT_NONE",  # => the origin's certificate is not validated at all
        proxy_assert_fingerprint=proxy_pin,  # => the proxy hop is pinned
        timeout=TIMEOUT,
        retries=False,
    )
    with warnings.catch_warnings(record=True) as caught:
        warnings.simplefilter("always")
        try:
            r = pm.request("GET", f"https://localhost:{origin_l.getsockname()[1]}/secret")
            status: object = r.status
        except Exception as e:  # noqa: BLE001
            status = repr(e)
    insecure = [w for w in caught if issubclass(w.category, InsecureRequestWarning)]
    print("CONNECT lines seen by proxy:", connects)
    print("result:", status)
    print("origin (untrusted issuer, SAN attacker.invalid) received request bytes:", bool(origin_received))
    print("InsecureRequestWarning count:", len(insecure))
    pm.clear()
    origin_l.close()
    proxy_l.close()
    if origin_received and not insecure:
        print(
            "VIOLATION: tunnelled connection made without certificate validation "
            "(cert_reqs=CERT_NONE, no origin pin) sent the request and triggered no InsecureRequestWarning"
        )
        return 1
    print("ok")
    return 0


if __name__ == "__main__":
    sys.exit(main())
