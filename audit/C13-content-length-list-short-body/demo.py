"""Content-Length: 5, 5 is accepted by urllib3 as "length 5", but a body cut short of it
is returned by read() / preload / .data without any error.  Exit 1 when that is observed."""
import os
import sys

sys.path.insert(0, os.path.dirname(os.path.abspath(__file__)))
from _h import Server  # noqa: E402

import urllib3  # noqa: E402
from urllib3.exceptions import HTTPError  # noqa: E402

CUT = b"HTTP/1.1 200 OK\r\nContent-Length: 5, 5\r\n\r\nabc"  # 3 of 5 bytes, then FIN
violations = []


def attempt(name, preload, reader):
    s = Server([[(CUT, True)]])
    pool = urllib3.HTTPConnectionPool("127.0.0.1", s.port, timeout=3, retries=False)
    try:
        r = pool.urlopen("GET", "/", preload_content=preload, retries=False)
        lr = r.length_remaining if not preload else None
        out = reader(r)
    except HTTPError as e:
        print(f"{name}: raised {type(e).__name__} (as the property demands)")
    else:
        print(f"{name}: NO ERROR, body={out!r} length_remaining seen at start={lr}")
        violations.append(name)
    finally:
        pool.close()
        s.close()


attempt("preload_content=True .data", True, lambda r: r.data)
attempt("read()", False, lambda r: r.read())
attempt("read(2) then read()", False, lambda r: r.read(2) + r.read())
attempt("json()-style .data", False, lambda r: r.data)
# control: the streaming pattern does notice it
attempt("stream(2) [control]", False, lambda r: b"".join(r.stream(2)))

if violations:
    print("VIOLATION: short body presented as complete by:", violations)
    sys.exit(1)
print("ok")
