"""Unchanged source: urlopen() treats ANY EmptyPoolError leaving its try block as "no connection was
checked out".  If the error comes from inside the request (here: the body iterator uses the same
block=True pool), the connection that WAS checked out is neither closed nor given back: the slot is
lost for good and its socket stays open.
Run: PYTHONPATH=/tmp/w4-c01/src /venv/bin/python demo.py   (exit 1 = violation observed)"""
import sys

import urllib3
from urllib3.exceptions import EmptyPoolError

import socket
import threading


def serve(respond):
    """Tiny loopback HTTP/1.1 server. respond(path, conn_index, request_index) -> bytes or None (None: close without answering)."""
    ls = socket.socket()
    ls.bind(("127.0.0.1", 0))
    ls.listen(16)
    ls.settimeout(30)
    counter = {"conns": 0}

    def handle(c, idx):
        c.settimeout(10)
        try:
            buf = b""
            n = 0
            while True:
                while b"\r\n\r\n" not in buf:
                    d = c.recv(65536)
                    if not d:
                        return
                    buf += d
                head, buf = buf.split(b"\r\n\r\n", 1)
                path = head.split(b" ")[1].decode()
                out = respond(path, idx, n)
                n += 1
                if out is None:
                    return
                c.sendall(out)
        except OSError:
            pass
        finally:
            c.close()

    def loop():
        try:
            while True:
                c, _ = ls.accept()
                counter["conns"] += 1
                threading.Thread(target=handle, args=(c, counter["conns"]), daemon=True).start()
        except OSError:
            pass

    threading.Thread(target=loop, daemon=True).start()
    return ls, ls.getsockname()[1], counter


def main():
    ls, port, _ = serve(lambda p, c, n: b"HTTP/1.1 200 OK\r\nContent-Length: 5\r\n\r\nhello")
    pool = urllib3.HTTPConnectionPool("127.0.0.1", port, maxsize=1, block=True, timeout=5)
    seen = {}
    orig_new_conn = pool._new_conn

    def recording_new_conn():
        seen["conn"] = orig_new_conn()
        return seen["conn"]

    pool._new_conn = recording_new_conn

    def body():
        yield b"first part"
        # pipe something fetched from the same host into the upload
        yield pool.urlopen("GET", "/part2", pool_timeout=0.2).data

    try:
        pool.urlopen("PUT", "/upload", body=body(), pool_timeout=0.2, retries=False)
    except EmptyPoolError as e:
        print("outer request failed with", type(e).__name__, "(a urllib3 error, fine)")
    q = pool.pool.qsize()
    sock = seen["conn"].sock
    print("qsize after the failed request, nothing outstanding:", q, "(expected 1)")
    print("socket of the abandoned connection still open:", sock is not None)
    bad = q != 1 or sock is not None
    try:
        pool.urlopen("GET", "/", pool_timeout=0.2)
        print("next request served")
    except EmptyPoolError:
        print("next request: EmptyPoolError - the pool has lost its only slot")
        bad = True
    ls.close()
    print("VIOLATION" if bad else "no violation")
    return 1 if bad else 0


if __name__ == "__main__":
    sys.exit(main())
