"""After a DecodeError on a streamed (preload_content=False) response whose wire bytes were all consumed
by the failing call, the connection is NOT closed and serves the next request.  Exit 1 when observed."""
import gzip
import os
import sys

sys.path.insert(0, os.path.dirname(os.path.abspath(__file__)))
from _h import Server  # noqa: E402

import urllib3  # noqa: E402
from urllib3.exceptions import DecodeError  # noqa: E402

OK = b"HTTP/1.1 200 OK\r\nContent-Length: 2\r\n\r\nok"
body = bytearray(gzip.compress(b"hello world" * 50))
body[20] ^= 0xFF  # single-byte corruption of the compressed stream
body = bytes(body)
BAD = b"HTTP/1.1 200 OK\r\nContent-Encoding: gzip\r\nContent-Length: %d\r\n\r\n" % len(body) + body
violations = []

readers = [
    ("read()", lambda r: r.read()),
    ("stream(16)", lambda r: b"".join(r.stream(16))),
    ("read1 loop", lambda r: b"".join(iter(lambda: r.read1(7), b""))),
    ("read(7) loop [control]", lambda r: b"".join(iter(lambda: r.read(7), b""))),
]
for name, reader in readers:
    s = Server([[(BAD, False), (OK, False)], [(OK, False)]])
    pool = urllib3.HTTPConnectionPool("127.0.0.1", s.port, maxsize=1, timeout=3, retries=False)
    r = pool.urlopen("GET", "/first", preload_content=False, retries=False)
    try:
        reader(r)
        print(name, ": no DecodeError?!")
        violations.append(name + " (no error)")
    except DecodeError:
        pass
    pool.urlopen("GET", "/second", retries=False)
    served_on = [i for i, q in s.requests if b"/second" in q]
    print(f"{name}: DecodeError raised; second request went out on connection #{served_on[0]}"
          f" (pool opened {pool.num_connections} connection(s))")
    if served_on == [0]:
        violations.append(name)
    pool.close()
    s.close()

if violations:
    print("VIOLATION: connection that carried the undecodable response was handed to the next request:", violations)
    sys.exit(1)
print("ok")
