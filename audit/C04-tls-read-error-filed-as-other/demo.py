"""C04 audit: a read-phase TLS failure is filed under 'other', so a POST is sent twice
and a read=0 budget is ignored.  Direct HTTPS pool, no proxy.

Run: PYTHONPATH=/tmp/w4-c04/src /venv/bin/python demo.py   (exit 1 = violation observed)
"""
import os, socket, ssl, sys, threading, time

import trustme
import urllib3
from urllib3.util.retry import Retry

urllib3.disable_warnings()


class Server:
    """Each scripted action answers one request on a fresh connection."""

    def __init__(self, script, tls_ctx):
        self.script, self.seen, self.tls_ctx = list(script), [], tls_ctx
        self.lsock = socket.socket()
        self.lsock.bind(("127.0.0.1", 0))
        self.lsock.listen(16)
        self.lsock.settimeout(5)
        self.port = self.lsock.getsockname()[1]
        threading.Thread(target=self.run, daemon=True).start()

    @staticmethod
    def read_request(s):
        buf = b""
        while b"\r\n\r\n" not in buf:
            d = s.recv(65536)
            if not d:
                return None
            buf += d
        head, _, rest = buf.partition(b"\r\n\r\n")
        cl = 0
        for line in head.split(b"\r\n")[1:]:
            k, _, v = line.partition(b":")
            if k.strip().lower() == b"content-length":
                cl = int(v)
        while len(rest) < cl:
            d = s.recv(65536)
            if not d:
                break
            rest += d
        return head.split(b"\r\n")[0].decode() + " body=" + rest.decode()

    def run(self):
        try:
            while self.script:
                try:
                    c, _ = self.lsock.accept()
                except OSError:
                    return
                c.settimeout(5)
                try:
                    c = self.tls_ctx.wrap_socket(c, server_side=True)
                    line = self.read_request(c)
                    if line is None:
                        continue
                    self.seen.append(line)
                    act = self.script.pop(0)
                    if act == "corrupt-tls-stream":
                        # the whole request was received and "processed"; the reply
                        # leaves the machine outside the TLS record layer (a broken
                        # middlebox, a crashed TLS terminator...)
                        os.write(c.fileno(), b"HTTP/1.1 200 OK\r\nContent-Length: 0\r\n\r\n")
                        time.sleep(0.2)
                    else:
                        c.sendall(b"HTTP/1.1 200 OK\r\nContent-Length: 0\r\nConnection: close\r\n\r\n")
                except OSError:
                    pass
                finally:
                    try:
                        c.close()
                    except OSError:
                        pass
        finally:
            self.lsock.close()


def main():
    ca = trustme.CA()
    cert = ca.issue_cert("localhost", "127.0.0.1")
    sctx = ssl.SSLContext(ssl.PROTOCOL_TLS_SERVER)
    cert.configure_cert(sctx)
    cctx = ssl.create_default_context()
    ca.configure_trust(cctx)
    bad = 0

    # 1. POST is outside allowed_methods; the server got the whole request.
    srv = Server(["corrupt-tls-stream", "ok"], sctx)
    pool = urllib3.HTTPSConnectionPool("localhost", srv.port, ssl_context=cctx, timeout=3)
    try:
        r = pool.urlopen("POST", "/charge", body=b"amount=100", retries=Retry(total=3))
        outcome = f"status {r.status}"
    except Exception as e:  # noqa: BLE001
        outcome = type(e).__name__
    pool.close()
    print("POST, Retry(total=3):", outcome, "| server saw:", srv.seen)
    if len(srv.seen) > 1:
        print("VIOLATION: a POST that had reached the server was sent again")
        bad = 1

    # 2. read=0 says: never retry once the request may have been processed.
    srv = Server(["corrupt-tls-stream", "ok"], sctx)
    pool = urllib3.HTTPSConnectionPool("localhost", srv.port, ssl_context=cctx, timeout=3)
    try:
        r = pool.urlopen("GET", "/", retries=Retry(total=3, read=0))
        outcome = f"status {r.status}"
    except Exception as e:  # noqa: BLE001
        outcome = type(e).__name__
    pool.close()
    print("GET, Retry(total=3, read=0):", outcome, "| server saw:", srv.seen)
    if len(srv.seen) > 1:
        print("VIOLATION: 2 attempts on the wire with a read budget of 0 (1 + 0 allowed)")
        bad = 1
    return bad


if __name__ == "__main__":
    t = threading.Timer(50, lambda: os._exit(3))
    t.daemon = True
    t.start()
    sys.exit(main())
