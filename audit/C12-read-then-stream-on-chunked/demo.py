"""C12 audit demo (unchanged source): interleaving read(n)/read1(n) with stream()/read_chunked()
on a Transfer-Encoding: chunked response loses or corrupts bytes.

Run:  PYTHONPATH=/tmp/w4-c12/src /venv/bin/python demo.py
Exit status 1 when the violation is observed, 0 when every interleaving yields the payload.
Loopback only; every socket has a timeout; whole script is bounded by an alarm.
"""
from __future__ import annotations

import gzip
import signal
import socket
import sys
import threading

signal.alarm(50)  # hard stop, never hang

import urllib3


def chunked(body: bytes, sizes: list[int]) -> bytes:
    out, i, k = [], 0, 0
    while i < len(body):
        n = sizes[k % len(sizes)]
        k += 1
        piece = body[i : i + n]
        i += n
        out.append(b"%x\r\n%b\r\n" % (len(piece), piece))
    out.append(b"0\r\n\r\n")
    return b"".join(out)


def serve(responses: list[bytes]) -> tuple[int, threading.Thread]:
    """One connection per canned response, Connection: close, on 127.0.0.1."""
    srv = socket.socket()
    srv.bind(("127.0.0.1", 0))
    srv.listen(8)
    srv.settimeout(10)

    def run() -> None:
        try:
            for wire in responses:
                c, _ = srv.accept()
                c.settimeout(5)
                buf = b""
                while b"\r\n\r\n" not in buf:
                    d = c.recv(65536)
                    if not d:
                        break
                    buf += d
                c.sendall(wire)
                c.close()
        except OSError:
            pass
        finally:
            srv.close()

    t = threading.Thread(target=run, daemon=True)
    t.start()
    return srv.getsockname()[1], t


HEAD = b"HTTP/1.1 200 OK\r\nTransfer-Encoding: chunked\r\nConnection: close\r\n"

PAYLOAD = b"".join(b"line %04d of the payload\n" % i for i in range(40))
# A payload whose tail happens to look like chunk framing: shows *silent* corruption.
SNEAKY = b"HDR1\n" + b"5\r\nhello\r\n0\r\n\r\n"

CASES = [
    # name, wire, expected decoded payload, first call (method, n), how to read the rest
    ("identity, one chunk, read(4) then stream()",
     HEAD + b"\r\n" + chunked(PAYLOAD, [len(PAYLOAD)]), PAYLOAD, ("read", 4), "stream"),
    ("identity, chunk-aligned read(16) then stream()",
     HEAD + b"\r\n" + chunked(PAYLOAD, [16]), PAYLOAD, ("read", 16), "stream"),
    ("identity, read1(4) then iteration (for line in resp)",
     HEAD + b"\r\n" + chunked(PAYLOAD, [100]), PAYLOAD, ("read1", 4), "iter"),
    ("gzip, read(4) then read_chunked()",
     HEAD + b"Content-Encoding: gzip\r\n\r\n" + chunked(gzip.compress(PAYLOAD), [64]), PAYLOAD,
     ("read", 4), "read_chunked"),
    ("identity, partial stream(3) then read()",
     HEAD + b"\r\n" + chunked(PAYLOAD, [100]), PAYLOAD, ("stream", 3), "read"),
    ("identity, payload that looks like chunk framing, read(5) then stream()  [silent]",
     HEAD + b"\r\n" + chunked(SNEAKY, [len(SNEAKY)]), SNEAKY, ("read", 5), "stream"),
]


def main() -> int:
    port, _ = serve([c[1] for c in CASES])
    http = urllib3.PoolManager(retries=False, timeout=urllib3.Timeout(connect=5, read=5))
    violations = 0
    for name, _wire, expected, (first, n), rest in CASES:
        r = http.request("GET", f"http://127.0.0.1:{port}/", preload_content=False)
        got = b""
        try:
            if first == "stream":
                gen = r.stream(n, decode_content=True)
                got += next(gen)
            else:
                got += getattr(r, first)(n, decode_content=True)
            if rest == "stream":
                got += b"".join(r.stream(8, decode_content=True))
            elif rest == "read_chunked":
                got += b"".join(r.read_chunked(8, decode_content=True))
            elif rest == "iter":
                got += b"".join(r)
            else:
                got += r.read(decode_content=True)
            outcome = "ok" if got == expected else f"WRONG BYTES: got {got!r:.80} ({len(got)} of {len(expected)} bytes)"
        except Exception as e:  # noqa: BLE001
            outcome = f"RAISED after {len(got)} of {len(expected)} bytes: {e!r:.110}"
        finally:
            r.close()
        if outcome != "ok":
            violations += 1
        print(f"[{'ok' if outcome == 'ok' else 'VIOLATION'}] {name}\n      {outcome}")

    # Control: each API on its own is fine on the same wire data.
    port, _ = serve([CASES[0][1], CASES[0][1]])
    r = http.request("GET", f"http://127.0.0.1:{port}/", preload_content=False)
    assert b"".join(r.stream(8, decode_content=True)) == PAYLOAD
    r = http.request("GET", f"http://127.0.0.1:{port}/", preload_content=False)
    a = r.read(4, decode_content=True)
    assert a + r.read(decode_content=True) == PAYLOAD
    print("control: stream() alone and read(4)+read() alone both return the payload")

    print(f"{violations} of {len(CASES)} interleavings violate C12")
    return 1 if violations else 0


if __name__ == "__main__":
    sys.exit(main())
