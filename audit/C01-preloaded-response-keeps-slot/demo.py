"""Unchanged source: urlopen(preload_content=True, release_conn=False) returns a response whose body has
been read in full, yet the response keeps the pool's slot until release_conn()/close()/a further read().
Run: PYTHONPATH=/tmp/w4-c01/src /venv/bin/python demo.py   (exit 1 = violation observed)"""
import sys

import urllib3
from urllib3.exceptions import EmptyPoolError

import socket
import threading


def serve(respond):
    """Tiny loopback HTTP/1.1 server. respond(path, conn_index, request_index) -> bytes or None (None: close without answering)."""
    ls = socket.socket()
    ls.bind(("127.0.0.1", 0))
    ls.listen(16)
    ls.settimeout(30)
    counter = {"conns": 0}

    def handle(c, idx):
        c.settimeout(10)
        try:
            buf = b""
            n = 0
            while True:
                while b"\r\n\r\n" not in buf:
                    d = c.recv(65536)
                    if not d:
                        return
                    buf += d
                head, buf = buf.split(b"\r\n\r\n", 1)
                path = head.split(b" ")[1].decode()
                out = respond(path, idx, n)
                n += 1
                if out is None:
                    return
                c.sendall(out)
        except OSError:
            pass
        finally:
            c.close()

    def loop():
        try:
            while True:
                c, _ = ls.accept()
                counter["conns"] += 1
                threading.Thread(target=handle, args=(c, counter["conns"]), daemon=True).start()
        except OSError:
            pass

    threading.Thread(target=loop, daemon=True).start()
    return ls, ls.getsockname()[1], counter


def main():
    ls, port, _ = serve(lambda p, c, n: b"HTTP/1.1 200 OK\r\nContent-Length: 5\r\n\r\nhello")
    pool = urllib3.HTTPConnectionPool("127.0.0.1", port, maxsize=1, block=True, timeout=5)
    r = pool.urlopen("GET", "/", preload_content=True, release_conn=False, pool_timeout=0.3)
    print("body fully read by the preload:", r.data, "| fp closed:", r.isclosed())
    q = pool.pool.qsize()
    print("qsize:", q, "(the statement and the urlopen docstring promise 1)")
    bad = q != 1
    try:
        pool.urlopen("GET", "/", pool_timeout=0.3)
        print("next request served")
    except EmptyPoolError:
        print("next request: EmptyPoolError although the only response handed out was read to its end")
        bad = True
    r.release_conn()
    pool.close()
    ls.close()
    print("VIOLATION" if bad else "no violation")
    return 1 if bad else 0


if __name__ == "__main__":
    sys.exit(main())
