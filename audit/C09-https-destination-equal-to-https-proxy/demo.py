"""Recording loopback proxy that also plays the origin inside CONNECT."""
import socket, ssl, threading, time
import trustme

class BioTLS:
    """Server-side TLS over an arbitrary socket-like object (for TLS-in-TLS)."""
    def __init__(self, sock, ctx):
        self.sock = sock
        self.inc = ssl.MemoryBIO(); self.out = ssl.MemoryBIO()
        self.obj = ctx.wrap_bio(self.inc, self.out, server_side=True)
        self._loop(self.obj.do_handshake)

    def _flush(self):
        data = self.out.read()
        if data:
            self.sock.sendall(data)

    def _loop(self, fn, *a):
        while True:
            try:
                r = fn(*a)
                self._flush()
                return r
            except ssl.SSLWantReadError:
                self._flush()
                d = self.sock.recv(65536)
                if not d:
                    self.inc.write_eof()
                else:
                    self.inc.write(d)
            except ssl.SSLWantWriteError:
                self._flush()

    def recv(self, n):
        try:
            return self._loop(self.obj.read, n)
        except (ssl.SSLZeroReturnError, ssl.SSLEOFError):
            return b""

    def sendall(self, data):
        self._loop(self.obj.write, data)

    def close(self):
        try: self.sock.close()
        except Exception: pass


class Recorder:
    def __init__(self, proxy_tls=False, connect_reply=b"HTTP/1.1 200 Connection established\r\n\r\n",
                 origin_close_after=None, hosts=("localhost", "127.0.0.1")):
        self.ca = trustme.CA()
        self.cert = self.ca.issue_cert(*hosts)
        self.server_ctx = ssl.SSLContext(ssl.PROTOCOL_TLS_SERVER)
        self.cert.configure_cert(self.server_ctx)
        self.proxy_tls = proxy_tls
        self.connect_reply = connect_reply
        self.origin_close_after = origin_close_after
        self.origin_ctx = None     # set to present a different certificate inside tunnels
        self.redirects = {}        # absolute URL (bytes) -> Location (bytes) for forwarded requests
        self.proxy_saw = []   # heads of messages addressed to the proxy (conn_id, bytes)
        self.origin_saw = []  # heads of messages seen inside a tunnel (conn_id, target, bytes)
        self.lock = threading.Lock()
        self.srv = socket.socket()
        self.srv.setsockopt(socket.SOL_SOCKET, socket.SO_REUSEADDR, 1)
        self.srv.bind(("127.0.0.1", 0)); self.srv.listen(16); self.srv.settimeout(0.2)
        self.port = self.srv.getsockname()[1]
        self.stop = False
        self.n = 0
        self.thread = threading.Thread(target=self._accept, daemon=True); self.thread.start()

    def ca_pem(self):
        return self.ca.cert_pem.bytes().decode()

    def close(self):
        self.stop = True
        try: self.srv.close()
        except OSError: pass

    def _accept(self):
        while not self.stop:
            try:
                c, _ = self.srv.accept()
            except socket.timeout:
                continue
            except OSError:
                return
            self.n += 1
            threading.Thread(target=self._serve, args=(c, self.n), daemon=True).start()

    @staticmethod
    def _read_head(c):
        data = b""
        while b"\r\n\r\n" not in data:
            d = c.recv(65536)
            if not d:
                return data or None
            data += d
        head, _, rest = data.partition(b"\r\n\r\n")
        # swallow a content-length body
        low = head.lower()
        if b"content-length:" in low:
            n = int(low.split(b"content-length:")[1].split(b"\r\n")[0])
            while len(rest) < n:
                d = c.recv(65536)
                if not d: break
                rest += d
        return head

    def _serve(self, c, cid):
        try:
            c.settimeout(5)
            if self.proxy_tls:
                c = self.server_ctx.wrap_socket(c, server_side=True)
            while True:
                head = self._read_head(c)
                if not head:
                    return
                with self.lock:
                    self.proxy_saw.append((cid, head))
                line = head.split(b"\r\n")[0]
                if line.startswith(b"CONNECT "):
                    target = line.split()[1].decode()
                    c.sendall(self.connect_reply)
                    if not self.connect_reply.startswith(b"HTTP/1.1 200"):
                        return
                    octx = self.origin_ctx or self.server_ctx
                    if self.proxy_tls:
                        o = BioTLS(c, octx)
                    else:
                        o = octx.wrap_socket(c, server_side=True)
                    served = 0
                    while True:
                        h = self._read_head(o)
                        if not h:
                            return
                        with self.lock:
                            self.origin_saw.append((cid, target, h))
                        body = b"origin:" + target.encode()
                        o.sendall(b"HTTP/1.1 200 OK\r\nContent-Length: %d\r\n\r\n%s" % (len(body), body))
                        served += 1
                        if self.origin_close_after and served >= self.origin_close_after:
                            o.close()
                            return
                elif line.split()[1] in self.redirects:
                    c.sendall(b"HTTP/1.1 302 Found\r\nLocation: %s\r\nContent-Length: 0\r\n\r\n" % self.redirects[line.split()[1]])
                else:
                    body = b"proxy-forwarded"
                    c.sendall(b"HTTP/1.1 200 OK\r\nContent-Length: %d\r\n\r\n%s" % (len(body), body))
        except Exception as e:  # noqa
            with self.lock:
                self.proxy_saw.append((cid, b"EXC " + repr(e).encode()))
        finally:
            try: c.close()
            except Exception: pass


# ---------------------------------------------------------------------------
# Scenario: HTTPS proxy, no forwarding opt-in.  http:// destinations are sent
# through the pool keyed (https, proxyhost, proxyport); an https:// destination
# whose host:port equals the proxy's own gets the SAME pool key, so a pooled
# forwarding connection carries the https request without CONNECT, and a pooled
# tunnelled connection carries forwarded requests (with proxy headers).
# ---------------------------------------------------------------------------
import sys, warnings
import urllib3

warnings.simplefilter("ignore")
PH = {"Proxy-Authorization": "Basic c2VjcmV0"}
bad = 0

# order A: forward first, then the https destination
rec = Recorder(proxy_tls=True)
pm = urllib3.ProxyManager(f"https://localhost:{rec.port}", ca_cert_data=rec.ca_pem(), timeout=3, retries=False, proxy_headers=PH)
pm.request("GET", "http://example.test/one")
try:
    pm.request("GET", f"https://localhost:{rec.port}/two")
except Exception as e:  # noqa: BLE001
    print("order A second request raised", type(e).__name__, e)
time.sleep(0.2)
print("order A - messages addressed to the proxy:")
for cid, h in rec.proxy_saw:
    print("   conn", cid, h.split(b"\r\n")[0].decode())
connects = [h for _, h in rec.proxy_saw if h.startswith(b"CONNECT ")]
origin_form = [h for _, h in rec.proxy_saw if h.startswith(b"GET /two")]
if origin_form and not connects:
    print("VIOLATION (A): https://localhost:%d/two was sent origin-form to the proxy without any CONNECT" % rec.port)
    bad += 1
rec.close(); pm.clear()

# order B: the https destination first (tunnel), then a forwarded http request
rec = Recorder(proxy_tls=True)
pm = urllib3.ProxyManager(f"https://localhost:{rec.port}", ca_cert_data=rec.ca_pem(), timeout=3, retries=False, proxy_headers=PH)
try:
    pm.request("GET", f"https://localhost:{rec.port}/two")
    pm.request("GET", "http://example.test/one")
except Exception as e:  # noqa: BLE001
    print("order B raised", type(e).__name__, e)
time.sleep(0.2)
print("order B - seen INSIDE the tunnel:")
for cid, target, h in rec.origin_saw:
    print("   conn", cid, "tunnel to", target, "|", h.replace(b"\r\n", b" | ").decode())
leaks = [h for _, _, h in rec.origin_saw if b"proxy-authorization" in h.lower() or h.startswith(b"GET http://")]
if leaks:
    print("VIOLATION (B): an absolute-form request carrying Proxy-Authorization travelled inside a CONNECT tunnel")
    bad += 1
rec.close(); pm.clear()

sys.exit(1 if bad else 0)
