"""C05 audit: "a PoolManager resolves relative Locations against the current URL" -- not when the current
URL was given without a scheme ("127.0.0.1:8080/a/b": deprecated, but accepted: it only warns and is fetched
as http).  The first request is sent; the 302 with a relative Location (the most common kind) then makes
PoolManager.urlopen raise LocationValueError("No host specified.") because urljoin() cannot use a scheme-less
base.  The same request with "http://" in front (control) follows the redirect.

exit 1 = violation observed, 0 = not observed.  Loopback only, all sockets have timeouts.
Run: PYTHONPATH=/tmp/w4-c05/src /venv/bin/python demo.py
"""
from __future__ import annotations

import socket
import sys
import threading
import warnings

import urllib3
from urllib3 import PoolManager

TIMEOUT = urllib3.Timeout(connect=3, read=3)


class Origin:
    def __init__(self) -> None:
        self.log: list[str] = []
        self.location = "/target"
        self.sock = socket.socket()
        self.sock.bind(("127.0.0.1", 0))
        self.sock.listen(16)
        self.sock.settimeout(0.2)
        self.port = self.sock.getsockname()[1]
        self.stop = False
        threading.Thread(target=self._accept, daemon=True).start()

    def _accept(self) -> None:
        while not self.stop:
            try:
                c, _ = self.sock.accept()
            except (TimeoutError, socket.timeout):
                continue
            except OSError:
                return
            threading.Thread(target=self._serve, args=(c,), daemon=True).start()

    def _serve(self, c: socket.socket) -> None:
        c.settimeout(3)
        buf = b""
        try:
            while True:
                while b"\r\n\r\n" not in buf:
                    d = c.recv(65536)
                    if not d:
                        return
                    buf += d
                head, buf = buf.split(b"\r\n\r\n", 1)
                target = head.split(b"\r\n")[0].split(b" ")[1].decode()
                self.log.append(target)
                if target == "/a/start":
                    c.sendall(f"HTTP/1.1 302 Found\r\nLocation: {self.location}\r\nContent-Length: 0\r\n\r\n".encode())
                else:
                    c.sendall(b"HTTP/1.1 200 OK\r\nContent-Length: 2\r\n\r\nok")
        except OSError:
            pass
        finally:
            c.close()


def main() -> int:
    warnings.simplefilter("ignore", DeprecationWarning)
    o = Origin()
    violated = 0
    for location, want in (("/target", "/target"), ("next", "/a/next"), ("?q=1", "/a/start?q=1")):
        o.location = location
        for url in (f"http://127.0.0.1:{o.port}/a/start", f"127.0.0.1:{o.port}/a/start"):
            del o.log[:]
            try:
                got = f"response {PoolManager(timeout=TIMEOUT).request('GET', url).status}"
            except Exception as e:  # noqa: BLE001
                got = f"{type(e).__name__}: {e}"
            bad = o.log != ["/a/start", want]
            violated += bad
            print(f"Location {location!r:10} url {url:32} -> {got}; server saw {o.log} {'<-- VIOLATION' if bad else ''}")
    o.stop = True
    o.sock.close()
    return 1 if violated else 0


if __name__ == "__main__":
    sys.exit(main())
