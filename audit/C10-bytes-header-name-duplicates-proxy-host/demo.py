"""C10 audit (minor): through a forwarding proxy, a Host (or Accept) header whose *name is bytes*
does not suppress the automatic one, so two Host lines are written.

HTTPConnection.request() deliberately supports bytes header names (header_keys uses
to_str(k.lower())), but ProxyManager._set_proxy_headers() compares `k.lower()` of the caller's
names with the str names of its defaults, and b"host" != "host".

Run:  PYTHONPATH=/tmp/w4-c10/src /venv/bin/python demo.py     exit 1 = violation observed
In-memory sockets only.
"""
from __future__ import annotations

import io
import sys

from urllib3 import ProxyManager
from urllib3.connection import HTTPConnection
from urllib3.connectionpool import HTTPConnectionPool

WIRE: list[bytearray] = []


class FakeSock:
    def __init__(self) -> None:
        self.out = bytearray()
        WIRE.append(self.out)

    def sendall(self, data) -> None:  # type: ignore[no-untyped-def]
        self.out += bytes(data)

    def settimeout(self, t) -> None:  # type: ignore[no-untyped-def]
        pass

    def close(self) -> None:
        pass

    def makefile(self, *a, **k):  # type: ignore[no-untyped-def]
        return io.BytesIO(b"HTTP/1.1 200 OK\r\nContent-Length: 0\r\nConnection: close\r\n\r\n")


class Conn(HTTPConnection):
    def _new_conn(self):  # type: ignore[no-untyped-def]
        return FakeSock()

    @property
    def is_connected(self) -> bool:
        return False


class Pool(HTTPConnectionPool):
    ConnectionCls = Conn


def host_lines(headers) -> list[bytes]:  # type: ignore[no-untyped-def]
    WIRE.clear()
    pm = ProxyManager("http://proxy.test:3128", timeout=3, retries=False)
    pm.pool_classes_by_scheme = {"http": Pool}
    pm.request("GET", "http://example.test/", headers=headers)
    raw = b"".join(bytes(w) for w in WIRE)
    head = raw.split(b"\r\n\r\n", 1)[0]
    return [l for l in head.split(b"\r\n")[1:] if l.lower().startswith(b"host:")]


bad = 0
for label, headers in [("str name 'host'", {"host": "vhost.test"}), ("bytes name b'Host'", {b"Host": "vhost.test"})]:
    lines = host_lines(headers)
    print(f"[{label}] Host lines on the wire: {lines}")
    if lines != [lines[0]] or not lines[0].endswith(b"vhost.test"):
        bad += 1
        print(f"VIOLATION [{label}]: the caller supplied Host, yet the automatic Host line is written as well")
sys.exit(1 if bad else 0)
