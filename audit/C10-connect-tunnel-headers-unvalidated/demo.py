"""C10 audit: header names and values given as ``proxy_headers`` (ProxyManager / proxy_from_url /
HTTPConnection.set_tunnel(headers=...)) are written into the CONNECT request verbatim.
http.client's _tunnel() formats them with f"{header}: {value}\\r\\n" without the name/value
checks that putheader() applies, and urllib3's set_tunnel() only checks the host.

Run:  PYTHONPATH=/tmp/w4-c10/src /venv/bin/python demo.py     exit 1 = violation observed
Loopback only; every socket has a timeout.
"""
from __future__ import annotations

import re
import socket
import sys
import threading

import urllib3

captured: list[bytes] = []


def proxy(listener: socket.socket) -> None:
    listener.settimeout(10)
    try:
        while True:
            c, _ = listener.accept()
            c.settimeout(2)
            data = b""
            try:
                while b"\r\n\r\n" not in data:
                    d = c.recv(65536)
                    if not d:
                        break
                    data += d
            except OSError:
                pass
            captured.append(data)
            try:
                c.sendall(b"HTTP/1.1 403 Forbidden\r\nContent-Length: 0\r\nConnection: close\r\n\r\n")
            except OSError:
                pass
            c.close()
    except OSError:
        pass


listener = socket.socket()
listener.bind(("127.0.0.1", 0))
listener.listen(5)
threading.Thread(target=proxy, args=(listener,), daemon=True).start()
port = listener.getsockname()[1]

TOKEN = re.compile(rb"^[!#$%&'*+\-.^_`|~0-9A-Za-z]+$")


def header_lines(raw: bytes) -> list[bytes]:
    head = raw.split(b"\r\n\r\n", 1)[0]
    return head.split(b"\r\n")[1:]


CASES = [
    ("value with CRLF", {"X-Trace": "abc\r\nProxy-Authorization: Basic ZXZpbDpldmls"}),
    ("name with CRLF", {"X-A: 1\r\nX-Injected": "yes"}),
    ("second request in value", {"X-Trace": "a\r\n\r\nGET http://internal.test/ HTTP/1.1\r\nHost: internal.test"}),
]

bad = 0
for label, proxy_headers in CASES:
    captured.clear()
    pm = urllib3.ProxyManager(
        f"http://127.0.0.1:{port}", proxy_headers=proxy_headers, timeout=3, retries=False
    )
    err = None
    try:
        pm.request("GET", "https://example.test/")
    except Exception as e:  # noqa: BLE001 - the scripted proxy refuses the tunnel
        err = e
    pm.clear()
    raw = captured[0] if captured else b""
    print(f"[{label}] error: {type(err).__name__}; proxy received:\n    {raw!r}")
    if not raw:
        continue  # failed before a byte was written: that is what the property allows
    # exactly the lines asked for: one per proxy header + the automatic Host
    lines = header_lines(raw)
    names = [l.partition(b":")[0] for l in lines]
    wellformed = all(TOKEN.match(n) for n in names) and raw.count(b"\r\n\r\n") == 1
    expected = len(proxy_headers) + 1
    if not wellformed or len(lines) != expected:
        bad += 1
        print(f"VIOLATION [{label}]: asked for {expected} header lines, proxy saw {len(lines)}: {names}")

listener.close()
sys.exit(1 if bad else 0)
