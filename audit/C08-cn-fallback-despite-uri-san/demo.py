"""C08 audit demo: commonName is honoured although the certificate has a subjectAltName extension
(one without dNSName / iPAddress entries).  Exit 1 when the violation is observed."""
from __future__ import annotations

import datetime
import os
import socket
import ssl
import tempfile
import threading

from cryptography import x509
from cryptography.hazmat.primitives import hashes, serialization
from cryptography.hazmat.primitives.asymmetric import ec
from cryptography.x509.oid import NameOID


def _name(cn: str) -> x509.Name:
    return x509.Name([x509.NameAttribute(NameOID.COMMON_NAME, cn)])


class CA:
    def __init__(self) -> None:
        self.key = ec.generate_private_key(ec.SECP256R1())
        now = datetime.datetime.now(datetime.timezone.utc)
        self.cert = (
            x509.CertificateBuilder()
            .subject_name(_name("audit test CA"))
            .issuer_name(_name("audit test CA"))
            .public_key(self.key.public_key())
            .serial_number(x509.random_serial_number())
            .not_valid_before(now - datetime.timedelta(days=1))
            .not_valid_after(now + datetime.timedelta(days=30))
            .add_extension(x509.BasicConstraints(ca=True, path_length=None), True)
            .sign(self.key, hashes.SHA256())
        )
        self.tmp = tempfile.mkdtemp(prefix="w4c08-")
        self.ca_path = os.path.join(self.tmp, "ca.pem")
        with open(self.ca_path, "wb") as f:
            f.write(self.cert.public_bytes(serialization.Encoding.PEM))

    def issue(self, cn: str, sans: list[x509.GeneralName], tag: str) -> str:
        """Returns the path of a PEM file holding key + leaf certificate."""
        key = ec.generate_private_key(ec.SECP256R1())
        now = datetime.datetime.now(datetime.timezone.utc)
        b = (
            x509.CertificateBuilder()
            .subject_name(_name(cn))
            .issuer_name(self.cert.subject)
            .public_key(key.public_key())
            .serial_number(x509.random_serial_number())
            .not_valid_before(now - datetime.timedelta(days=1))
            .not_valid_after(now + datetime.timedelta(days=30))
        )
        if sans:
            b = b.add_extension(x509.SubjectAlternativeName(sans), False)
        cert = b.sign(self.key, hashes.SHA256())
        path = os.path.join(self.tmp, f"leaf-{tag}.pem")
        with open(path, "wb") as f:
            f.write(
                key.private_bytes(
                    serialization.Encoding.PEM,
                    serialization.PrivateFormat.PKCS8,
                    serialization.NoEncryption(),
                )
            )
            f.write(cert.public_bytes(serialization.Encoding.PEM))
        return path


class OneShotTLSServer:
    """Accepts connections on 127.0.0.1 for a few seconds and answers 200 to each."""

    def __init__(self, leaf_pem: str, lifetime: float = 20.0) -> None:
        self.ctx = ssl.SSLContext(ssl.PROTOCOL_TLS_SERVER)
        self.ctx.load_cert_chain(leaf_pem)
        self.lsock = socket.socket()
        self.lsock.setsockopt(socket.SOL_SOCKET, socket.SO_REUSEADDR, 1)
        self.lsock.bind(("127.0.0.1", 0))
        self.lsock.listen(8)
        self.lsock.settimeout(0.25)
        self.port = self.lsock.getsockname()[1]
        self.stop = threading.Event()
        self.lifetime = lifetime
        self.t = threading.Thread(target=self._run, daemon=True)
        self.t.start()

    def _run(self) -> None:
        import time

        deadline = time.monotonic() + self.lifetime
        while not self.stop.is_set() and time.monotonic() < deadline:
            try:
                c, _ = self.lsock.accept()
            except (socket.timeout, OSError):
                continue
            try:
                c.settimeout(3)
                s = self.ctx.wrap_socket(c, server_side=True)
                s.settimeout(3)
                buf = b""
                while b"\r\n\r\n" not in buf:
                    d = s.recv(4096)
                    if not d:
                        break
                    buf += d
                if buf:
                    s.sendall(
                        b"HTTP/1.1 200 OK\r\nContent-Length: 2\r\nConnection: close\r\n\r\nok"
                    )
                s.close()
            except Exception:
                try:
                    c.close()
                except Exception:
                    pass
        self.lsock.close()

    def close(self) -> None:
        self.stop.set()
        self.t.join(timeout=3)


# --------------------------------------------------------------------------- demo
import signal
import sys

import urllib3
from urllib3.util.ssl_match_hostname import CertificateError, match_hostname

signal.alarm(50)  # hard stop, never hang


def verdict(cert: dict, host: str, cn: bool) -> str:
    try:
        match_hostname(cert, host, cn)
        return "accept"
    except CertificateError as e:
        return f"reject ({e})"


def main() -> int:
    print("urllib3 from", urllib3.__file__)
    bad = 0
    host = "a.b"
    subject = ((("commonName", "a.b"),),)

    # 1. direct calls of the public matcher, commonName enabled
    for san in (
        (("URI", "https://other.example/"),),
        (("email", "ops@other.example"),),
        (("DNS", "other.example"),),  # control: a DNS SAN does switch the CN off
    ):
        v = verdict({"subject": subject, "subjectAltName": san}, host, True)
        print(f"CN=a.b, SAN {san}, host {host!r}, CN enabled: {v}")
        if san[0][0] != "DNS" and v == "accept":
            bad += 1
    if bad:
        print("VIOLATION: subjectAltName is present, commonName is honoured anyway")

    # 2. end to end.  ssl.create_default_context() has hostname_checks_common_name=True
    # by default; assert_hostname= routes the check to urllib3's matcher.
    ca = CA()
    srv = OneShotTLSServer(
        ca.issue("a.b", [x509.UniformResourceIdentifier("https://other.example/")], "uri")
    )
    try:
        ctx = ssl.create_default_context(cafile=ca.ca_path)
        print("user context hostname_checks_common_name =", ctx.hostname_checks_common_name)
        with urllib3.HTTPSConnectionPool(
            "127.0.0.1", srv.port, ssl_context=ctx, assert_hostname="a.b",
            timeout=urllib3.Timeout(connect=3, read=3), retries=False,
        ) as pool:
            try:
                r = pool.request("GET", "/")
                e2e = f"accept (HTTP {r.status})"
            except Exception as e:  # noqa: BLE001
                e2e = f"reject ({type(e).__name__}: {e})"
    finally:
        srv.close()
    print("e2e CN=a.b + SAN URI:https://other.example/, assert_hostname='a.b':", e2e)
    if e2e.startswith("accept"):
        print("VIOLATION (end to end): a certificate whose SAN names only another identity "
              "is accepted for 'a.b' through its commonName")
        bad += 1
    return 1 if bad else 0


if __name__ == "__main__":
    sys.exit(main())
