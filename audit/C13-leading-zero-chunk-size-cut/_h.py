"""Scripted loopback server shared by the audit demos (never blocks: every socket has a timeout)."""
import socket
import threading


class Server:
    """scripts: one list per accepted connection; each item is (response_bytes, close_after)."""

    def __init__(self, scripts):
        self.scripts = list(scripts)
        self.sock = socket.socket()
        self.sock.bind(("127.0.0.1", 0))
        self.sock.listen(8)
        self.sock.settimeout(10)
        self.port = self.sock.getsockname()[1]
        self.requests = []  # (connection index, request bytes)
        self._n = 0
        threading.Thread(target=self._run, daemon=True).start()

    def _run(self):
        while self.scripts:
            script = self.scripts.pop(0)
            try:
                c, _ = self.sock.accept()
            except OSError:
                return
            idx = self._n
            self._n += 1
            threading.Thread(target=self._serve, args=(c, idx, script), daemon=True).start()

    def _serve(self, c, idx, script):
        c.settimeout(5)
        try:
            for data, close_after in script:
                buf = b""
                while b"\r\n\r\n" not in buf:
                    try:
                        d = c.recv(65536)
                    except OSError:
                        return
                    if not d:
                        return
                    buf += d
                self.requests.append((idx, buf))
                c.sendall(data)
                if close_after:
                    return
            try:
                c.recv(1)
            except OSError:
                pass
        finally:
            c.close()

    def close(self):
        self.sock.close()
