"""A chunked body cut in the middle of a chunk-size line that starts with '0' ("0a" cut after "0")
is taken for the terminating zero-size chunk by every reader.  Exit 1 when that is observed."""
import os
import sys

sys.path.insert(0, os.path.dirname(os.path.abspath(__file__)))
from _h import Server  # noqa: E402

import urllib3  # noqa: E402
from urllib3.exceptions import HTTPError  # noqa: E402

FULL = (
    b"HTTP/1.1 200 OK\r\nTransfer-Encoding: chunked\r\n\r\n"
    b"5\r\nhello\r\n0a\r\n0123456789\r\n0\r\n\r\n"
)
CUT = FULL[: FULL.index(b"0a\r\n") + 1]  # ... "hello\r\n0" then FIN: 10 more bytes were announced
violations = []


def attempt(name, preload, reader):
    s = Server([[(CUT, True)]])
    pool = urllib3.HTTPConnectionPool("127.0.0.1", s.port, timeout=3, retries=False)
    try:
        r = pool.urlopen("GET", "/", preload_content=preload, retries=False)
        out = reader(r)
    except HTTPError as e:
        print(f"{name}: raised {type(e).__name__}")
    else:
        print(f"{name}: NO ERROR, body={out!r} (full body is b'hello0123456789')")
        violations.append(name)
    finally:
        pool.close()
        s.close()


attempt("preload", True, lambda r: r.data)
attempt("read()", False, lambda r: r.read())
attempt("read(3) loop", False, lambda r: b"".join(iter(lambda: r.read(3), b"")))
attempt("stream(3) / read_chunked", False, lambda r: b"".join(r.stream(3)))
attempt("read1 loop", False, lambda r: b"".join(iter(lambda: r.read1(4), b"")))

if violations:
    print("VIOLATION: cut before the terminating chunk presented as complete by:", violations)
    sys.exit(1)
print("ok")
