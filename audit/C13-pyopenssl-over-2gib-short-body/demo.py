"""With urllib3.contrib.pyopenssl injected, a response announcing more than 2 GiB that is cut short is
returned by read() / preload without error (the piecewise reader in _fp_read never checks the length).
Plain http:// is enough: the branch only looks at util.IS_PYOPENSSL.  Exit 1 when observed."""
import os
import sys

sys.path.insert(0, os.path.dirname(os.path.abspath(__file__)))
from _h import Server  # noqa: E402

import urllib3  # noqa: E402
from urllib3.exceptions import HTTPError  # noqa: E402

try:
    import urllib3.contrib.pyopenssl as pyopenssl
except ImportError:
    print("pyOpenSSL not available; nothing to show")
    sys.exit(0)

ANNOUNCED = 2**31 + 10
CUT = b"HTTP/1.1 200 OK\r\nContent-Length: %d\r\n\r\n" % ANNOUNCED + b"x" * 5000  # then FIN
violations = []


def attempt(name, preload, reader):
    s = Server([[(CUT, True)]])
    pool = urllib3.HTTPConnectionPool("127.0.0.1", s.port, timeout=5, retries=False)
    try:
        r = pool.urlopen("GET", "/", preload_content=preload, retries=False)
        out = reader(r)
    except HTTPError as e:
        print(f"{name}: raised {type(e).__name__}")
    else:
        print(f"{name}: NO ERROR, {len(out)} of {ANNOUNCED} bytes presented as the complete body")
        violations.append(name)
    finally:
        pool.close()
        s.close()


print("-- default backend (control)")
attempt("read()", False, lambda r: r.read())
control_violations, violations = violations, []

pyopenssl.inject_into_urllib3()
try:
    print("-- after urllib3.contrib.pyopenssl.inject_into_urllib3()")
    attempt("preload", True, lambda r: r.data)
    attempt("read()", False, lambda r: r.read())
    attempt("read(1000) then read()", False, lambda r: r.read(1000) + r.read())
    attempt("stream(4096) [control]", False, lambda r: b"".join(r.stream(4096)))
finally:
    pyopenssl.extract_from_urllib3()

if violations or control_violations:
    print("VIOLATION:", control_violations + violations)
    sys.exit(1)
print("ok")
