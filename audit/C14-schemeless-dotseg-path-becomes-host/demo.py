"""C14 audit: for scheme-less input (which urllib3 treats as http) the result is not a normal
form: dot-segment removal (or an empty authority) can leave a path starting with '//' and a
host of None; Url.url then prints '//x...', and re-parsing THAT reads 'x' as the host.

Run:  PYTHONPATH=/tmp/w4-c14/src /venv/bin/python demo.py      (exit 1 == violation observed)
"""
import sys

from urllib3.exceptions import LocationParseError
from urllib3.util.url import parse_url

CASES = ["/a/..//evil.example/x", "/.//evil.example/x", "://evil.example", "@//evil.example", "://:a"]
bad = 0
for s in CASES:
    first = parse_url(s)
    text = first.url
    try:
        second = parse_url(text)
    except LocationParseError as e:
        print(f"{s!r:28} -> {first!r}\n{'':28}    .url={text!r} re-parse RAISES {e}")
        bad += 1
        continue
    same = first == second
    print(f"{s!r:28} -> host={first.host!r} path={first.path!r}  .url={text!r}  re-parse -> host={second.host!r} path={second.path!r}  {'same' if same else 'DIFFERENT'}")
    if not same:
        bad += 1

# control: with an explicit scheme the round trip is stable
u = parse_url("http://h/a/..//evil.example/x")
assert parse_url(u.url) == u and u.host == "h"

if bad:
    print(f"VIOLATION: {bad} scheme-less inputs are not fixed points of parse_url(...).url")
    sys.exit(1)
print("no violation")
