"""C11 audit demo (unchanged source): a body that cannot be rewound (generator,
file-like object without tell()) is re-sent EMPTY on the second attempt
(503 retry, connection error retry, 307 redirect) and the call succeeds,
instead of re-sending identical bytes or raising UnrewindableBodyError.
A file-like object with tell() but without seek() fails with ValueError
instead of UnrewindableBodyError (loud, but not the promised exception).

Run:  PYTHONPATH=/tmp/w4-c11/src /venv/bin/python demo.py
Exit status: 1 when the violation is observed, 0 otherwise.
Loopback only; every socket operation has a timeout.
"""
from __future__ import annotations

import io
import socket
import sys
import threading

import urllib3
from urllib3.exceptions import UnrewindableBodyError
from urllib3.util.retry import Retry

TIMEOUT = 5.0


def _read_request(sock, buf):
    """Independent framing parser: returns (method, target, framing, body, rest)."""
    while b"\r\n\r\n" not in buf:
        d = sock.recv(65536)
        if not d:
            raise EOFError
        buf += d
    head, rest = buf.split(b"\r\n\r\n", 1)
    lines = head.split(b"\r\n")
    method, target, _ = lines[0].decode("latin-1").split(" ", 2)
    hdrs = [ln.decode("latin-1").split(":", 1) for ln in lines[1:]]
    hdrs = [(k.strip().lower(), v.strip()) for k, v in hdrs]
    cl = [v for k, v in hdrs if k == "content-length"]
    te = [v for k, v in hdrs if k == "transfer-encoding"]
    body = b""
    if cl and not te:
        n = int(cl[0])
        while len(rest) < n:
            d = sock.recv(65536)
            if not d:
                raise EOFError
            rest += d
        body, rest = rest[:n], rest[n:]
        framing = "content-length"
    elif te and not cl:
        framing = "chunked"
        while True:
            while b"\r\n" not in rest:
                d = sock.recv(65536)
                if not d:
                    raise EOFError
                rest += d
            szl, rest = rest.split(b"\r\n", 1)
            sz = int(szl, 16)
            while len(rest) < sz + 2:
                d = sock.recv(65536)
                if not d:
                    raise EOFError
                rest += d
            body += rest[:sz]
            rest = rest[sz + 2 :]
            if sz == 0:
                break
    else:
        framing = "none" if not cl else "both"
    return method, target, framing, body, rest


class Server:
    def __init__(self, script):
        self.script = list(script)
        self.seen = []
        self.lock = threading.Lock()
        self.lsock = socket.socket()
        self.lsock.bind(("127.0.0.1", 0))
        self.lsock.listen(8)
        self.lsock.settimeout(TIMEOUT)
        self.port = self.lsock.getsockname()[1]
        threading.Thread(target=self._accept, daemon=True).start()

    def _accept(self):
        while True:
            try:
                c, _ = self.lsock.accept()
            except OSError:
                return
            c.settimeout(TIMEOUT)
            threading.Thread(target=self._serve, args=(c,), daemon=True).start()

    def _serve(self, c):
        buf = b""
        try:
            while True:
                method, target, framing, body, buf = _read_request(c, buf)
                with self.lock:
                    self.seen.append((method, target, framing, body))
                    act = self.script.pop(0) if self.script else ("resp", 200, [])
                if act[0] == "drop":
                    return
                out = f"HTTP/1.1 {act[1]} X\r\n".encode()
                for h, v in act[2]:
                    out += f"{h}: {v}\r\n".encode()
                c.sendall(out + b"Content-Length: 0\r\n\r\n")
        except (EOFError, OSError):
            pass
        finally:
            c.close()

    def close(self):
        self.lsock.close()


class ReadOnlyFile:
    """A file-like upload wrapper: read() only (no tell / seek)."""

    def __init__(self, data):
        self._f = io.BytesIO(data)

    def read(self, n=-1):
        return self._f.read(n)


class TellNoSeek(ReadOnlyFile):
    """A progress-reporting wrapper: exposes tell() for progress, but not seek()."""

    def tell(self):
        return self._f.tell()


def gen():
    yield b"abc"
    yield b""
    yield b"def"


HISTORIES = {
    "503-then-ok": [("resp", 503, []), ("resp", 200, [])],
    "error-then-ok": [("drop",), ("resp", 200, [])],
    "307-then-ok": [("resp", 307, [("Location", "/b")]), ("resp", 200, [])],
}
BODIES = {
    "generator": gen,
    "file without tell()": lambda: ReadOnlyFile(b"abcdef"),
    "file with tell() but no seek()": lambda: TellNoSeek(b"abcdef"),
}

violations = []
for hname, script in HISTORIES.items():
    for bname, mk in BODIES.items():
        for via in ("HTTPConnectionPool.urlopen", "PoolManager.request"):
            srv = Server(script)
            retries = Retry(
                total=3, allowed_methods=None, status_forcelist=[503], backoff_factor=0
            )
            try:
                try:
                    if via.startswith("HTTPConnectionPool"):
                        pool = urllib3.HTTPConnectionPool(
                            "127.0.0.1", srv.port, timeout=TIMEOUT, retries=retries
                        )
                        r = pool.urlopen("POST", "/a", body=mk())
                        pool.close()
                    else:
                        pm = urllib3.PoolManager(timeout=TIMEOUT, retries=retries)
                        r = pm.request(
                            "POST", f"http://127.0.0.1:{srv.port}/a", body=mk()
                        )
                        pm.clear()
                    outcome = f"status {r.status}"
                except UnrewindableBodyError:
                    outcome = "UnrewindableBodyError"
                except Exception as e:  # noqa: BLE001
                    outcome = f"{type(e).__name__}: {e}"
                bodies = [b for (_, _, _, b) in srv.seen]
                line = f"{hname:14} {bname:32} {via:27} -> {outcome}; wire bodies {bodies}"
                ok = outcome == "UnrewindableBodyError" or (
                    outcome == "status 200"
                    and len(bodies) == 2
                    and all(b == b"abcdef" for b in bodies)
                )
                print(("ok        " if ok else "VIOLATION ") + line)
                if not ok:
                    violations.append(line)
            finally:
                srv.close()

print()
if violations:
    print(f"{len(violations)} violations of C11 on the unchanged source")
    sys.exit(1)
print("no violation observed")
sys.exit(0)
