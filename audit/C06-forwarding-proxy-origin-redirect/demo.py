"""C06 audit: with a forwarding (plain http) ProxyManager the "same origin?" question is
asked of the pool that talks to the PROXY, so a redirect from http://a.test/ to the proxy's
own origin keeps Authorization / Cookie although host and port changed.

Run: PYTHONPATH=/tmp/w4-c06/src /venv/bin/python demo.py
Exit 1 when the leak is observed, 0 otherwise.  Loopback only.
"""
import socket
import sys
import threading

import urllib3


class Server:
    def __init__(self, handler):
        self.handler = handler
        self.log = []
        self.sock = socket.socket()
        self.sock.setsockopt(socket.SOL_SOCKET, socket.SO_REUSEADDR, 1)
        self.sock.bind(("127.0.0.1", 0))
        self.sock.listen(8)
        self.sock.settimeout(0.2)
        self.port = self.sock.getsockname()[1]
        threading.Thread(target=self._run, daemon=True).start()

    def _run(self):
        while True:
            try:
                c, _ = self.sock.accept()
            except socket.timeout:
                continue
            except OSError:
                return
            threading.Thread(target=self._serve, args=(c,), daemon=True).start()

    def _serve(self, c):
        c.settimeout(5)
        buf = b""
        try:
            while True:
                while b"\r\n\r\n" not in buf:
                    d = c.recv(65536)
                    if not d:
                        return
                    buf += d
                head, buf = buf.split(b"\r\n\r\n", 1)
                lines = head.decode("latin-1").split("\r\n")
                method, target, _ = lines[0].split(" ", 2)
                hdrs = [tuple(x.split(": ", 1)) for x in lines[1:] if ": " in x]
                self.log.append((method, target, hdrs))
                status, rh = self.handler(method, target, hdrs)
                out = f"HTTP/1.1 {status} X\r\nContent-Length: 0\r\n"
                for k, v in rh:
                    out += f"{k}: {v}\r\n"
                c.sendall(out.encode("latin-1") + b"\r\n")
        except (socket.timeout, OSError):
            pass
        finally:
            c.close()


def main():
    def proxy(method, target, hdrs):
        # acts as forwarding proxy for a.test / b.test and as an origin server itself
        if target == "http://a.test/to-proxy":
            return 302, [("Location", f"http://127.0.0.1:{P.port}/landing")]
        if target == "http://a.test/to-b":
            return 302, [("Location", "http://b.test/landing")]
        return 200, []

    P = Server(proxy)
    sent = {"Authorization": "Basic c2VjcmV0", "Cookie": "sid=1", "X-Other": "keep"}
    result = {}
    for label, start in (("control a.test -> b.test", "http://a.test/to-b"),
                         ("a.test -> proxy's own origin", "http://a.test/to-proxy")):
        P.log.clear()
        with urllib3.ProxyManager(f"http://127.0.0.1:{P.port}", timeout=urllib3.Timeout(3)) as pm:
            r = pm.request("GET", start, headers=dict(sent))
        assert r.status == 200 and len(P.log) == 2, P.log
        method, target, hdrs = P.log[1]
        names = {k.lower() for k, _ in hdrs}
        bad = sorted(names & {"authorization", "cookie"})
        print(f"{label}: second request {target} sensitive headers: {bad}")
        assert "x-other" in names
        result[label] = bad
    assert result["control a.test -> b.test"] == []
    if result["a.test -> proxy's own origin"]:
        print("VIOLATION: host and port changed (a.test:80 -> 127.0.0.1:%d) but credentials were kept" % P.port)
        return 1
    print("no violation observed")
    return 0


if __name__ == "__main__":
    sys.exit(main())
