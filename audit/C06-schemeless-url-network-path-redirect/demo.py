"""C06 audit: a scheme-less request URL plus a network-path ("//host/...") Location
forwards Authorization / Cookie to a different origin.

Run: PYTHONPATH=/tmp/w4-c06/src /venv/bin/python demo.py
Exit status 1 when the leak is observed, 0 otherwise.  Loopback only.
"""
import socket
import sys
import threading
import warnings

import urllib3


class Server:
    """Minimal scripted HTTP/1.1 server on 127.0.0.1 with a request log."""

    def __init__(self, handler):
        self.handler = handler
        self.log = []
        self.sock = socket.socket()
        self.sock.setsockopt(socket.SOL_SOCKET, socket.SO_REUSEADDR, 1)
        self.sock.bind(("127.0.0.1", 0))
        self.sock.listen(8)
        self.sock.settimeout(0.2)
        self.port = self.sock.getsockname()[1]
        self.stop = False
        threading.Thread(target=self._run, daemon=True).start()

    def _run(self):
        while not self.stop:
            try:
                c, _ = self.sock.accept()
            except socket.timeout:
                continue
            except OSError:
                return
            threading.Thread(target=self._serve, args=(c,), daemon=True).start()

    def _serve(self, c):
        c.settimeout(5)
        buf = b""
        try:
            while True:
                while b"\r\n\r\n" not in buf:
                    d = c.recv(65536)
                    if not d:
                        return
                    buf += d
                head, buf = buf.split(b"\r\n\r\n", 1)
                lines = head.decode("latin-1").split("\r\n")
                method, target, _ = lines[0].split(" ", 2)
                hdrs = [tuple(x.split(": ", 1)) for x in lines[1:] if ": " in x]
                self.log.append((method, target, hdrs))
                status, rh = self.handler(method, target, hdrs)
                out = f"HTTP/1.1 {status} X\r\nContent-Length: 0\r\n"
                for k, v in rh:
                    out += f"{k}: {v}\r\n"
                c.sendall(out.encode("latin-1") + b"\r\n")
        except (socket.timeout, OSError):
            pass
        finally:
            c.close()


def main():
    warnings.simplefilter("ignore", DeprecationWarning)  # scheme-less URL is deprecated, not refused
    other = Server(lambda m, t, h: (200, []))
    # the second origin differs in host ("localhost" vs "127.0.0.1") AND port
    first = Server(lambda m, t, h: (302, [("Location", f"//localhost:{other.port}/landing")]))

    sent = {"Authorization": "Basic c2VjcmV0", "Cookie": "sid=1", "X-Other": "keep"}
    leaked = {}
    for label, url in (
        ("control, explicit scheme", f"http://127.0.0.1:{first.port}/start"),
        ("scheme-less URL", f"127.0.0.1:{first.port}/start"),
    ):
        other.log.clear()
        with urllib3.PoolManager(timeout=urllib3.Timeout(3), retries=urllib3.Retry(3)) as pm:
            r = pm.request("GET", url, headers=dict(sent))
        assert r.status == 200 and len(other.log) == 1, (r.status, other.log)
        names = {k.lower() for k, _ in other.log[0][2]}
        bad = sorted(names & {"authorization", "cookie", "proxy-authorization"})
        print(f"{label}: request to localhost:{other.port} carried {sorted(names)}; sensitive: {bad}")
        assert "x-other" in names
        leaked[label] = bad

    assert leaked["control, explicit scheme"] == [], "control leaked?!"
    if leaked["scheme-less URL"]:
        print("VIOLATION: credentials forwarded to a different origin")
        return 1
    print("no violation observed")
    return 0


if __name__ == "__main__":
    sys.exit(main())
