"""C04 audit: Retry-After is slept for statuses other than 413/429/503, without any cap,
and on redirects even with respect_retry_after_header=False.

Run: PYTHONPATH=/tmp/w4-c04/src /venv/bin/python demo.py   (exit 1 = violation observed)
"""
import os, socket, sys, threading, time

import urllib3
import urllib3.util.retry as retry_mod
from urllib3.util.retry import Retry

sleeps = []


class _Time:
    def __getattr__(self, name):
        return getattr(time, name)

    def sleep(self, s):  # recorder instead of sleeping
        sleeps.append(s)


retry_mod.time = _Time()


class Server:
    def __init__(self, script):
        self.script, self.seen = list(script), []
        self.lsock = socket.socket()
        self.lsock.bind(("127.0.0.1", 0))
        self.lsock.listen(16)
        self.lsock.settimeout(5)
        self.port = self.lsock.getsockname()[1]
        threading.Thread(target=self.run, daemon=True).start()

    def run(self):
        try:
            while self.script:
                try:
                    c, _ = self.lsock.accept()
                except OSError:
                    return
                c.settimeout(5)
                try:
                    buf = b""
                    while b"\r\n\r\n" not in buf:
                        d = c.recv(65536)
                        if not d:
                            break
                        buf += d
                    if not buf:
                        continue
                    self.seen.append(buf.split(b"\r\n")[0].decode())
                    code, hdrs = self.script.pop(0)
                    h = "".join(f"{k}: {v}\r\n" for k, v in hdrs.items())
                    c.sendall(
                        f"HTTP/1.1 {code} X\r\nContent-Length: 0\r\nConnection: close\r\n{h}\r\n".encode()
                    )
                except OSError:
                    pass
                finally:
                    c.close()
        finally:
            self.lsock.close()


def main():
    bad = 0

    # 1. forcelisted 500 carrying Retry-After: 7200, backoff_max=1
    srv = Server([(500, {"Retry-After": "7200"}), (200, {})])
    pool = urllib3.HTTPConnectionPool("127.0.0.1", srv.port, timeout=3)
    del sleeps[:]
    r = pool.urlopen(
        "GET", "/", retries=Retry(total=3, status_forcelist=[500], backoff_factor=0.1, backoff_max=1)
    )
    print("500 + Retry-After: 7200, backoff_max=1 ->", r.status, srv.seen, "sleeps:", sleeps)
    if any(s > 1 for s in sleeps):
        print("VIOLATION: slept the server's Retry-After for a 500 (only 413/429/503 may), > backoff_max")
        bad = 1

    # 2. redirect carrying Retry-After while the caller switched Retry-After off
    srv = Server([(302, {"Retry-After": "7200", "Location": "/next"}), (200, {})])
    pool = urllib3.HTTPConnectionPool("127.0.0.1", srv.port, timeout=3)
    del sleeps[:]
    r = pool.urlopen(
        "GET", "/", retries=Retry(total=3, backoff_max=1, respect_retry_after_header=False)
    )
    print("302 + Retry-After: 7200, respect_retry_after_header=False ->", r.status, srv.seen, "sleeps:", sleeps)
    if any(s > 1 for s in sleeps):
        print("VIOLATION: slept Retry-After on a 302 although respect_retry_after_header=False")
        bad = 1
    return bad


if __name__ == "__main__":
    t = threading.Timer(50, lambda: os._exit(3))
    t.daemon = True
    t.start()
    sys.exit(main())
