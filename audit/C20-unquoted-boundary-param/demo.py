"""Audit demo (unchanged source): an explicit boundary that is legal per RFC 2046 but is not an
RFC 2045 'token' is put into the returned content type without quotes, so a strict Content-Type
parser recovers a different boundary than the one used in the body and the body no longer parses.

Run: PYTHONPATH=/tmp/w4-c20/src /venv/bin/python demo.py      (exit 1 == violation observed)
In-memory only, no sockets; finishes in well under a second.
"""
import re
import sys
import email
import email.policy

from urllib3 import encode_multipart_formdata

TOKEN = re.compile(r"[!#$%&'*+\-.^_`|~0-9A-Za-z]+")


def strict_boundary(content_type: str) -> str | None:
    """RFC 2045 5.1: parameter := attribute "=" value ; value := token / quoted-string."""
    mtype, _, rest = content_type.partition(";")
    if mtype.strip().lower() != "multipart/form-data":
        return None
    rest = rest.strip()
    m = re.fullmatch(r'boundary=(?:"((?:[^"\\\r\n]|\\.)*)"|(.*))', rest)
    if not m:
        return None
    if m.group(1) is not None:
        return re.sub(r"\\(.)", r"\1", m.group(1))
    return m.group(2) if TOKEN.fullmatch(m.group(2)) else None


def strict_parts(body: bytes, boundary: str) -> list[bytes] | None:
    delim = b"--" + boundary.encode("latin-1")
    if not body.startswith(delim + b"\r\n") or not body.endswith(b"\r\n" + delim + b"--\r\n"):
        return None
    inner = body[len(delim) + 2 : -(len(delim) + 6)]
    return inner.split(b"\r\n" + delim + b"\r\n")


bad = []
# the first two are the literal examples of RFC 2046 section 5.1.1
for boundary in ["gc0pJq0M:08jU534c0p", "simple boundary", "a=b", "a/b", "a,b", "a?b", "(x)"]:
    fields = [("k1", "v1"), ("k2", b"v2")]
    assert all(boundary.encode() not in v for v in (b"k1", b"v1", b"k2", b"v2"))
    body, content_type = encode_multipart_formdata(fields, boundary=boundary)

    # 1. hand-written strict RFC 2045 parameter parser
    got = strict_boundary(content_type)
    parts = strict_parts(body, got) if got else None
    # 2. the standard library's strict header parser (email.policy.default)
    msg = email.message_from_bytes(
        b"Content-Type: " + content_type.encode("latin-1") + b"\r\n\r\n" + body,
        policy=email.policy.default,
    )
    std = msg["content-type"].params.get("boundary")
    nparts = len(list(msg.iter_parts())) if msg.is_multipart() else 0
    ok = got == boundary and parts is not None and len(parts) == 2 and std == boundary and nparts == 2
    print(f"boundary={boundary!r:24} content_type={content_type!r}")
    print(f"    strict RFC2045 parser -> {got!r}; stdlib strict parser -> {std!r}, parts seen {nparts} (want 2)")
    if not ok:
        bad.append(boundary)

if bad:
    print("VIOLATION: returned content type does not name the boundary used for:", bad)
    sys.exit(1)
print("ok")
