"""
C18 audit, unchanged source: settings that differ share one pool because the
pool key compares them with == / hash (0 == False) or folds "explicit None"
into "absent".

Exit status 1 when a violation is observed, 0 otherwise. In-memory except for
one connect() to a closed loopback port (refused at once, 2 s timeout).
"""
from __future__ import annotations

import socket
import sys

from urllib3 import PoolManager
from urllib3.exceptions import MaxRetryError, NewConnectionError
from urllib3.util.timeout import _DEFAULT_TIMEOUT

violations: list[str] = []


def closed_port() -> int:
    s = socket.socket()
    s.bind(("127.0.0.1", 0))
    port = s.getsockname()[1]
    s.close()
    return port


def outcome(pool) -> str:
    try:
        pool.urlopen("GET", "/", timeout=2.0)
    except MaxRetryError:
        return "MaxRetryError"
    except NewConnectionError:
        return "NewConnectionError"
    return "response"


# --- 1. retries=0 and retries=False are different policies, one pool --------
port = closed_port()

# what each setting means on its own (fresh manager each)
alone_0 = outcome(PoolManager().connection_from_host("127.0.0.1", port, pool_kwargs={"retries": 0}))
alone_F = outcome(PoolManager().connection_from_host("127.0.0.1", port, pool_kwargs={"retries": False}))
assert alone_0 != alone_F, (alone_0, alone_F)  # they really are different settings

pm = PoolManager()
p_zero = pm.connection_from_host("127.0.0.1", port, pool_kwargs={"retries": 0})
p_false = pm.connection_from_host("127.0.0.1", port, pool_kwargs={"retries": False})
if p_zero is p_false:
    violations.append(
        "retries=0 and retries=False share one pool "
        f"(pool.retries={p_false.retries!r}; a retries=False caller gets {outcome(p_false)}, "
        f"alone it gets {alone_F})"
    )

# --- 2. explicit None vs absent: timeout ------------------------------------
# PoolManager(timeout=None) means "never time out".  A per-request override that
# says the same thing is turned into "absent" by _merge_pool_kwargs, builds a
# pool with the *global default* timeout, and files it under the manager's own key.
pm = PoolManager(timeout=None)
p_override = pm.connection_from_host("localhost", 80, pool_kwargs={"timeout": None})
p_default = pm.connection_from_host("localhost", 80)
expected = PoolManager(timeout=None).connection_from_host("localhost", 80).timeout
if p_default is p_override and p_default.timeout.connect_timeout is _DEFAULT_TIMEOUT:
    violations.append(
        "PoolManager(timeout=None): after one pool_kwargs={'timeout': None} call the "
        f"manager's own default requests get timeout={p_default.timeout!r}, expected {expected!r}"
    )

# --- 3. explicit None vs absent: socket_options -----------------------------
pm = PoolManager(socket_options=None)  # documented way to turn TCP_NODELAY off
p_override = pm.connection_from_host("localhost", 80, pool_kwargs={"socket_options": None})
p_default = pm.connection_from_host("localhost", 80)
if p_default is p_override and "socket_options" not in p_default.conn_kw:
    violations.append(
        "PoolManager(socket_options=None): after one pool_kwargs={'socket_options': None} "
        "call the manager's default pool is built without socket_options=None, i.e. with "
        "the library default [TCP_NODELAY]"
    )

for v in violations:
    print("VIOLATION:", v)
if not violations:
    print("no violation observed")
sys.exit(1 if violations else 0)
