"""C17 audit demo (unchanged source): the idle keep-alive socket of a cleared /
evicted pool stays open for as long as any *finished* response obtained from
that pool is still referenced, although nothing uses the pool any more.

Loopback only.  Exit 0 = sockets are closed when the manager is cleared /
the pool evicted and no request is in flight; exit 1 = violation observed.

Run:  PYTHONPATH=/tmp/w4-c17/src /venv/bin/python demo.py
"""
from __future__ import annotations

import gc
import socket
import sys
import threading
import time

from urllib3 import PoolManager


class OneShotServer:
    """Accepts one connection, answers one request with keep-alive, then reports
    when (if ever) the client closes the connection."""

    def __init__(self) -> None:
        self.sock = socket.socket()
        self.sock.bind(("127.0.0.1", 0))
        self.sock.listen(1)
        self.sock.settimeout(10)
        self.port = self.sock.getsockname()[1]
        self.eof = threading.Event()
        self.answered = threading.Event()
        self.thread = threading.Thread(target=self.run, daemon=True)
        self.thread.start()

    def run(self) -> None:
        try:
            conn, _ = self.sock.accept()
            conn.settimeout(10)
            buf = b""
            while b"\r\n\r\n" not in buf:
                chunk = conn.recv(65536)
                if not chunk:
                    return
                buf += chunk
            conn.sendall(b"HTTP/1.1 200 OK\r\nContent-Length: 2\r\n\r\nok")
            self.answered.set()
            conn.settimeout(20)
            try:
                if conn.recv(1) == b"":
                    self.eof.set()
            except OSError:
                pass
            conn.close()
        finally:
            self.sock.close()


failures = []

# --- scenario 1: `with PoolManager()` exited, the (fully read) response kept ---
srv = OneShotServer()
with PoolManager() as pm:
    resp = pm.request("GET", f"http://127.0.0.1:{srv.port}/", timeout=5)
    assert resp.data == b"ok"
    assert resp._connection is None  # body preloaded, connection already back in its pool
# The manager was cleared by __exit__ ("Empty our store of pools and direct them
# all to close"); no request is in flight; `pm` is the only thing we drop.
del pm
gc.collect()
closed = srv.eof.wait(2.0)
print("scenario 1: socket closed after the manager was cleared:", closed)
if not closed:
    failures.append("cleared pool's idle socket still open (finished response alive)")
del resp
gc.collect()
print("scenario 1: ... and after the finished response was dropped too:", srv.eof.wait(5.0))

# --- scenario 2: eviction by LRU, finished response of the evicted pool kept ---
srv_a, srv_b = OneShotServer(), OneShotServer()
pm = PoolManager(num_pools=1)
resp_a = pm.request("GET", f"http://127.0.0.1:{srv_a.port}/", timeout=5)
assert resp_a.data == b"ok"
resp_b = pm.request("GET", f"http://127.0.0.1:{srv_b.port}/", timeout=5)  # evicts pool A
assert len(pm.pools) == 1
gc.collect()
closed = srv_a.eof.wait(2.0)
print("scenario 2: evicted pool's socket closed:", closed)
if not closed:
    failures.append("evicted pool's idle socket still open (finished response alive)")
del resp_a
gc.collect()
print("scenario 2: ... and after the finished response was dropped:", srv_a.eof.wait(5.0))
pm.clear()
del resp_b, pm
gc.collect()

if failures:
    for f in failures:
        print("VIOLATION:", f)
    sys.exit(1)
print("ok")
