"""Recording loopback proxy that also plays the origin inside CONNECT."""
import socket, ssl, threading, time
import trustme

class BioTLS:
    """Server-side TLS over an arbitrary socket-like object (for TLS-in-TLS)."""
    def __init__(self, sock, ctx):
        self.sock = sock
        self.inc = ssl.MemoryBIO(); self.out = ssl.MemoryBIO()
        self.obj = ctx.wrap_bio(self.inc, self.out, server_side=True)
        self._loop(self.obj.do_handshake)

    def _flush(self):
        data = self.out.read()
        if data:
            self.sock.sendall(data)

    def _loop(self, fn, *a):
        while True:
            try:
                r = fn(*a)
                self._flush()
                return r
            except ssl.SSLWantReadError:
                self._flush()
                d = self.sock.recv(65536)
                if not d:
                    self.inc.write_eof()
                else:
                    self.inc.write(d)
            except ssl.SSLWantWriteError:
                self._flush()

    def recv(self, n):
        try:
            return self._loop(self.obj.read, n)
        except (ssl.SSLZeroReturnError, ssl.SSLEOFError):
            return b""

    def sendall(self, data):
        self._loop(self.obj.write, data)

    def close(self):
        try: self.sock.close()
        except Exception: pass


class Recorder:
    def __init__(self, proxy_tls=False, connect_reply=b"HTTP/1.1 200 Connection established\r\n\r\n",
                 origin_close_after=None, hosts=("localhost", "127.0.0.1")):
        self.ca = trustme.CA()
        self.cert = self.ca.issue_cert(*hosts)
        self.server_ctx = ssl.SSLContext(ssl.PROTOCOL_TLS_SERVER)
        self.cert.configure_cert(self.server_ctx)
        self.proxy_tls = proxy_tls
        self.connect_reply = connect_reply
        self.origin_close_after = origin_close_after
        self.origin_ctx = None     # set to present a different certificate inside tunnels
        self.redirects = {}        # absolute URL (bytes) -> Location (bytes) for forwarded requests
        self.proxy_saw = []   # heads of messages addressed to the proxy (conn_id, bytes)
        self.origin_saw = []  # heads of messages seen inside a tunnel (conn_id, target, bytes)
        self.lock = threading.Lock()
        self.srv = socket.socket()
        self.srv.setsockopt(socket.SOL_SOCKET, socket.SO_REUSEADDR, 1)
        self.srv.bind(("127.0.0.1", 0)); self.srv.listen(16); self.srv.settimeout(0.2)
        self.port = self.srv.getsockname()[1]
        self.stop = False
        self.n = 0
        self.thread = threading.Thread(target=self._accept, daemon=True); self.thread.start()

    def ca_pem(self):
        return self.ca.cert_pem.bytes().decode()

    def close(self):
        self.stop = True
        try: self.srv.close()
        except OSError: pass

    def _accept(self):
        while not self.stop:
            try:
                c, _ = self.srv.accept()
            except socket.timeout:
                continue
            except OSError:
                return
            self.n += 1
            threading.Thread(target=self._serve, args=(c, self.n), daemon=True).start()

    @staticmethod
    def _read_head(c):
        data = b""
        while b"\r\n\r\n" not in data:
            d = c.recv(65536)
            if not d:
                return data or None
            data += d
        head, _, rest = data.partition(b"\r\n\r\n")
        # swallow a content-length body
        low = head.lower()
        if b"content-length:" in low:
            n = int(low.split(b"content-length:")[1].split(b"\r\n")[0])
            while len(rest) < n:
                d = c.recv(65536)
                if not d: break
                rest += d
        return head

    def _serve(self, c, cid):
        try:
            c.settimeout(5)
            if self.proxy_tls:
                c = self.server_ctx.wrap_socket(c, server_side=True)
            while True:
                head = self._read_head(c)
                if not head:
                    return
                with self.lock:
                    self.proxy_saw.append((cid, head))
                line = head.split(b"\r\n")[0]
                if line.startswith(b"CONNECT "):
                    target = line.split()[1].decode()
                    c.sendall(self.connect_reply)
                    if not self.connect_reply.startswith(b"HTTP/1.1 200"):
                        return
                    octx = self.origin_ctx or self.server_ctx
                    if self.proxy_tls:
                        o = BioTLS(c, octx)
                    else:
                        o = octx.wrap_socket(c, server_side=True)
                    served = 0
                    while True:
                        h = self._read_head(o)
                        if not h:
                            return
                        with self.lock:
                            self.origin_saw.append((cid, target, h))
                        body = b"origin:" + target.encode()
                        o.sendall(b"HTTP/1.1 200 OK\r\nContent-Length: %d\r\n\r\n%s" % (len(body), body))
                        served += 1
                        if self.origin_close_after and served >= self.origin_close_after:
                            o.close()
                            return
                elif line.split()[1] in self.redirects:
                    c.sendall(b"HTTP/1.1 302 Found\r\nLocation: %s\r\nContent-Length: 0\r\n\r\n" % self.redirects[line.split()[1]])
                else:
                    body = b"proxy-forwarded"
                    c.sendall(b"HTTP/1.1 200 OK\r\nContent-Length: %d\r\n\r\n%s" % (len(body), body))
        except Exception as e:  # noqa
            with self.lock:
                self.proxy_saw.append((cid, b"EXC " + repr(e).encode()))
        finally:
            try: c.close()
            except Exception: pass


# ---------------------------------------------------------------------------
# Scenario: the proxy answers CONNECT with something that is not an HTTP status
# line ("garbage" in the property's quantifier), or hangs up without answering.
# ---------------------------------------------------------------------------
import sys, warnings
import urllib3
from urllib3.exceptions import MaxRetryError, ProxyError, SSLError

warnings.simplefilter("ignore")
bad = 0
for label, reply in (("garbage line", b"garbage\r\n\r\n"), ("TLS alert-looking bytes then EOF", b"\x15\x03\x01\x00\x02\x02\x28"), ("403 (control)", b"HTTP/1.1 403 Forbidden\r\nContent-Length: 0\r\n\r\n")):
    for retries in (False, urllib3.Retry(1, backoff_factor=0)):
        rec = Recorder(proxy_tls=False, connect_reply=reply)
        pm = urllib3.ProxyManager(f"http://localhost:{rec.port}", ca_cert_data=rec.ca_pem(), timeout=2, retries=retries)
        exc = None
        try:
            pm.request("GET", "https://localhost:4443/secret")
        except Exception as e:  # noqa: BLE001
            exc = e
        time.sleep(0.1)
        reason = exc.reason if isinstance(exc, MaxRetryError) else exc
        sent = [h for _, _, h in rec.origin_saw] + [h for _, h in rec.proxy_saw if b"/secret" in h]
        good = isinstance(reason, (ProxyError, SSLError)) and not sent
        print(f"{label:34s} retries={'off' if retries is False else 'on '} -> {type(exc).__name__}"
              f"{'(reason ' + type(reason).__name__ + ')' if isinstance(exc, MaxRetryError) else ''}: {reason!r}  request sent: {bool(sent)}  {'ok' if good else 'NOT ProxyError/SSLError'}")
        if not good:
            bad += 1
        rec.close(); pm.clear()
sys.exit(1 if bad else 0)
