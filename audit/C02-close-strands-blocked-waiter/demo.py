"""
C02 audit demo (UNCHANGED source): a request that is waiting for a free
connection of a block=True pool hangs forever when another thread close()s the
pool.

  thread A : holds the only connection (server delays the answer)
  thread B : pool.request(...) -> blocked in queue.get() (pool_timeout=None)
  main     : pool.close()
  server   : answers A

A finishes with 200 (its connection is closed and discarded because the pool
is closed).  Nothing is ever put into the queue B is sleeping on, so B neither
completes nor fails with ClosedPoolError: it hangs.

Exit status: 1 when the hang is observed, 0 otherwise.
Run: PYTHONPATH=/tmp/w4-c02/src /venv/bin/python demo.py
"""
from __future__ import annotations

import socket
import sys
import threading
import time

import urllib3
from urllib3.exceptions import ClosedPoolError

answer_now = threading.Event()


def serve(listener: socket.socket) -> None:
    listener.settimeout(20)
    try:
        while True:
            sock, _ = listener.accept()
            threading.Thread(target=handle, args=(sock,), daemon=True).start()
    except OSError:
        pass


def handle(sock: socket.socket) -> None:
    sock.settimeout(20)
    try:
        buf = b""
        while b"\r\n\r\n" not in buf:
            chunk = sock.recv(65536)
            if not chunk:
                return
            buf += chunk
        answer_now.wait(15)
        sock.sendall(b"HTTP/1.1 200 OK\r\nContent-Length: 2\r\n\r\nok")
        time.sleep(0.2)
    except OSError:
        pass
    finally:
        sock.close()


def main() -> int:
    listener = socket.socket()
    listener.bind(("127.0.0.1", 0))
    listener.listen(8)
    port = listener.getsockname()[1]
    threading.Thread(target=serve, args=(listener,), daemon=True).start()

    pool = urllib3.HTTPConnectionPool(
        "127.0.0.1", port, maxsize=1, block=True, timeout=10, retries=False
    )
    queue_obj = pool.pool
    results: dict[str, object] = {}

    def request(name: str) -> None:
        try:
            results[name] = pool.request("GET", "/" + name).status
        except BaseException as e:  # noqa: BLE001
            results[name] = e

    a = threading.Thread(target=request, args=("A",), daemon=True)
    a.start()
    # wait until A has checked the only slot out
    deadline = time.monotonic() + 5
    while queue_obj.qsize() != 0 and time.monotonic() < deadline:
        time.sleep(0.01)
    assert queue_obj.qsize() == 0, "A did not check a connection out"

    b = threading.Thread(target=request, args=("B",), daemon=True)
    b.start()
    # wait until B sleeps in queue.get()
    deadline = time.monotonic() + 5
    while not queue_obj.not_empty._waiters and time.monotonic() < deadline:
        time.sleep(0.01)
    assert queue_obj.not_empty._waiters, "B is not waiting for a connection"

    pool.close()  # concurrent close()
    answer_now.set()  # let A's request finish

    a.join(10)
    b.join(10)
    listener.close()

    print("A:", repr(results.get("A", "<no result, still running>")))
    print("B:", repr(results.get("B", "<no result, still running>")))

    if b.is_alive():
        print(
            "VIOLATION: 10 s after close() and after A completed, B is still "
            "blocked in _get_conn(); it will never be woken up."
        )
        return 1
    rb = results.get("B")
    if rb == 200 or isinstance(rb, ClosedPoolError):
        print("ok: B completed normally or failed with ClosedPoolError")
        return 0
    print("VIOLATION: unexpected outcome for B")
    return 1


if __name__ == "__main__":
    sys.exit(main())
