"""In-memory network for urllib3: every dial is recorded and served by a thread
on the other end of a socketpair. Never blocks longer than TIMEOUT."""
from __future__ import annotations

import socket
import ssl
import threading

TIMEOUT = 5.0


def _read_head(sock) -> bytes:
    buf = b""
    while b"\r\n\r\n" not in buf:
        chunk = sock.recv(65536)
        if not chunk:
            break
        buf += chunk
    return buf


class FakeNet:
    """responder(dial_addr, request_head_bytes, nth_request_on_conn) -> bytes response (or None to close)"""

    def __init__(self, responder=None, tls_for=None, server_ctx=None, proxy_addrs=()):
        self.dials = []  # (host, port)
        self.requests = []  # (dial_addr, plaintext request head, sni)
        self.connects = []  # (dial_addr, CONNECT head)
        self.responder = responder or (
            lambda addr, head, n: b"HTTP/1.1 200 OK\r\nContent-Length: 2\r\n\r\nok"
        )
        self.tls_for = tls_for or (lambda addr: False)
        self.server_ctx = server_ctx
        self.proxy_addrs = set(proxy_addrs)
        self.threads = []
        self.errors = []

    def create_connection(self, address, timeout=None, source_address=None, socket_options=None):
        host, port = address
        self.dials.append((host, port))
        a, b = socket.socketpair()
        a.settimeout(TIMEOUT)
        b.settimeout(TIMEOUT)
        t = threading.Thread(target=self._serve, args=(b, (host, port)), daemon=True)
        t.start()
        self.threads.append(t)
        return a

    def _serve(self, sock, addr):
        sni = [None]
        try:
            if addr in self.proxy_addrs:
                head = _read_head(sock)
                if head.startswith(b"CONNECT "):
                    self.connects.append((addr, head))
                    sock.sendall(b"HTTP/1.1 200 Connection established\r\n\r\n")
                    # after CONNECT the origin speaks TLS
                    sock = self._wrap(sock, sni)
                    pending = None
                else:
                    pending = head
            else:
                pending = None
                if self.tls_for(addr):
                    sock = self._wrap(sock, sni)
            n = 0
            while True:
                head = pending if pending is not None else _read_head(sock)
                pending = None
                if not head:
                    break
                self.requests.append((addr, head, sni[0]))
                resp = self.responder(addr, head, n)
                n += 1
                if resp is None:
                    break
                sock.sendall(resp)
        except Exception as e:  # noqa: BLE001
            self.errors.append(repr(e))
        finally:
            try:
                sock.close()
            except Exception:  # noqa: BLE001
                pass

    def _wrap(self, sock, sni):
        ctx = self.server_ctx

        def cb(sslobj, name, _ctx):
            sni[0] = name

        ctx.sni_callback = cb
        s = ctx.wrap_socket(sock, server_side=True)
        s.settimeout(TIMEOUT)
        return s

    def install(self):
        import urllib3.util.connection as uc

        self._orig = uc.create_connection
        uc.create_connection = self.create_connection
        return self

    def uninstall(self):
        import urllib3.util.connection as uc

        uc.create_connection = self._orig


def request_line(head: bytes) -> str:
    return head.split(b"\r\n", 1)[0].decode("latin-1")


def header(head: bytes, name: str):
    vals = []
    for line in head.split(b"\r\n")[1:]:
        if not line:
            break
        k, _, v = line.partition(b":")
        if k.strip().lower() == name.lower().encode():
            vals.append(v.strip().decode("latin-1"))
    return vals


# --------------------------------------------------------------------------
# audit demo: http URLs through a forwarding proxy
# --------------------------------------------------------------------------
def main() -> int:
    import warnings

    import urllib3

    warnings.simplefilter("ignore")
    net = FakeNet(proxy_addrs=[("proxy.test", 3128)]).install()
    problems = []
    try:
        pm = urllib3.ProxyManager("http://proxy.test:3128", timeout=3, retries=False)

        def wire(url):
            n0 = len(net.requests)
            pm.request("GET", url)
            return net.requests[n0][1]

        # 1. URLs that differ only in letter case / an explicit default port must
        #    produce byte-identical requests.
        a = wire("http://h.test/p?q=1")
        b = wire("http://H.TEST:80/p?q=1")
        print("implicit port :", request_line(a), "| Host", header(a, "host"))
        print("explicit :80  :", request_line(b), "| Host", header(b, "host"))
        if a != b:
            problems.append("explicit default port changes the request bytes")

        # 2. empty path must be sent as '/'
        c = wire("http://h.test?x=1")
        print("empty path    :", request_line(c))
        if request_line(c) != "GET http://h.test/?x=1 HTTP/1.1":
            problems.append("empty path is not sent as '/' in the absolute-form target")

        # 3. Host header and request target disagree on the port
        d = wire("http://h.test:0/")
        print("port 0        :", request_line(d), "| Host", header(d, "host"))
        if ("h.test:0" in request_line(d)) != (header(d, "host") == ["h.test:0"]):
            problems.append("target says port 0, Host header says default port")
    finally:
        net.uninstall()
    for p in problems:
        print("VIOLATION:", p)
    return 1 if problems else 0


if __name__ == "__main__":
    import sys

    sys.exit(main())
