"""C17 audit demo (unchanged source): RecentlyUsedContainer inherits pop(),
setdefault() (and update(), popitem()) from MutableMapping.  They are composed
of two separately locked steps, so under one particular preemption they have
outcomes no sequential LRU map can produce:

  1. two racing setdefault(k, .) calls each get their *own* value back (a
     duplicate "get-or-create"), and the loser's value -- just handed to its
     caller as the cached one -- is disposed of;
  2. pop(k, default) raises KeyError although a default was given.

The preemption is forced deterministically by substituting the container's
public ``lock`` attribute with a gate that parks one thread right before its
second lock acquisition.  In-memory only, every wait has a timeout.

Exit 0 = linearizable outcome, 1 = violation.
Run:  PYTHONPATH=/tmp/w4-c17/src /venv/bin/python demo.py
"""
from __future__ import annotations

import sys
import threading

from urllib3._collections import RecentlyUsedContainer

T = 5.0


class GateLock:
    """RLock that parks thread `victim` before its `nth` acquisition until released."""

    def __init__(self) -> None:
        self.inner = threading.RLock()
        self.victim: int | None = None
        self.nth = 0
        self.count = 0
        self.parked = threading.Event()
        self.go = threading.Event()

    def acquire(self, *a: object, **k: object) -> bool:
        if threading.get_ident() == self.victim:
            self.count += 1
            if self.count == self.nth:
                self.parked.set()
                if not self.go.wait(T):
                    raise RuntimeError("gate timeout")
        return self.inner.acquire()

    def release(self) -> None:
        self.inner.release()

    def __enter__(self) -> "GateLock":
        self.acquire()
        return self

    def __exit__(self, *exc: object) -> None:
        self.release()


failures: list[str] = []


def run_pair(first, second, gate: GateLock):
    """Run `first` in a thread parked at the gate, then `second` to completion, then resume."""
    out: dict[str, object] = {}

    def a() -> None:
        gate.victim = threading.get_ident()
        try:
            out["a"] = first()
        except BaseException as e:  # noqa: BLE001
            out["a_exc"] = e

    ta = threading.Thread(target=a, daemon=True)
    ta.start()
    if not gate.parked.wait(T):
        raise SystemExit("harness: first thread never reached the gate")
    try:
        out["b"] = second()
    except BaseException as e:  # noqa: BLE001
        out["b_exc"] = e
    gate.go.set()
    ta.join(T)
    if ta.is_alive():
        raise SystemExit("harness: first thread stuck")
    return out


# --- 1. setdefault / setdefault -----------------------------------------------
disposed: list[str] = []
d: RecentlyUsedContainer[str, str] = RecentlyUsedContainer(3, dispose_func=disposed.append)
gate = GateLock()
gate.nth = 2  # setdefault = __getitem__ (1st acquisition) + __setitem__ (2nd)
d.lock = gate  # type: ignore[assignment]
out = run_pair(lambda: d.setdefault("k", "A"), lambda: d.setdefault("k", "B"), gate)
print("setdefault race:", out, "disposed:", disposed, "final:", d["k"])
if out.get("a") != out.get("b"):
    failures.append(
        f"racing setdefault() calls returned different values {out.get('a')!r} / {out.get('b')!r}"
        f" (and {disposed} was disposed of while its caller holds it)"
    )

# --- 2. pop(k, default) vs delete ----------------------------------------------
d = RecentlyUsedContainer(3)
d["k"] = "v"
gate = GateLock()
gate.nth = 2  # pop = __getitem__ (1st) + __delitem__ (2nd)
d.lock = gate  # type: ignore[assignment]


def deleter() -> str:
    del d["k"]
    return "deleted"


out = run_pair(lambda: d.pop("k", "default"), deleter, gate)
print("pop race:", out)
if "a_exc" in out:
    failures.append(f"pop('k', default) raised {out['a_exc']!r} although a default was given")

if failures:
    for f in failures:
        print("VIOLATION:", f)
    sys.exit(1)
print("ok")
