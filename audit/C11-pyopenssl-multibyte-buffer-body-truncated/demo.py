"""C11 audit demo (unchanged source): with the pyOpenSSL backend injected
(urllib3.contrib.pyopenssl.inject_into_urllib3()), a buffer-object body whose
items are wider than one byte and that has more than 16384 items
(array.array("H", ...), memoryview(...).cast("I"), ...) is announced with the
right Content-Length (nbytes) but only part of it is written to the wire.

Run:  PYTHONPATH=/tmp/w4-c11/src /venv/bin/python demo.py
Exit status: 1 when the violation is observed, 0 otherwise (also 0, with a
message, when pyOpenSSL / trustme are not importable).
Loopback only; every socket operation has a timeout.
"""
from __future__ import annotations

import array
import socket
import ssl
import sys
import threading
import warnings

warnings.simplefilter("ignore")

try:
    import trustme

    import urllib3.contrib.pyopenssl as pyo
except ImportError as e:  # pragma: no cover
    print("cannot run:", e)
    sys.exit(0)

import urllib3

TIMEOUT = 4.0
ca = trustme.CA()
server_cert = ca.issue_cert("localhost", "127.0.0.1")
sctx = ssl.SSLContext(ssl.PROTOCOL_TLS_SERVER)
server_cert.configure_cert(sctx)

lsock = socket.socket()
lsock.bind(("127.0.0.1", 0))
lsock.listen(4)
lsock.settimeout(TIMEOUT * 4)
port = lsock.getsockname()[1]
records: list[tuple[int, int, bytes]] = []  # (announced, received, body)
done = threading.Event()


def serve() -> None:
    while True:
        try:
            c, _ = lsock.accept()
        except OSError:
            return
        c.settimeout(TIMEOUT)
        try:
            t = sctx.wrap_socket(c, server_side=True)
            t.settimeout(1.5)  # how long we wait for the announced body
            buf = b""
            while b"\r\n\r\n" not in buf:
                buf += t.recv(65536)
            head, body = buf.split(b"\r\n\r\n", 1)
            announced = -1
            for ln in head.split(b"\r\n")[1:]:
                k, v = ln.split(b":", 1)
                if k.strip().lower() == b"content-length":
                    announced = int(v)
            try:
                while len(body) < announced:
                    d = t.recv(65536)
                    if not d:
                        break
                    body += d
            except (TimeoutError, socket.timeout, ssl.SSLError):
                pass  # the client stopped sending before the announced length
            records.append((announced, len(body), body))
            done.set()
            t.sendall(b"HTTP/1.1 200 OK\r\nContent-Length: 0\r\nConnection: close\r\n\r\n")
            t.close()
        except Exception as e:  # noqa: BLE001
            print("server error:", repr(e))
            done.set()


threading.Thread(target=serve, daemon=True).start()

bad = 0
with ca.cert_pem.tempfile() as cafile:
    for backend in ("stdlib ssl", "pyOpenSSL"):
        if backend == "pyOpenSSL":
            pyo.inject_into_urllib3()
        try:
            for label, body in (
                ('array.array("H", range(20000))', array.array("H", range(20000))),
                (
                    'memoryview(bytes(80000)).cast("I")',
                    memoryview(bytes(range(256)) * 320)[:80000].cast("I"),
                ),
            ):
                want = bytes(memoryview(body).cast("B"))
                records.clear()
                done.clear()
                pool = urllib3.HTTPSConnectionPool(
                    "localhost", port, ca_certs=cafile, timeout=TIMEOUT, retries=False
                )
                try:
                    r = pool.urlopen("PUT", "/upload", body=body)
                    outcome = f"status {r.status}"
                except Exception as e:  # noqa: BLE001
                    outcome = f"{type(e).__name__}: {e}"
                finally:
                    pool.close()
                done.wait(TIMEOUT)
                announced, received, got = records[0] if records else (-1, -1, b"")
                ok = announced == len(want) and got == want
                print(
                    f"{'ok       ' if ok else 'VIOLATION'} {backend:10} {label:36} -> {outcome}; "
                    f"Content-Length {announced}, body bytes on the wire {received}, body nbytes {len(want)}"
                )
                bad += not ok
        finally:
            if backend == "pyOpenSSL":
                pyo.extract_from_urllib3()
lsock.close()
print()
if bad:
    print(f"{bad} violations of C11 on the unchanged source")
    sys.exit(1)
print("no violation observed")
