"""C17 audit demo (unchanged source): PoolManager.connection_from_context()
(public, documented) strips "scheme", "host" and "port" out of the caller's
request_context when it has to create the pool, so a second request made with
the very same (equal!) connection parameters does not get the same pool object:
it raises KeyError.

In-memory only.  Exit 0 = same pool returned twice; exit 1 = violation.
Run:  PYTHONPATH=/tmp/w4-c17/src /venv/bin/python demo.py
"""
import sys

from urllib3 import PoolManager

pm = PoolManager(num_pools=4)
ctx = {"scheme": "http", "host": "a.example", "port": 80}
before = dict(ctx)
p1 = pm.connection_from_context(ctx)
print("context before:", before)
print("context after :", ctx)
try:
    p2 = pm.connection_from_context(ctx)
except KeyError as e:
    print(f"VIOLATION: second request with the same parameters raised KeyError({e})")
    sys.exit(1)
if p1 is not p2:
    print("VIOLATION: different pool objects")
    sys.exit(1)
if ctx != before:
    print("VIOLATION: caller's request_context was modified")
    sys.exit(1)
print("ok")
