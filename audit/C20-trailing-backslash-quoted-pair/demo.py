"""Audit observation (unchanged source): a field name that ends in a backslash makes an RFC 822/2183
quoted-string parser (quoted-pair aware, e.g. Python's email package) read
past the closing quote of name="...", so the filename the server sees is not the filename the field
specified. WHATWG-style parsers (no backslash escapes) see the right thing; this is a parser differential.

Run: PYTHONPATH=/tmp/w4-c20/src /venv/bin/python demo.py      (exit 1 == differential observed)
"""
import email
import sys

from urllib3 import encode_multipart_formdata

name = "a\\"
filename = "; filename=evil.php; x="
body, ct = encode_multipart_formdata([(name, (filename, b"x"))], boundary="B")
print(body)
msg = email.message_from_bytes(b"Content-Type: " + ct.encode() + b"\r\n\r\n" + body)
(part,) = msg.get_payload()
seen_name = part.get_param("name", header="content-disposition")
seen_filename = part.get_filename()
print("field specified  name=%r filename=%r" % (name, filename))
print("email parser saw name=%r filename=%r" % (seen_name, seen_filename))
if (seen_name, seen_filename) != (name, filename):
    sys.exit(1)
