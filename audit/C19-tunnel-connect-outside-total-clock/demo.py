"""
C19 audit demo (UNCHANGED source).

Timeout(total=T): the statement promises that the response wait is
min(read, T - time already spent connecting).  When an https URL is fetched
through an HTTP proxy (CONNECT tunnel), the TCP connect to the proxy, the
CONNECT exchange and the TLS handshake all happen in
HTTPConnectionPool.urlopen() -> _prepare_proxy() -> conn.connect(), i.e.
BEFORE _make_request() calls timeout_obj.start_connect().  The time spent
there is never subtracted from the total, so the read wait is the full T
again.

Control: the same slow connect phase on a direct https connection (no proxy)
IS subtracted, because there conn.connect() runs inside _make_request()
(_validate_conn) after the clock has been started.

Loopback only.  Exit status 1 when the violation is observed.
"""
from __future__ import annotations

import re
import socket
import ssl
import sys
import tempfile
import threading
import time

import trustme

import urllib3
from urllib3.exceptions import ReadTimeoutError
from urllib3.util import Timeout

TOTAL = 1.5
CONNECT_DELAY = 0.8  # time the connect phase takes (proxy answers CONNECT slowly /
#                      server starts the TLS handshake late)
HARD_LIMIT = 10.0  # nothing in this script may wait longer than this

ca = trustme.CA()
server_cert = ca.issue_cert("localhost", "127.0.0.1")
server_ctx = ssl.SSLContext(ssl.PROTOCOL_TLS_SERVER)
server_cert.configure_cert(server_ctx)
ca_file = tempfile.NamedTemporaryFile(suffix=".pem")  # kept alive until exit
ca_file.write(ca.cert_pem.bytes())
ca_file.flush()

stop = threading.Event()


def _read_headers(sock: socket.socket) -> bytes:
    buf = b""
    while b"\r\n\r\n" not in buf:
        chunk = sock.recv(65536)
        if not chunk:
            break
        buf += chunk
    return buf


def serve(listener: socket.socket, *, is_proxy: bool) -> None:
    """One connection: slow connect phase, then TLS, then read the request and
    never answer."""
    listener.settimeout(HARD_LIMIT)
    try:
        sock, _ = listener.accept()
    except OSError:
        return
    sock.settimeout(HARD_LIMIT)
    try:
        if is_proxy:
            head = _read_headers(sock)
            assert head.startswith(b"CONNECT "), head
            time.sleep(CONNECT_DELAY)
            sock.sendall(b"HTTP/1.1 200 Connection established\r\n\r\n")
        else:
            time.sleep(CONNECT_DELAY)
        tls = server_ctx.wrap_socket(sock, server_side=True)
        tls.settimeout(HARD_LIMIT)
        _read_headers(tls)
        stop.wait(HARD_LIMIT)  # never answer
        tls.close()
    except OSError:
        pass
    finally:
        sock.close()


def start(is_proxy: bool) -> int:
    listener = socket.socket()
    listener.bind(("127.0.0.1", 0))
    listener.listen(1)
    threading.Thread(
        target=serve, args=(listener,), kwargs={"is_proxy": is_proxy}, daemon=True
    ).start()
    return listener.getsockname()[1]


def run(label: str, opener, url: str) -> tuple[float, float]:
    t0 = time.monotonic()
    try:
        opener.request("GET", url, retries=False, timeout=Timeout(total=TOTAL))
    except ReadTimeoutError as e:
        elapsed = time.monotonic() - t0
        m = re.search(r"read timeout=([0-9.eE+-]+)", str(e))
        assert m, str(e)
        applied = float(m.group(1))
        print(
            f"{label}: ReadTimeoutError after {elapsed:.2f}s; "
            f"read timeout applied to the socket = {applied:.3f}s"
        )
        return applied, elapsed
    raise SystemExit(f"{label}: expected ReadTimeoutError")


def main() -> int:
    # Control: direct https, slow handshake.
    port = start(is_proxy=False)
    with urllib3.PoolManager(ca_certs=ca_file.name) as pm:
        direct_applied, direct_elapsed = run(
            "direct https ", pm, f"https://localhost:{port}/"
        )

    # Same thing through a CONNECT tunnel.
    pport = start(is_proxy=True)
    with urllib3.ProxyManager(
        f"http://127.0.0.1:{pport}", ca_certs=ca_file.name
    ) as proxy:
        tunnel_applied, tunnel_elapsed = run(
            "CONNECT tunnel", proxy, "https://localhost:4443/"
        )
    stop.set()

    budget = TOTAL - CONNECT_DELAY  # what is left of the total after connecting
    slack = 0.15
    print(
        f"total={TOTAL}, connect phase took >= {CONNECT_DELAY}s, so the read wait "
        f"must be <= {budget:.2f}s and the whole request <= {TOTAL}s"
    )
    ok = True
    if direct_applied > budget + slack:
        print("UNEXPECTED: direct https did not subtract the connect time either")
        ok = False
    if tunnel_applied > budget + slack or tunnel_elapsed > TOTAL + 2 * slack:
        print(
            "VIOLATION: through the tunnel the connect time was not subtracted: "
            f"read wait {tunnel_applied:.3f}s > {budget:.2f}s, request took "
            f"{tunnel_elapsed:.2f}s > total {TOTAL}s"
        )
        ok = False
    return 0 if ok else 1


if __name__ == "__main__":
    watchdog = threading.Timer(45, lambda: (print("watchdog"), sys.stdout.flush(), __import__("os")._exit(2)))
    watchdog.daemon = True
    watchdog.start()
    sys.exit(main())
