"""
C02 audit demo (UNCHANGED source): a request that fails *before* it checks a
connection out (here: an invalid ``timeout=`` value, rejected with ValueError
inside urlopen()'s try block) still runs the "give the slot back" clean-up and
puts a ``None`` placeholder into the queue it never took anything from.

If, at that moment, another thread holds the only connection of a
maxsize=1/block=True pool, the queue now contains a free slot although the
connection is in use: a third request opens a SECOND connection (more than
maxsize connections open at the same time in a block=True pool), and the
legitimate owner of the first connection gets an internal FullPoolError when
it returns it.

Exit status: 1 when the violation is observed, 0 otherwise.
Run: PYTHONPATH=/tmp/w4-c02/src /venv/bin/python demo.py
"""
from __future__ import annotations

import socket
import sys
import threading
import time

import urllib3

lock = threading.Lock()
open_now = 0
max_open = 0
release_a = threading.Event()


def serve(listener: socket.socket) -> None:
    listener.settimeout(20)
    try:
        while True:
            sock, _ = listener.accept()
            threading.Thread(target=handle, args=(sock,), daemon=True).start()
    except OSError:
        pass


def handle(sock: socket.socket) -> None:
    global open_now, max_open
    with lock:
        open_now += 1
        max_open = max(max_open, open_now)
    sock.settimeout(10)
    try:
        while True:
            buf = b""
            while b"\r\n\r\n" not in buf:
                chunk = sock.recv(65536)
                if not chunk:
                    return
                buf += chunk
            if buf.startswith(b"GET /slow"):
                release_a.wait(10)
            sock.sendall(b"HTTP/1.1 200 OK\r\nContent-Length: 2\r\n\r\nok")
    except OSError:
        pass
    finally:
        with lock:
            open_now -= 1
        sock.close()


def main() -> int:
    listener = socket.socket()
    listener.bind(("127.0.0.1", 0))
    listener.listen(8)
    port = listener.getsockname()[1]
    threading.Thread(target=serve, args=(listener,), daemon=True).start()

    pool = urllib3.HTTPConnectionPool(
        "127.0.0.1", port, maxsize=1, block=True, timeout=10, retries=False
    )
    results: dict[str, object] = {}

    def request(name: str, path: str, **kw: object) -> None:
        try:
            results[name] = pool.request("GET", path, pool_timeout=3, **kw).status
        except BaseException as e:  # noqa: BLE001
            results[name] = e

    a = threading.Thread(target=request, args=("A", "/slow"), daemon=True)
    a.start()
    deadline = time.monotonic() + 5
    while pool.pool.qsize() != 0 and time.monotonic() < deadline:
        time.sleep(0.01)
    assert pool.pool.qsize() == 0, "A did not check the connection out"

    # B: a caller mistake, rejected before any connection is requested.
    request("B", "/b", timeout=0)
    print("B:", repr(results["B"]))
    slots_after_b = pool.pool.qsize()
    print("free slots in the queue while A still holds the only connection:",
          slots_after_b)

    # C: must wait for A (maxsize=1, block=True) - or time out with EmptyPoolError.
    request("C", "/c")
    print("C:", repr(results["C"]), "(A is still in flight)")

    release_a.set()
    a.join(10)
    print("A:", repr(results.get("A", "<still running>")))
    print("connections open at the same time (server side):", max_open)
    listener.close()

    bad = False
    if slots_after_b != 0:
        print("VIOLATION: a failed request that never held a connection added a slot")
        bad = True
    if max_open > 1:
        print("VIOLATION: block=True, maxsize=1 pool had %d connections open" % max_open)
        bad = True
    if isinstance(results.get("A"), urllib3.exceptions.FullPoolError):
        print("VIOLATION: A got an internal FullPoolError when returning its connection")
        bad = True
    return 1 if bad else 0


if __name__ == "__main__":
    sys.exit(main())
