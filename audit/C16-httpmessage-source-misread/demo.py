"""C16 audit demo (unchanged source): http.client.HTTPMessage, the object the
HasGettableStringKeys member of ValidHTTPHeaderSource was written for, is not usable as a source
for HTTPHeaderDict(...), extend(), |, |= or ==.  It has keys() and __getitem__ but ALSO __iter__
(over field names), so the `isinstance(other, typing.Iterable)` branch wins and every field name is
unpacked as if it were a (name, value) pair.

Run:  PYTHONPATH=<tree>/src python demo.py      exit 1 = violation observed, 0 = not observed.
In-memory only; no sockets, no threads, nothing that can block.
"""
import sys
from http.client import HTTPMessage

from urllib3 import HTTPHeaderDict
from urllib3._collections import ensure_can_construct_http_header_dict

problems = []


def reference(msg):
    """what a simple multimap would hold after being fed the message's header lines"""
    ref = HTTPHeaderDict()
    for k, v in msg.items():  # the documented, working route
        ref.add(k, v)
    return ref


def observe(label, fn, expected):
    try:
        got = fn()
    except Exception as e:  # noqa: BLE001
        problems.append(f"{label}: raised {e!r}; expected lines {list(expected.items())}")
        return
    if list(got.items()) != list(expected.items()):
        problems.append(
            f"{label}: lines {list(got.items())}; expected {list(expected.items())}"
        )


# 1. a message whose only field name happens to be two characters long: silently wrong content
te = HTTPMessage()
te["TE"] = "trailers"
assert ensure_can_construct_http_header_dict(te) is te  # it IS an accepted source
exp = reference(te)
observe("HTTPHeaderDict(msg[TE])", lambda: HTTPHeaderDict(te), exp)
observe("HTTPHeaderDict() | msg[TE]", lambda: HTTPHeaderDict() | te, exp)
observe("msg[TE] | HTTPHeaderDict()", lambda: te | HTTPHeaderDict(), exp)


def ior():
    d = HTTPHeaderDict()
    d |= te
    return d


def ext():
    d = HTTPHeaderDict()
    d.extend(te)
    return d


observe("d |= msg[TE]", ior, exp)
observe("d.extend(msg[TE])", ext, exp)

# 2. an ordinary message: every entry point raises ValueError from tuple unpacking
m = HTTPMessage()
m["Content-Type"] = "text/plain"
m["Set-Cookie"] = "a=1"
m["Set-Cookie"] = "b=2"
exp = reference(m)
observe("HTTPHeaderDict(msg)", lambda: HTTPHeaderDict(m), exp)
observe("HTTPHeaderDict() | msg", lambda: HTTPHeaderDict() | m, exp)

# 3. equality against an accepted source must answer, not raise
try:
    eq = exp == m
    if eq is not True:
        problems.append(f"reference == msg answered {eq!r}; expected True")
except Exception as e:  # noqa: BLE001
    problems.append(f"reference == msg raised {e!r}; expected True")

for p in problems:
    print("VIOLATION:", p)
print(f"{len(problems)} violation(s) observed")
sys.exit(1 if problems else 0)
