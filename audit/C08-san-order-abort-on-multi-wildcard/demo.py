"""C08 audit demo: one over-wildcarded SAN entry makes the matcher refuse a certificate that also
carries an exact match, depending on SAN order.  Exit 1 when the violation is observed."""
from __future__ import annotations

import datetime
import os
import socket
import ssl
import tempfile
import threading

from cryptography import x509
from cryptography.hazmat.primitives import hashes, serialization
from cryptography.hazmat.primitives.asymmetric import ec
from cryptography.x509.oid import NameOID


def _name(cn: str) -> x509.Name:
    return x509.Name([x509.NameAttribute(NameOID.COMMON_NAME, cn)])


class CA:
    def __init__(self) -> None:
        self.key = ec.generate_private_key(ec.SECP256R1())
        now = datetime.datetime.now(datetime.timezone.utc)
        self.cert = (
            x509.CertificateBuilder()
            .subject_name(_name("audit test CA"))
            .issuer_name(_name("audit test CA"))
            .public_key(self.key.public_key())
            .serial_number(x509.random_serial_number())
            .not_valid_before(now - datetime.timedelta(days=1))
            .not_valid_after(now + datetime.timedelta(days=30))
            .add_extension(x509.BasicConstraints(ca=True, path_length=None), True)
            .sign(self.key, hashes.SHA256())
        )
        self.tmp = tempfile.mkdtemp(prefix="w4c08-")
        self.ca_path = os.path.join(self.tmp, "ca.pem")
        with open(self.ca_path, "wb") as f:
            f.write(self.cert.public_bytes(serialization.Encoding.PEM))

    def issue(self, cn: str, sans: list[x509.GeneralName], tag: str) -> str:
        """Returns the path of a PEM file holding key + leaf certificate."""
        key = ec.generate_private_key(ec.SECP256R1())
        now = datetime.datetime.now(datetime.timezone.utc)
        b = (
            x509.CertificateBuilder()
            .subject_name(_name(cn))
            .issuer_name(self.cert.subject)
            .public_key(key.public_key())
            .serial_number(x509.random_serial_number())
            .not_valid_before(now - datetime.timedelta(days=1))
            .not_valid_after(now + datetime.timedelta(days=30))
        )
        if sans:
            b = b.add_extension(x509.SubjectAlternativeName(sans), False)
        cert = b.sign(self.key, hashes.SHA256())
        path = os.path.join(self.tmp, f"leaf-{tag}.pem")
        with open(path, "wb") as f:
            f.write(
                key.private_bytes(
                    serialization.Encoding.PEM,
                    serialization.PrivateFormat.PKCS8,
                    serialization.NoEncryption(),
                )
            )
            f.write(cert.public_bytes(serialization.Encoding.PEM))
        return path


class OneShotTLSServer:
    """Accepts connections on 127.0.0.1 for a few seconds and answers 200 to each."""

    def __init__(self, leaf_pem: str, lifetime: float = 20.0) -> None:
        self.ctx = ssl.SSLContext(ssl.PROTOCOL_TLS_SERVER)
        self.ctx.load_cert_chain(leaf_pem)
        self.lsock = socket.socket()
        self.lsock.setsockopt(socket.SOL_SOCKET, socket.SO_REUSEADDR, 1)
        self.lsock.bind(("127.0.0.1", 0))
        self.lsock.listen(8)
        self.lsock.settimeout(0.25)
        self.port = self.lsock.getsockname()[1]
        self.stop = threading.Event()
        self.lifetime = lifetime
        self.t = threading.Thread(target=self._run, daemon=True)
        self.t.start()

    def _run(self) -> None:
        import time

        deadline = time.monotonic() + self.lifetime
        while not self.stop.is_set() and time.monotonic() < deadline:
            try:
                c, _ = self.lsock.accept()
            except (socket.timeout, OSError):
                continue
            try:
                c.settimeout(3)
                s = self.ctx.wrap_socket(c, server_side=True)
                s.settimeout(3)
                buf = b""
                while b"\r\n\r\n" not in buf:
                    d = s.recv(4096)
                    if not d:
                        break
                    buf += d
                if buf:
                    s.sendall(
                        b"HTTP/1.1 200 OK\r\nContent-Length: 2\r\nConnection: close\r\n\r\nok"
                    )
                s.close()
            except Exception:
                try:
                    c.close()
                except Exception:
                    pass
        self.lsock.close()

    def close(self) -> None:
        self.stop.set()
        self.t.join(timeout=3)


# --------------------------------------------------------------------------- demo
import signal
import sys

import urllib3
from urllib3.util.ssl_match_hostname import CertificateError, match_hostname

signal.alarm(50)  # hard stop, never hang


def verdict(cert: dict, host: str) -> str:
    try:
        match_hostname(cert, host)
        return "accept"
    except CertificateError as e:
        return f"reject ({e})"
    except ValueError as e:  # not even a CertificateError
        return f"reject (bare {type(e).__name__}: {e})"


def main() -> int:
    print("urllib3 from", urllib3.__file__)
    bad = 0

    # 1. direct call of the public matcher: the same SAN *set*, two orders
    host = "b.a"
    fwd = {"subjectAltName": (("DNS", "b.a"), ("DNS", "**.a"))}
    rev = {"subjectAltName": (("DNS", "**.a"), ("DNS", "b.a"))}
    v_fwd, v_rev = verdict(fwd, host), verdict(rev, host)
    print(f"SAN [b.a, **.a] host {host!r}: {v_fwd}")
    print(f"SAN [**.a, b.a] host {host!r}: {v_rev}")
    if not (v_fwd == "accept" and v_rev == "accept"):
        print("VIOLATION: an entry is an exact match, yet the matcher rejects "
              "(and the verdict depends on SAN order)")
        bad += 1

    # 1b. same thing on the IP side: CPython renders a malformed iPAddress SAN
    # as '<invalid>'; met before the good entry it aborts the loop with a bare ValueError
    ipc = {"subjectAltName": (("IP Address", "<invalid>"), ("IP Address", "127.0.0.1"))}
    v_ip = verdict(ipc, "127.0.0.1")
    print(f"SAN [IP <invalid>, IP 127.0.0.1] host '127.0.0.1': {v_ip}")
    if v_ip != "accept":
        print("VIOLATION (IP variant): exact address entry present, matcher rejects")
        bad += 1

    # 2. end to end over loopback TLS: assert_hostname= routes the check to urllib3's matcher
    ca = CA()
    results = {}
    for tag, sans in (
        ("exact-first", [x509.DNSName("b.a"), x509.DNSName("**.a")]),
        ("exact-last", [x509.DNSName("**.a"), x509.DNSName("b.a")]),
    ):
        srv = OneShotTLSServer(ca.issue("leaf", sans, tag))
        try:
            with urllib3.HTTPSConnectionPool(
                "127.0.0.1", srv.port, ca_certs=ca.ca_path, assert_hostname="b.a",
                timeout=urllib3.Timeout(connect=3, read=3), retries=False,
            ) as pool:
                try:
                    r = pool.request("GET", "/")
                    results[tag] = f"accept (HTTP {r.status})"
                except Exception as e:  # noqa: BLE001
                    results[tag] = f"reject ({type(e).__name__}: {e})"
            # what OpenSSL's own matcher says for the same certificate
            ctx = ssl.create_default_context(cafile=ca.ca_path)
            try:
                with socket.create_connection(("127.0.0.1", srv.port), timeout=3) as raw:
                    with ctx.wrap_socket(raw, server_hostname="b.a") as s:
                        s.settimeout(3)
                        results[tag + "/openssl"] = "accept"
            except Exception as e:  # noqa: BLE001
                results[tag + "/openssl"] = f"reject ({type(e).__name__}: {e})"
        finally:
            srv.close()
    for k, v in results.items():
        print(f"e2e {k}: {v}")
    if not results["exact-last"].startswith("accept"):
        print("VIOLATION (end to end): certificate lists DNS:b.a, HTTPSConnectionPool("
              "assert_hostname='b.a') refuses it because DNS:**.a comes first")
        bad += 1
    return 1 if bad else 0


if __name__ == "__main__":
    sys.exit(main())
