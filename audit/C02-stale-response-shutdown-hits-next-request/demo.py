"""
C02 audit demo (UNCHANGED source): the response of a *finished* request keeps
a live handle (``_sock_shutdown``) on the socket of the connection it already
gave back to the pool.  Calling the public ``HTTPResponse.shutdown()`` on it
shuts down the read side of a connection that is, by then, carrying another
thread's request: that request is aborted.

Exit status: 1 when the violation is observed, 0 otherwise.
Run: PYTHONPATH=/tmp/w4-c02/src /venv/bin/python demo.py
"""
from __future__ import annotations

import socket
import sys
import threading
import time

import urllib3

go = threading.Event()


def serve(listener: socket.socket) -> None:
    listener.settimeout(20)
    try:
        while True:
            sock, _ = listener.accept()
            threading.Thread(target=handle, args=(sock,), daemon=True).start()
    except OSError:
        pass


def handle(sock: socket.socket) -> None:
    sock.settimeout(10)
    try:
        while True:
            buf = b""
            while b"\r\n\r\n" not in buf:
                chunk = sock.recv(65536)
                if not chunk:
                    return
                buf += chunk
            if buf.startswith(b"GET /slow"):
                go.wait(5)
            sock.sendall(b"HTTP/1.1 200 OK\r\nContent-Length: 2\r\n\r\nok")
    except OSError:
        pass
    finally:
        sock.close()


def main() -> int:
    listener = socket.socket()
    listener.bind(("127.0.0.1", 0))
    listener.listen(8)
    port = listener.getsockname()[1]
    threading.Thread(target=serve, args=(listener,), daemon=True).start()

    pool = urllib3.HTTPConnectionPool(
        "127.0.0.1", port, maxsize=1, block=True, timeout=5, retries=False
    )
    r1 = pool.request("GET", "/first")  # preloaded, connection is back in the pool
    assert r1.status == 200 and pool.pool.qsize() == 1

    results: dict[str, object] = {}

    def second() -> None:
        try:
            results["B"] = pool.request("GET", "/slow", pool_timeout=3).status
        except BaseException as e:  # noqa: BLE001
            results["B"] = e

    t = threading.Thread(target=second, daemon=True)
    t.start()
    deadline = time.monotonic() + 5
    while pool.pool.qsize() != 0 and time.monotonic() < deadline:
        time.sleep(0.01)
    time.sleep(0.2)  # B has sent its request and waits for the answer

    r1.shutdown()  # public API, on a response whose request is long finished
    time.sleep(0.5)  # let B's blocked recv() observe the EOF before the answer arrives
    go.set()
    t.join(10)
    listener.close()

    print("B:", repr(results.get("B", "<still running>")))
    if results.get("B") == 200:
        print("ok: B was not disturbed")
        return 0
    print("VIOLATION: the finished request's response object acted on the "
          "connection while it was in use by B's request")
    return 1


if __name__ == "__main__":
    sys.exit(main())
