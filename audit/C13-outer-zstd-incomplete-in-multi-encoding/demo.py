"""Content-Encoding: gzip, zstd (zstd applied last = outermost) with an incomplete zstd frame is not
reported: MultiDecoder.flush() only flushes the first-listed decoder.  Exit 1 when observed."""
import gzip
import os
import sys

sys.path.insert(0, os.path.dirname(os.path.abspath(__file__)))
from _h import Server  # noqa: E402

import urllib3  # noqa: E402
from urllib3.exceptions import HTTPError  # noqa: E402

try:
    import zstandard
except ImportError:
    print("zstandard not installed; nothing to show")
    sys.exit(0)

payload = b"0123456789" * 10000
outer = zstandard.ZstdCompressor().compress(gzip.compress(payload))
violations = []


def attempt(name, enc, body, reader, preload=False):
    resp = (
        b"HTTP/1.1 200 OK\r\nContent-Encoding: " + enc + b"\r\nContent-Length: %d\r\n\r\n" % len(body)
    ) + body
    s = Server([[(resp, True)]])
    pool = urllib3.HTTPConnectionPool("127.0.0.1", s.port, timeout=3, retries=False)
    try:
        r = pool.urlopen("GET", "/", preload_content=preload, retries=False)
        out = reader(r)
    except HTTPError as e:
        print(f"{name}: raised {type(e).__name__}")
    else:
        print(f"{name}: NO ERROR, {len(out)} of {len(payload)} bytes delivered")
        if enc != b"zstd":
            violations.append(name)
    finally:
        pool.close()
        s.close()


cut = outer[:-3]  # framing (Content-Length) is consistent; the zstd frame itself is incomplete
attempt("zstd alone [control, must raise]", b"zstd", cut, lambda r: r.read())
attempt("gzip, zstd preload", b"gzip, zstd", cut, lambda r: r.data, preload=True)
attempt("gzip, zstd read()", b"gzip, zstd", cut, lambda r: r.read())
attempt("gzip, zstd read(100) loop", b"gzip, zstd", cut, lambda r: b"".join(iter(lambda: r.read(100), b"")))
attempt("gzip, zstd stream", b"gzip, zstd", cut, lambda r: b"".join(r.stream(100)))

if violations:
    print("VIOLATION: incomplete zstd stream presented as a complete body by:", violations)
    sys.exit(1)
print("ok")
