"""C05 — redirects are followed only as far as the effective retry policy allows.

Monitor: the ordered request log of a multi-origin in-memory network is compared, request by request, with
a reference walk of the redirect graph (RFC 3986 resolution of each Location, 303 rule) and with the
redirect budget of the policy in effect (request level > pool / manager default > Retry(3))."""
from __future__ import annotations

import typing
from urllib.parse import urljoin

from vf import netsim, redirnet
from vf.core import Ctx, Recorder

INF = 10**9
POLICIES: list[typing.Any] = [None, False, 0, 1, 2, {"redirect": 0}, {"redirect": 1}, {"redirect": 2}, {"total": 0}, {"total": 1}, {"total": 2}, {"total": 2, "redirect": 1},
                              {"total": 2, "raise_on_redirect": False}, {"redirect": 1, "raise_on_redirect": False}, {"redirect": 0, "raise_on_redirect": False}, {"total": 5, "redirect": 3}]
CODES = [301, 302, 303, 307, 308]
FORMS = ["absolute", "path", "relative", "dotrel", "scheme-relative", "frag", "query", "absolute-default-port", "upper-host"]


def build_policy(p: typing.Any) -> typing.Any:
    from urllib3.util import Retry

    if p is None or isinstance(p, (bool, int)):
        return p
    return Retry(**p)


def budget_of(p: typing.Any) -> tuple[int, bool]:
    """(redirect budget, raise_on_redirect) of one policy value."""
    if p is None:
        return 3, True  # Retry.DEFAULT
    if p is False:
        return 0, False
    if isinstance(p, int):
        return p, True
    vals = [v for v in (p.get("total", 10), p.get("redirect")) if isinstance(v, int) and not isinstance(v, bool)]
    if p.get("total", 10) is False or p.get("redirect") is False:
        return 0, False
    return (min(vals) if vals else INF), p.get("raise_on_redirect", True)


def effective(case: dict[str, typing.Any]) -> tuple[int, bool, str]:
    if case.get("redirect_kw") is False:
        return 0, False, "redirect=False"
    if case["policy_req"] is not None:
        b, r = budget_of(case["policy_req"])
        return b, r, "request"
    if case["policy_lvl2"] is not None:
        b, r = budget_of(case["policy_lvl2"])
        return b, r, case["client"] + "-level"
    return 3, True, "default"


def build_graph(case: dict[str, typing.Any]) -> tuple[str, dict[tuple[str, str], dict[str, typing.Any]], list[dict[str, typing.Any]]]:
    """Returns (start url, routes, reference walk).  The walk lists the requests a conforming client with an
    unlimited budget makes (capped at 40): [{'url','origin','target','method','has_body','code','location'}]"""
    start = redirnet.origin_url(case.get("start_origin", "A")) + "/d0/h0"
    routes: dict[tuple[str, str], dict[str, typing.Any]] = {}
    cur = start
    hops = case["hops"]
    for i, hop in enumerate(hops):
        origin = redirnet.origin_name_of_url(cur)
        s, a, p, q = redirnet.split_ref(cur)
        nxt_origin = hop["to"]
        nxt_path = f"/d{i+1}/h{i+1}"
        form = hop["form"]
        if case.get("loop") and i == len(hops) - 1:
            loc: str | None = start
        elif form == "absolute":
            loc = redirnet.origin_url(nxt_origin) + nxt_path
        elif form == "absolute-default-port":
            loc = redirnet.origin_url(nxt_origin, explicit_default_port=True) + nxt_path
        elif form == "upper-host":
            loc = redirnet.origin_url(nxt_origin, upper=True) + nxt_path
        elif form == "path":
            loc = nxt_path
        elif form == "relative":
            loc = f"h{i+1}"
        elif form == "dotrel":
            loc = f"../d{i+1}/./x/../h{i+1}"
        elif form == "scheme-relative":
            sc, h, port = redirnet.ORIGINS[nxt_origin]
            loc = f"//{h}:{port}{nxt_path}"
        elif form == "frag":
            loc = redirnet.origin_url(nxt_origin) + nxt_path + "#frag"
        elif form == "query":
            loc = nxt_path + "?q=1&r=2"
        elif form == "missing":
            loc = None
        else:
            raise ValueError(form)
        routes[(origin or "?", p or "/")] = {"code": hop["code"], "location": loc}
        if loc is None:
            break
        cur = redirnet.resolve(cur, loc)
    # reference walk over the routes
    walk: list[dict[str, typing.Any]] = []
    cur = start
    method, has_body = case["method"], case["method"] == "POST"
    for _ in range(40):
        origin = redirnet.origin_name_of_url(cur)
        s, a, p, q = redirnet.split_ref(cur)
        r = routes.get((origin or "?", p or "/"))
        entry = {"url": cur, "origin": origin, "target": (p or "/") + ("?" + q if q is not None else ""), "method": method, "has_body": has_body, "code": r["code"] if r else 200, "location": r["location"] if r else None}
        walk.append(entry)
        if r is None or r["location"] is None:
            break
        if r["code"] == 303:
            method, has_body = "GET", False
        cur = redirnet.resolve(cur, r["location"])
    return start, routes, walk


def run_case(rec: Recorder, case: dict[str, typing.Any]) -> None:
    import urllib3
    from urllib3.exceptions import HTTPError, MaxRetryError

    start, routes, walk = build_graph(case)
    server = redirnet.RedirServer(routes, fail_first=int(case.get("fail_first", 0)), status_first=int(case.get("status_first", 0)))
    preq, plvl = build_policy(case["policy_req"]), build_policy(case["policy_lvl2"])
    result: typing.Any = None
    exc: BaseException | None = None
    body = b"post-body" if case["method"] == "POST" else None
    hdrs = {"Content-Type": "text/plain", "X-Keep": "k"} if body else {"X-Keep": "k"}
    with netsim.Net(server) as net:
        try:
            kw: dict[str, typing.Any] = {}
            if case["policy_req"] is not None:
                kw["retries"] = preq
            if case.get("redirect_kw") is False:
                kw["redirect"] = False
            lvl = {"retries": plvl} if case["policy_lvl2"] is not None else {}
            if case["client"] == "pool":
                client: typing.Any = urllib3.HTTPConnectionPool("a.test", 80, **lvl)
                first_url = "/d0/h0"
            elif case["client"] == "manager":
                client = urllib3.PoolManager(**lvl)
                # a URL without scheme is (still) accepted and fetched as http: Locations are resolved against that URL
                first_url = start.split("://", 1)[1] if case.get("schemeless_start") and start.startswith("http://") else start
            else:
                client = urllib3.ProxyManager("http://proxy.test:3128", **lvl)
                first_url = start
            # earlier requests on the same client with other per-request policies: the policy in effect for the judged
            # request must not depend on what the client converted or cached before
            for wp in case.get("warmup", []):
                rec.mon("warmup_request")
                if isinstance(wp, dict) and "lookup_override" in wp:
                    # only a pool lookup for the same origin with a more generous per-lookup policy; no request
                    client.connection_from_url(first_url, pool_kwargs={"retries": build_policy(wp["lookup_override"])})
                    continue
                try:
                    client.urlopen("GET", first_url, headers={"X-Keep": "k"}, **({} if wp == "unset" else {"retries": build_policy(wp)}))
                except HTTPError:
                    pass
            if case.get("warmup"):
                server.log.clear()
                server.failed.clear()
            if case.get("via_pool") and case["client"] == "manager":
                # the caller takes the pool for the origin from the manager and uses it directly: the manager-level
                # policy is that pool's default
                from urllib3.util import parse_url as _pu

                result = client.connection_from_url(first_url).urlopen(case["method"], _pu(first_url).request_uri, body=body, headers=hdrs, **kw)
            else:
                result = client.urlopen(case["method"], first_url, body=body, headers=hdrs, **kw)
        except BaseException as e:  # noqa: BLE001
            if isinstance(e, (KeyboardInterrupt, SystemExit)):
                raise
            exc = e
        log = list(server.log)
    rec.mon("case")
    budget, raises, source = effective(case)
    n = len(log)
    follow = n - 1
    # how many follow-ups an unlimited client would make
    full = 0
    for w in walk:
        if w["code"] == 200 or w["location"] is None:
            break
        full += 1
    expected_follow = min(full, budget)
    obs: dict[str, typing.Any] = {"client": case["client"], "policy_source": source, "budget": budget if budget < INF else "inf", "raise_on_redirect": raises, "requests": n, "expected_follow": expected_follow, "exc": type(exc).__name__ if exc else None, "status": getattr(result, "status", None)}
    if isinstance(exc, Exception) and not isinstance(exc, HTTPError):
        rec.fail(case, "non-urllib3-exception", dict(obs, msg=str(exc)[:100]), f"{type(exc).__name__}: {exc!s:.120}")
        return
    # (1) never more follow-ups than the budget
    rec.mon("budget")
    if follow > budget:
        rec.fail(case, "redirect-budget-exceeded", obs, f"{follow} redirects followed, budget {budget} from {source} policy")
        return
    # (2) budget 0 by False / redirect=False: the 3xx comes back and nothing else is contacted
    if budget == 0 and not raises and full > 0:
        if n != 1 or exc is not None or result is None or result.status != walk[0]["code"]:
            rec.fail(case, "redirect-disabled-but-followed-or-wrong-return", obs, f"redirects disabled by {source}: {n} requests, returned {getattr(result, 'status', None)}, exc {exc!r}")
            return
    # (4) each request equals the reference walk's
    rec.mon("request_sequence")
    for j, entry in enumerate(log):
        if j >= len(walk):
            rec.fail(case, "request-beyond-graph", dict(obs, index=j), f"request #{j} {entry['origin']} {entry['target']} after the end of the graph")
            return
        w = walk[j]
        problems = []
        if case["client"] == "manager" and entry.get("via_proxy") is not None:
            problems.append(f"absolute-form target sent to {entry['via_proxy']} without any proxy: the Location was not resolved by the manager but passed on as a target")
        if entry["origin"] != w["origin"] or entry["target"] != w["target"]:
            problems.append(f"went to {entry['origin']} {entry['target']}, reference resolution gives {w['origin']} {w['target']}")
        if entry["method"] != w["method"]:
            problems.append(f"method {entry['method']} != {w['method']}")
        if bool(entry["body"]) != bool(w["has_body"]) or (w["has_body"] and entry["body"] != b"post-body"):
            problems.append(f"body {entry['body'][:20]!r} vs has_body={w['has_body']}")
        hl = {k.lower(): v for k, v in entry["headers"]}
        if not w["has_body"] and case["method"] == "POST" and ("content-type" in hl or hl.get("content-length", "0") != "0" or "transfer-encoding" in hl):
            problems.append(f"content headers on a body-less follow-up: { {k: v for k, v in hl.items() if k.startswith('content') or k == 'transfer-encoding'} }")
        if hl.get("x-keep") != "k":
            problems.append("non-sensitive header X-Keep lost")
        if problems:
            prev_code = walk[j - 1]["code"] if j else None
            rec.fail(case, "follow-up-request-differs", dict(obs, index=j, after_code=prev_code, form=case["hops"][(j - 1) % len(case["hops"])]["form"] if j else None, location=walk[j - 1]["location"] if j else None, what=[p.split(" ")[0] for p in problems]), f"request #{j}: " + "; ".join(problems))
            return
    # (3)/(5) how it ends
    rec.mon("ending")
    if follow == expected_follow:
        w = walk[follow]
        if w["code"] == 200 or w["location"] is None:
            want_status = w["code"]
            if exc is not None or result is None or result.status != want_status:
                rec.fail(case, "wrong-final-result", dict(obs, want=want_status), f"chain ends with {want_status}; got status {getattr(result, 'status', None)} exc {exc!r}")
        elif raises:
            if not isinstance(exc, MaxRetryError):
                rec.fail(case, "exhaustion-not-maxretryerror", obs, f"budget exhausted with raise_on_redirect: got status {getattr(result, 'status', None)} exc {exc!r}")
        else:
            if exc is not None or result is None or result.status != w["code"]:
                rec.fail(case, "exhaustion-not-last-3xx", dict(obs, want=w["code"]), f"budget exhausted without raise_on_redirect: expected the {w['code']} response, got {getattr(result, 'status', None)} exc {exc!r}")
    else:
        rec.count("stopped_earlier_than_budget_allows")
        rec.count("stopped_early_with_" + (type(exc).__name__ if exc else "status-" + str(getattr(result, "status", None))) + "_" + case["client"])
        if exc is not None and not isinstance(exc, MaxRetryError):
            # budget left, a Location to follow, and the call ended with an error that is not the exhaustion of a budget:
            # the Location was not resolved / followed.  (Returning a 3xx early is not judged: the statement bounds the
            # number of redirects from above only, and a stricter client must not raise an alarm.)
            rec.fail(case, "redirect-not-followed", dict(obs, schemeless_start=bool(case.get("schemeless_start")), location=walk[follow]["location"] if follow < len(walk) else None), f"{follow} of {expected_follow} redirects followed, then {exc!r} / status {getattr(result, 'status', None)}")
    # cross-check of the reference resolver against urllib.parse.urljoin (evidence only)
    for w in walk[:6]:
        if w["location"] is not None:
            rec.mon("resolver_crosscheck")
            a, b = urljoin(w["url"], w["location"]).split("#")[0], redirnet.resolve(w["url"], w["location"])
            if a.split(":", 1)[0].lower() + a[a.find(":") :] != b.split(":", 1)[0].lower() + b[b.find(":") :]:
                rec.count("resolver_disagrees_with_urljoin")
    if rec.evaluations % 1201 == 0:
        rec.sample({"case": case, "request_log": [(e["origin"], e["method"], e["target"]) for e in log], "result": obs["status"], "exception": obs["exc"]})


def random_case(rng: typing.Any) -> dict[str, typing.Any]:
    client = rng.choice(["manager", "manager", "proxy", "pool"])
    nh = rng.choice([1, 1, 2, 2, 3, 4, 6])
    hops = []
    for i in range(nh):
        if client == "pool":
            # a bare pool only follows Locations it can recognise as its own host (path-absolute or absolute)
            to, form = "A", rng.choice(["path", "query", "absolute", "absolute-default-port", "upper-host", "frag"])
        else:
            to = rng.choice(["A", "B", "C", "A", "A2"])
            form = rng.choice(FORMS)
        hops.append({"code": rng.choice(CODES), "to": to, "form": form})
    if rng.random() < 0.06:
        hops[-1]["form"] = "missing"
    loop = rng.random() < 0.15 and hops[-1]["form"] != "missing"
    placement = rng.choice(["request", "level2", "both", "none", "request", "level2"])
    preq = rng.choice(POLICIES[1:]) if placement in ("request", "both") else None
    plvl = rng.choice(POLICIES[1:]) if placement in ("level2", "both") else None
    case = {"client": client, "hops": hops, "loop": loop, "policy_req": preq, "policy_lvl2": plvl, "method": rng.choice(["GET", "GET", "POST"]), "redirect_kw": False if rng.random() < 0.07 else True}

    def tolerant(p: typing.Any) -> bool:  # the policy leaves room for one retried connection error
        return p is None or (isinstance(p, dict) and "total" not in p)

    if tolerant(preq) and tolerant(plvl) and rng.random() < 0.25:
        # "outcome scripts that include a failing attempt": the first attempt dies with a connection reset
        case["fail_first"] = 1
        case["method"] = "GET"
    b, _, _ = effective(case)
    if loop and b >= INF:
        case["loop"] = False
    if client == "manager" and rng.random() < 0.12:
        case["schemeless_start"] = True
    if tolerant(preq) and tolerant(plvl) and "fail_first" not in case and rng.random() < 0.2:
        # the first answer of the chain is a retried status (503 + Retry-After), the 3xx comes with the repeated request
        case["status_first"] = 1
        case["method"] = "GET"
    return case


def run_shard(ctx: Ctx, rec: Recorder) -> None:
    rng = ctx.rng
    # (i) systematic: every policy x placement x client on chains of 1..4 hops of every code (absolute form)
    idx = 0
    for client in ("manager", "proxy", "pool"):
        for placement in ("request", "level2", "both"):
            for pol in POLICIES[1:]:
                for nh in (1, 2, 3, 4):
                    for code in CODES:
                        idx += 1
                        if not ctx.mine(idx):
                            continue
                        to_seq = ["A"] * nh if client == "pool" else (["B", "A", "C", "B"][:nh])
                        hops = [{"code": code, "to": to_seq[i], "form": "absolute"} for i in range(nh)]
                        other = {"total": 5, "redirect": 3}
                        case = {"client": client, "hops": hops, "loop": False, "policy_req": pol if placement in ("request", "both") else None, "policy_lvl2": (other if placement == "both" else pol) if placement in ("level2", "both") else None, "method": "POST" if (idx % 3 == 0) else "GET", "redirect_kw": True}
                        rec.case(["sys", case])
                        run_case(rec, case)
    rec.exhaustive_parts.append(f"{len(POLICIES)-1} policy values x 3 placements x 3 clients x chain lengths 1-4 x 5 status codes")
    # (i-a') a retried status (503 + Retry-After) before the 3xx of the first hop, every client, redirect on and off
    for client in ("manager", "proxy", "pool"):
        for form in (("absolute", "path", "relative", "scheme-relative") if client != "pool" else ("absolute", "path")):
            for pol in (None, {"redirect": 2}, {"total": 5}):
                for redirect_kw in (True, False):
                    idx += 1
                    if not ctx.mine(idx):
                        continue
                    to_seq = ["A", "A"] if client == "pool" else ["B", "C"]
                    case = {"client": client, "hops": [{"code": 302, "to": to_seq[0], "form": form}, {"code": 307, "to": to_seq[1], "form": "absolute"}], "loop": False, "policy_req": pol, "policy_lvl2": None, "method": "GET", "redirect_kw": redirect_kw, "status_first": 1}
                    rec.case(["status-first", client, form, pol, redirect_kw])
                    rec.mon("status_retry_then_redirect")
                    run_case(rec, case)
    # (i-a) the first URL given without scheme, every Location form on the first hop
    for form in FORMS:
        for code in (302, 307):
            idx += 1
            if not ctx.mine(idx):
                continue
            case = {"client": "manager", "hops": [{"code": code, "to": "A", "form": form}, {"code": 302, "to": "B", "form": "absolute"}], "loop": False, "policy_req": None, "policy_lvl2": None, "method": "GET", "redirect_kw": True, "schemeless_start": True}
            rec.case(["schemeless-start", form, code])
            rec.mon("schemeless_start")
            with __import__("warnings").catch_warnings():
                __import__("warnings").simplefilter("ignore")
                run_case(rec, case)
    for client in ("manager", "proxy", "pool"):
        for pol in (None, {"redirect": 0}, {"redirect": 1}, {"redirect": 1, "raise_on_redirect": False}):
            for placement in ("request", "level2"):
                for redirect_kw in (True, False):
                    for fail in (0, 1, 2):
                        for code in (302, 307):
                            idx += 1
                            if not ctx.mine(idx):
                                continue
                            hops = [{"code": code, "to": "A" if client == "pool" else "B", "form": "absolute"}, {"code": code, "to": "A", "form": "absolute"}]
                            case = {"client": client, "hops": hops, "loop": False, "policy_req": pol if placement == "request" else None, "policy_lvl2": pol if placement == "level2" else None, "method": "GET", "redirect_kw": redirect_kw, "fail_first": fail}
                            rec.case(["fail", case])
                            run_case(rec, case)
    # (i-c) the same client used before with other per-request policies (0 / False / True / 1 / Retry objects hash and compare alike)
    warm = [0, False, 1, True, {"redirect": 0}, {"total": 0}, "unset"]
    for client in ("manager", "proxy", "pool"):
        for w in warm:
            for pol in (0, False, 1, True, 2, {"redirect": 1}, {"redirect": 0, "raise_on_redirect": False}):
                for placement in ("request", "level2"):
                    idx += 1
                    if not ctx.mine(idx) or repr(w) == repr(pol):
                        continue
                    hops = [{"code": 302, "to": "A" if client == "pool" else "B", "form": "absolute"}, {"code": 307, "to": "A", "form": "absolute"}]
                    case = {"client": client, "hops": hops, "loop": False, "policy_req": pol if placement == "request" else None, "policy_lvl2": pol if placement == "level2" else None, "method": "GET", "redirect_kw": True, "warmup": [w]}
                    rec.case(["warm", case])
                    run_case(rec, case)
    # (i-d) a pool for the same origin was looked up earlier with a more generous override; the manager's own pool is then
    # used directly
    for pol in (False, 0, 1, {"redirect": 1}, {"redirect": 0, "raise_on_redirect": False}):
        for gen in (5, {"redirect": 5}):
            for code in (302, 307):
                idx += 1
                if not ctx.mine(idx):
                    continue
                hops = [{"code": code, "to": "A", "form": "path"}, {"code": code, "to": "A", "form": "path"}, {"code": code, "to": "A", "form": "path"}]
                case = {"client": "manager", "hops": hops, "loop": False, "policy_req": None, "policy_lvl2": pol, "method": "GET", "redirect_kw": True, "warmup": [{"lookup_override": gen}], "via_pool": True}
                rec.case(["via-pool", case])
                rec.mon("manager_pool_after_override_lookup")
                run_case(rec, case)
    # (ii) every Location form x code, two hops
    for form in FORMS + ["missing"]:
        for code in CODES:
            for client in ("manager", "proxy", "pool"):
                idx += 1
                if not ctx.mine(idx):
                    continue
                if client == "pool" and form in ("scheme-relative", "relative", "dotrel"):
                    continue  # a bare pool has no current URL to resolve a network-path reference against (the statement's resolution clause is about PoolManager)
                to = "A" if client == "pool" or form in ("path", "relative", "dotrel", "query") else "B"
                case = {"client": client, "hops": [{"code": code, "to": to, "form": form}, {"code": 302, "to": "A", "form": "absolute"}], "loop": False, "policy_req": None, "policy_lvl2": None, "method": "POST", "redirect_kw": True}
                rec.case(["form", case])
                run_case(rec, case)
    # (iii) random graphs
    n = ctx.pick(6000, 200000)
    for i in range(n):
        if ctx.out_of_time(0.9):
            rec.count("random_cut_short_by_budget")
            break
        case = random_case(rng)
        rec.case(["rand", case])
        run_case(rec, case)


def replay(case: dict[str, typing.Any], ctx: Ctx, rec: Recorder) -> None:
    rec.case(case)
    run_case(rec, case)
