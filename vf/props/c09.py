"""C09 — proxied traffic follows the documented routing and never leaks outside it.

Monitor: a recording loopback proxy (plain or TLS) that also plays the origin inside CONNECT tunnels logs what
each party received; the logs of every run are judged against the routing truth table, the confidentiality
rule (proxy headers only to the proxy, application secrets never to the proxy in clear when tunnelling), the
failure rule (refused CONNECT / failed proxy or origin verification => nothing sent, ProxyError/SSLError) and
the re-tunnel rule (every proxy connection that carries an https request starts with CONNECT)."""
from __future__ import annotations

import typing
import warnings

from vf import tlsnet
from vf.core import Ctx, Recorder

PROXY_TOKEN = "ptoken-5b1c"
PROXY_AUTH = "Basic cHJveHk6c2VjcmV0LXB3"
DESTS = [
    # (host in URL, port or None, leaf kind that matches)
    ("good.test", None, "exact"), ("good.test", 8443, "exact"), ("GOOD.test", None, "exact"), ("a.wild.test", None, "wildcard"), ("127.0.0.1", None, "ip4"), ("127.0.0.1", 4443, "ip4"),
    ("[::1]", None, "ip6"), ("[::1]", 8443, "ip6"), ("good.test", 443, "exact"), ("good.test", 80, "exact"),
]
CONNECT_REPLIES = [200] * 9 + [403, 407, 502, "garbage", "eof"]
PROXY_HEADER_SETS = [
    {"Proxy-Authorization": PROXY_AUTH},
    {"Proxy-Authorization": PROXY_AUTH, "X-Proxy-Token": PROXY_TOKEN},
    {"proxy-authorization": PROXY_AUTH, "X-Proxy-Token": PROXY_TOKEN, "User-Agent": "proxy-ua/" + PROXY_TOKEN},
    {},
]


PROXY_VERIFY = ["ctx-empty+ca_certs", "ctx-empty+ca_cert_data", "default", "assert-match", "assert-other", "assert-notproxy", "assert-false", "pin-right", "pin-wrong", "ctx-trusting", "ctx-empty", "shared-ctx-assert", "shared-ctx-pin", "shared-ctx-assert", "shared-ctx-pin"]  # shared-ctx-*: ONE SSLContext object for the proxy leg and the origin


def proxy_leg_ok(case: dict[str, typing.Any]) -> bool:
    """Reference for the TLS leg to an https proxy: chain against the configured CAs, then name or pin."""
    pv = case.get("proxy_verify", "default")
    if case["proxy_cert"] == "untrusted" or pv in ("ctx-empty", "ctx-empty+ca_certs", "ctx-empty+ca_cert_data"):
        return False
    san = "proxy.test" if case["proxy_cert"] == "ok" else "notproxy.test"
    if pv in ("pin-right", "assert-false", "shared-ctx-pin"):
        return True
    if pv == "pin-wrong" or pv == "assert-other":
        return False
    if pv == "assert-notproxy":
        return san == "notproxy.test"
    return san == "proxy.test"


def want_tunnel(proxy_scheme: str, dest_scheme: str, forwarding: bool) -> bool:
    if dest_scheme != "https":
        return False
    return not (proxy_scheme == "https" and forwarding)


def authority(host: str, port: int | None, scheme: str) -> str:
    return f"{host.lower()}:{port or (443 if scheme == 'https' else 80)}"


def random_case(rng: typing.Any) -> dict[str, typing.Any]:
    proxy_scheme = rng.choice(["http", "https"])
    nreq = rng.choice([1, 1, 2, 3])
    reqs = []
    for j in range(nreq):
        host, port, kind = rng.choice(DESTS)
        scheme = rng.choice(["https", "https", "http"])
        if port == 80 and scheme == "https" or port in (443, 8443, 4443) and scheme == "http":
            port = None
        reqs.append({"scheme": scheme, "host": host, "port": port, "leaf": kind, "path": f"/secret-{j}?k=app-secret-{j}", "api": rng.choice(["request", "urlopen", "request"]), "method": rng.choice(["GET", "GET", "POST"])})
    if rng.random() < 0.25:
        # redirect chains through the proxy: each request is answered with a 302 to another destination, the
        # hop after the redirect is routed (tunnelled / forwarded) on its own; everything else is healthy
        for j, r in enumerate(reqs):
            host, port, kind = rng.choice(DESTS)
            scheme = rng.choice(["https", "https", "http"])
            if port == 80 and scheme == "https" or port in (443, 8443, 4443) and scheme == "http":
                port = None
            r["path"] = f"/hop-{j}?k=app-secret-{j}"
            r["redirect"] = {"scheme": scheme, "host": host, "port": port, "leaf": kind, "path": f"/secret-{j}r?k=app-secret-{j}r"}
        return {"proxy_scheme": proxy_scheme, "forwarding": rng.random() < 0.35, "proxy_cert": "ok", "origin_cert": "ok", "connect_replies": [200, 200, 200], "proxy_headers": rng.randrange(len(PROXY_HEADER_SETS)), "close_after": None, "silent_close": False,
                "reqs": reqs, "retries": rng.choice([False, 3]), "ctor": rng.choice(["ProxyManager", "proxy_from_url"]), "proxy_url_form": "proxy.test:3128", "strip": rng.choice(["default", "default", "none"])}
    if rng.random() < 0.5:
        # same destination throughout: connection reuse and re-tunnelling
        for r in reqs[1:]:
            r.update({k: reqs[0][k] for k in ("scheme", "host", "port", "leaf")})
    return {
        "proxy_scheme": proxy_scheme, "forwarding": rng.random() < 0.35, "proxy_cert": rng.choice(["ok"] * 6 + ["bad-name", "untrusted"]) if proxy_scheme == "https" else "ok",
        "origin_cert": rng.choice(["ok"] * 6 + ["bad-name", "untrusted", "proxy-cert"]), "connect_replies": [rng.choice(CONNECT_REPLIES) for _ in range(3)],
        "proxy_headers": rng.randrange(len(PROXY_HEADER_SETS)), "close_after": rng.choice([None, None, 1, 2]), "silent_close": rng.random() < 0.5, "reqs": reqs,
        "retries": rng.choice([False, False, 1]), "ctor": rng.choice(["ProxyManager", "proxy_from_url"]), "proxy_url_form": rng.choice(["proxy.test:3128", "PROXY.test:3128", "proxy.test"]),
        "proxy_verify": rng.choice(PROXY_VERIFY + ["default"] * 6) if proxy_scheme == "https" else "default",
    }


def run_case(rec: Recorder, case: dict[str, typing.Any], certs: tlsnet.Certs) -> None:
    import urllib3
    from urllib3.exceptions import HTTPError, MaxRetryError, ProtocolError, ProxyError, SSLError

    ps = case["proxy_scheme"]
    proxy_leaf = {"ok": ("proxy", "trusted"), "bad-name": ("proxy-other", "trusted"), "untrusted": ("proxy", "untrusted")}[case["proxy_cert"]]
    reqs = case["reqs"]
    hops_of = [[r] + ([r["redirect"]] if r.get("redirect") else []) for r in reqs]
    all_hops = [h for hs in hops_of for h in hs]
    # the origin inside a tunnel presents the certificate of the first https destination (same-destination
    # sequences) or, in mixed sequences, the one that matches the CONNECT target
    def inner_for(target: str) -> tuple[str, str]:
        for r in all_hops:
            if r["scheme"] == "https" and authority(r["host"], r["port"], "https") == target.lower():
                if case["origin_cert"] == "ok":
                    return (r["leaf"], "trusted")
                if case["origin_cert"] == "untrusted":
                    return (r["leaf"], "untrusted")
                if case["origin_cert"] == "proxy-cert":
                    return ("proxy", "trusted")
                return ("other", "trusted")
        return ("other", "trusted")

    def script(i: int) -> dict[str, typing.Any]:
        return {"role": "proxy", "tls": proxy_leaf if ps == "https" else None, "connect_reply": case["connect_replies"][i % 3], "inner_for": inner_for, "inner": ("exact", "trusted"), "close_after": case["close_after"], "silent_close": case["silent_close"], "redirect_map": redirect_map}

    redirect_map = {r["path"]: f"{r['redirect']['scheme']}://{r['redirect']['host']}" + (f":{r['redirect']['port']}" if r["redirect"]["port"] else "") + r["redirect"]["path"] for r in reqs if r.get("redirect")}
    ph = PROXY_HEADER_SETS[case["proxy_headers"]]
    outcomes: list[dict[str, typing.Any]] = []
    rec.mon("proxied_run")
    with tlsnet.TLSNet(script, certs) as net, warnings.catch_warnings():
        warnings.simplefilter("ignore")
        kw: dict[str, typing.Any] = {"proxy_headers": dict(ph), "use_forwarding_for_https": case["forwarding"], "ca_certs": certs.ca_file, "retries": False}
        pv = case.get("proxy_verify", "default")
        if pv != "default":
            import hashlib

            from urllib3.util.ssl_ import create_urllib3_context

            der = certs.get(*proxy_leaf)["der"]
            if pv == "assert-match":
                kw["proxy_assert_hostname"] = "proxy.test"
            elif pv == "assert-other":
                kw["proxy_assert_hostname"] = "elsewhere.test"
            elif pv == "assert-notproxy":
                kw["proxy_assert_hostname"] = "notproxy.test"
            elif pv == "assert-false":
                kw["proxy_assert_hostname"] = False
            elif pv == "pin-right":
                kw["proxy_assert_fingerprint"] = hashlib.sha256(der).hexdigest()
            elif pv == "pin-wrong":
                kw["proxy_assert_fingerprint"] = hashlib.sha256(der + b"x").hexdigest()
            elif pv in ("shared-ctx-assert", "shared-ctx-pin"):
                del kw["ca_certs"]
                shared = create_urllib3_context()
                shared.load_verify_locations(certs.ca_file)
                kw["proxy_ssl_context"] = shared
                kw["ssl_context"] = shared
                if pv == "shared-ctx-assert":
                    kw["proxy_assert_hostname"] = "proxy.test"
                else:
                    kw["proxy_assert_fingerprint"] = hashlib.sha256(der).hexdigest()
            elif pv in ("ctx-empty+ca_certs", "ctx-empty+ca_cert_data"):
                # the proxy has a context of its own that trusts no CA; the CA bundle given beside it is for origins
                if pv == "ctx-empty+ca_cert_data":
                    del kw["ca_certs"]
                    kw["ca_cert_data"] = certs.ca_data
                kw["proxy_ssl_context"] = create_urllib3_context()
            elif pv in ("ctx-trusting", "ctx-empty"):
                # CAs come from the contexts only: one for the proxy leg, one for the origin
                del kw["ca_certs"]
                pctx = create_urllib3_context()
                if pv == "ctx-trusting":
                    pctx.load_verify_locations(certs.ca_file)
                kw["proxy_ssl_context"] = pctx
                octx = create_urllib3_context()
                octx.load_verify_locations(certs.ca_file)
                kw["ssl_context"] = octx
        url = f"{ps}://{case['proxy_url_form']}"
        pm = urllib3.ProxyManager(url, **kw) if case["ctor"] == "ProxyManager" else urllib3.proxy_from_url(url, **kw)
        proxy_port = 3128 if ":" in case["proxy_url_form"] else (443 if ps == "https" else 80)
        for j, r in enumerate(reqs):
            u = f"{r['scheme']}://{r['host']}" + (f":{r['port']}" if r["port"] else "") + r["path"]
            hdrs = {"Authorization": f"Bearer app-secret-{j}", "Cookie": f"sid=app-secret-{j}"}
            if r.get("redirect"):
                strip = {} if case.get("strip", "default") == "default" else {"remove_headers_on_redirect": []}
                retries: typing.Any = urllib3.Retry(3, redirect=3, **strip)
            else:
                retries = urllib3.Retry(case["retries"], redirect=False) if case["retries"] else False
            out: dict[str, typing.Any] = {"url": u}
            n_before = len(net.listener.log)
            try:
                if r["api"] == "request":
                    resp = pm.request(r["method"], u, headers=hdrs, retries=retries)
                else:
                    resp = pm.urlopen(r["method"], u, headers=hdrs, retries=retries)
                out["status"] = resp.status
                out["body"] = resp.data.decode("latin-1")
            except BaseException as e:  # noqa: BLE001
                if isinstance(e, (KeyboardInterrupt, SystemExit)):
                    raise
                out["exc"] = e
            out["conns"] = list(range(n_before, len(net.listener.log)))
            outcomes.append(out)
            # let the server finish a scripted close so that the client can see the EOF before its next request
            if case["close_after"] is not None:
                for e in list(net.listener.log):
                    if len(e.get("origin_requests", [])) + len(e.get("forwarded", [])) >= case["close_after"]:
                        e["done"].wait(1.0)
        for pool in list(pm.pools._container.values()):
            pool.close()
        pm.clear()
        quiet = net.wait_quiet(2.5)
        log = [dict(e) for e in net.listener.log]
        dials = list(net.dials)
        wraps = list(net.wraps)
    if any(e.get("handler_error") for e in log):
        rec.note_inconclusive("server handler error: " + str([e.get("handler_error") for e in log if e.get("handler_error")])[:200])
        return
    cdesc = case

    def bad(kind: str, obs: typing.Any, msg: str) -> None:
        rec.fail(cdesc, kind, obs, msg)

    # ---- every dial goes to the proxy -----------------------------------------------------------
    rec.mon("dial_target")
    for d in dials:
        if (d[0].lower().rstrip("."), d[1]) != ("proxy.test", proxy_port):
            bad("dialled-outside-the-proxy", {"dial": d}, f"socket opened to {d}, not to the proxy")
            return
    proxy_bad = ps == "https" and not proxy_leg_ok(case)
    if ps == "https":
        rec.count("proxy_leg_" + ("must_fail" if proxy_bad else "ok"))
    tunnel_targets = {authority(r["host"], r["port"], "https") for r in all_hops if want_tunnel(ps, r["scheme"], case["forwarding"])}
    # a secret must stay hidden from the proxy when every hop that can carry it is tunnelled
    secrets_tunnelled = [f"app-secret-{j}" for j, hs in enumerate(hops_of) if all(want_tunnel(ps, h["scheme"], case["forwarding"]) for h in hs)]
    # "app-secret-0" is a prefix of the post-redirect secret "app-secret-0r": search with the terminators it has on the wire
    secrets_tunnelled = [s_ + "\r" for s_ in secrets_tunnelled] + [s_ + " " for s_ in secrets_tunnelled]
    secrets_tunnelled += [f"app-secret-{j}r" for j, hs in enumerate(hops_of) if len(hs) > 1 and want_tunnel(ps, hs[1]["scheme"], case["forwarding"])]
    proxy_only_values = [v for k, v in ph.items()]
    # ---- per-connection discipline --------------------------------------------------------------
    for e in log:
        msgs = e.get("proxy_messages", [])
        if ps == "https":
            rec.mon("proxy_tls")
            # (when urllib3 matches the name or pin itself the handshake completes first; only application bytes count)
            if proxy_bad and e.get("proxy_bytes"):
                bad("bytes-sent-to-unverified-proxy", {"outer_handshake": e.get("outer_handshake"), "proxy_bytes": e.get("proxy_bytes"), "proxy_verify": case.get("proxy_verify", "default"), "first": [(m.get("method"), m.get("target")) for m in msgs[:1]]}, "the proxy failed its own verification but bytes were sent to it")
                return
            if e.get("outer_sni") not in (None, "proxy.test"):
                bad("wrong-sni-to-proxy", {"sni": e.get("outer_sni")}, "TLS to the proxy used a server name other than the proxy's")
                return
        if not msgs:
            continue
        rec.mon("proxy_connection")
        first = msgs[0]
        if "error" in first:
            bad("unparsable-message-at-proxy", {"error": first["error"], "raw": first.get("raw", b"")[:80]}, "the proxy received bytes that are not an HTTP request")
            return
        if first["method"] == "CONNECT":
            rec.mon("tunnel_connection")
            if len(msgs) > 1:
                bad("message-to-proxy-after-connect", {"messages": [(m.get("method"), m.get("target")) for m in msgs]}, "more than the CONNECT was addressed to the proxy on a tunnel connection")
                return
            if first["target"].lower() not in tunnel_targets:
                bad("connect-target-wrong", {"target": first["target"], "expected": sorted(tunnel_targets)}, f"CONNECT {first['target']} is not host:port of a tunnelled destination")
                return
            if first["target"] != first["target"].lower() and first["target"].lower() in tunnel_targets:
                rec.count("connect_target_case_preserved")
            hv = {k.lower(): v for k, v in first["headers"]}
            for k, v in ph.items():
                if hv.get(k.lower()) != v:
                    bad("proxy-header-missing-on-connect", {"header": k, "got": hv.get(k.lower())}, f"configured proxy header {k} not present on CONNECT")
                    return
            for k in ("authorization", "cookie"):
                if k in hv:
                    bad("request-header-on-connect", {"header": k}, "an application request header was sent to the proxy with CONNECT")
                    return
        else:
            rec.mon("forward_connection")
            for m in msgs:
                if "error" in m:
                    bad("unparsable-message-at-proxy", {"error": m["error"]}, "the proxy received bytes that are not an HTTP request")
                    return
                if m["method"] == "CONNECT":
                    bad("connect-on-used-connection", {"messages": [(x.get("method"), x.get("target")) for x in msgs]}, "CONNECT sent on a connection that already carried forwarded requests")
                    return
                t = m["target"]
                if t.startswith("http://"):
                    pass
                elif t.startswith("https://"):
                    if not (ps == "https" and case["forwarding"]):
                        bad("https-forwarded-without-opt-in", {"target": t}, "an https:// request was sent to the proxy in absolute-form although forwarding was not opted into")
                        return
                else:
                    bad("origin-form-to-proxy", {"target": t, "method": m["method"]}, "a request in origin-form was sent to the proxy outside a tunnel (un-tunnelled connection)")
                    return
                hv = {k.lower(): v for k, v in m["headers"]}
                for k, v in ph.items():
                    if hv.get(k.lower()) != v:
                        bad("proxy-header-missing-on-forward", {"header": k, "got": hv.get(k.lower()), "target": t}, f"configured proxy header {k} not present on a forwarded request")
                        return
        # ---- confidentiality -----------------------------------------------------------------
        rec.mon("confidentiality")
        raw = e.get("proxy_raw", b"")
        for s in secrets_tunnelled:
            if s.encode() in raw:
                bad("tunnelled-secret-visible-to-proxy", {"secret": s, "first": (first.get("method"), first.get("target"))}, "bytes of a request that must be tunnelled were readable by the proxy")
                return
        oraw = e.get("origin_raw", b"")
        for v in proxy_only_values:
            if v.encode() in oraw:
                bad("proxy-header-inside-tunnel", {"value": v}, "a proxy header travelled inside the tunnel to the origin")
                return
        for q in e.get("origin_requests", []):
            if "error" in q:
                bad("unparsable-request-in-tunnel", q, "the origin inside the tunnel received a malformed request")
                return
            rec.mon("origin_form")
            if not q["target"].startswith("/"):
                bad("not-origin-form-in-tunnel", {"target": q["target"]}, "the request inside the tunnel is not in origin-form")
                return
        if e.get("connect") and e.get("inner_handshake"):
            rec.mon("inner_sni")
            tgt_host = e["connect"].rsplit(":", 1)[0]
            is_ip = tgt_host.startswith("[") or tgt_host.replace(".", "").isdigit()
            if not is_ip and (e.get("inner_sni") or "").lower() != tgt_host.lower():
                bad("wrong-sni-in-tunnel", {"sni": e.get("inner_sni"), "connect": e["connect"]}, "TLS inside the tunnel did not name the destination")
                return
    # ---- re-tunnelling: a target that was tunnelled, served, closed and served again ------------
    served_by_target: dict[str, int] = {}
    for e in log:
        if e.get("connect") and e.get("origin_requests"):
            served_by_target[e["connect"].lower()] = served_by_target.get(e["connect"].lower(), 0) + 1
    for t, n_served in served_by_target.items():
        if n_served > 1:
            rec.mon("retunnelled_after_close", n_served - 1)
    # ---- per-request outcome --------------------------------------------------------------------
    for j, (r0, out) in enumerate(zip(reqs, outcomes)):
        r = hops_of[j][-1]
        if r is not r0:
            rec.mon("redirect_followed_through_proxy")
        tun = want_tunnel(ps, r["scheme"], case["forwarding"])
        rec.seen("cells", f"{ps}|{r['scheme']}|fwd={case['forwarding']}|{'tunnel' if tun else 'forward'}")
        exc = out.get("exc")
        rec.mon("request_outcome")
        if exc is not None and not isinstance(exc, HTTPError):
            bad("non-urllib3-exception", {"exc": type(exc).__name__, "msg": str(exc)[:120]}, f"request {j} raised {type(exc).__name__}: {exc!s:.100}")
            return
        conns = [log[i] for i in out["conns"]]
        if proxy_bad:
            if exc is None:
                bad("request-succeeded-through-unverified-proxy", {"status": out.get("status")}, "the proxy fails verification but the request succeeded")
                return
            inner: typing.Any = exc.reason if isinstance(exc, MaxRetryError) else exc
            if isinstance(inner, ProxyError) and inner.original_error is not None:
                inner = inner.original_error
            if not isinstance(inner, SSLError):
                bad("proxy-verification-failure-class", {"exc": type(exc).__name__, "inner": type(inner).__name__}, f"failed proxy verification surfaced as {type(inner).__name__}")
                return
            continue
        if tun:
            secret = (f"app-secret-{j}r" if r is not r0 else f"app-secret-{j}").encode()
            seen_at_origin = any(secret in c.get("origin_raw", b"") for c in log)
            refused = [c for c in conns if c.get("connect") and c["cfg"].get("connect_reply") != 200]
            accepted = [c for c in conns if c.get("connect") and c["cfg"].get("connect_reply") == 200]
            if exc is None:
                rec.count("tunnelled_ok")
                if out.get("body") != "origin:" + r["path"]:
                    bad("tunnelled-response-mismatch", {"body": out.get("body"), "expected": "origin:" + r["path"]}, "the response does not come from the origin inside the tunnel")
                    return
                if case["origin_cert"] != "ok":
                    bad("request-sent-to-unverified-origin", {"origin_cert": case["origin_cert"], "status": out.get("status")}, "the origin inside the tunnel fails verification but the request was answered")
                    return
            else:
                rec.count("tunnelled_failed")
                inner = exc.reason if isinstance(exc, MaxRetryError) else exc
                if case["origin_cert"] != "ok" and seen_at_origin:
                    bad("request-sent-to-unverified-origin", {"origin_cert": case["origin_cert"]}, "request bytes reached an origin that fails verification")
                    return
                if refused and not accepted and seen_at_origin:
                    bad("request-sent-after-refused-connect", {"replies": [c["cfg"].get("connect_reply") for c in refused]}, "the proxy refused CONNECT but the request was sent")
                    return
                lastc = [c for c in conns if c.get("connect")][-1:] or [None]
                last_reply = lastc[0]["cfg"].get("connect_reply") if lastc[0] else None
                if lastc[0] is not None and last_reply != 200:
                    rec.mon("refusal_class")
                    if isinstance(last_reply, int):
                        if not isinstance(inner, (ProxyError, SSLError)):
                            bad("refused-connect-class", {"exc": type(exc).__name__, "inner": type(inner).__name__, "reply": last_reply}, f"CONNECT refused with {last_reply} surfaced as {type(inner).__name__}")
                            return
                    elif not isinstance(inner, (ProxyError, SSLError)):
                        # (a reply that is no HTTP status line, or none at all, is a proxy that did not grant the tunnel as well)
                        bad("refused-connect-class", {"exc": type(exc).__name__, "inner": type(inner).__name__, "reply": last_reply, "not_a_status_line": True}, f"CONNECT answered with {last_reply} surfaced as {type(inner).__name__}")
                        return
                elif lastc[0] is not None and case["origin_cert"] != "ok":
                    rec.mon("origin_verification_class")
                    if isinstance(inner, ProxyError) and inner.original_error is not None:
                        inner = inner.original_error
                    if not isinstance(inner, SSLError):
                        bad("origin-verification-failure-class", {"exc": type(exc).__name__, "inner": type(inner).__name__}, f"failed origin verification inside the tunnel surfaced as {type(inner).__name__}")
                        return
                elif accepted and case["origin_cert"] == "ok" and case["close_after"] is None:
                    bad("tunnelled-request-failed", {"exc": type(exc).__name__, "msg": str(exc)[:160]}, "CONNECT accepted, origin verifiable, nothing closed — but the request failed")
                    return
        else:
            if exc is None:
                rec.count("forwarded_ok")
                want = f"{r['scheme']}://"
                if not (out.get("body") or "").startswith("forwarded:" + want):
                    bad("forwarded-response-mismatch", {"body": (out.get("body") or "")[:80]}, "the response to a forwarded request does not echo an absolute-form target of the right scheme")
                    return
                body_t = out["body"][len("forwarded:"):]
                exp_auth = r["host"].lower() + (f":{r['port']}" if r["port"] and r["port"] != (443 if r["scheme"] == "https" else 80) else "")
                got_auth = body_t.split("://", 1)[1].split("/", 1)[0].lower()
                dflt = ":443" if r["scheme"] == "https" else ":80"
                if got_auth.endswith(dflt):
                    got_auth = got_auth[: -len(dflt)]
                if got_auth != exp_auth:
                    bad("forwarded-authority-mismatch", {"target": body_t, "expected_authority": exp_auth}, "the absolute-form target names a different authority than the URL")
                    return
            else:
                rec.count("forwarded_failed")
                if case["close_after"] is None:
                    bad("forwarded-request-failed", {"exc": type(exc).__name__, "msg": str(exc)[:160]}, "a forwarded request failed although the proxy answers every request")
                    return
    if not quiet:
        rec.count("server_side_not_quiet_after_clear")
        import os
        if os.environ.get("VF_DEBUG"):
            print("NOT QUIET", case, [(e["conn"], e["done"].is_set(), e.get("connect"), len(e.get("proxy_messages", [])), e.get("inner_handshake"), len(e.get("origin_requests", []))) for e in log], [type(o.get("exc")).__name__ for o in outcomes])
    del wraps
    if rec.evaluations % 97 == 0:
        rec.sample({"case": {k: case[k] for k in ("proxy_scheme", "forwarding", "proxy_cert", "origin_cert", "connect_replies", "close_after")}, "requests": [o["url"] for o in outcomes],
                    "outcomes": [type(o["exc"]).__name__ if o.get("exc") else o.get("status") for o in outcomes],
                    "proxy_saw": [[(m.get("method"), m.get("target")) for m in e.get("proxy_messages", [])] for e in log], "origin_saw": [[q.get("target") for q in e.get("origin_requests", [])] for e in log]})


def grid_cases() -> typing.Iterator[dict[str, typing.Any]]:
    """The full truth table x CONNECT replies x certificate states, one request each, then 2-request reuse."""
    for ps in ("http", "https"):
        for ds in ("http", "https"):
            for fwd in (False, True):
                for pc in (("ok", "bad-name", "untrusted") if ps == "https" else ("ok",)):
                    for oc in (("ok", "bad-name", "untrusted") if ds == "https" else ("ok",)):
                        for reply in ((200, 403, 407, 502, "garbage", "eof") if ds == "https" else (200,)):
                            for host, port, leaf in (("good.test", None, "exact"), ("[::1]", 8443 if ds == "https" else None, "ip6")):
                                for nreq, close_after in ((1, None), (2, None), (2, 1), (3, 2)):
                                    if nreq > 1 and (reply != 200 and pc == "ok" and oc == "ok") is False and nreq == 3:
                                        continue
                                    reqs = [{"scheme": ds, "host": host, "port": port, "leaf": leaf, "path": f"/secret-{j}?k=app-secret-{j}", "api": "request", "method": "GET"} for j in range(nreq)]
                                    yield {"proxy_scheme": ps, "forwarding": fwd, "proxy_cert": pc, "origin_cert": oc, "connect_replies": [reply] * 3, "proxy_headers": 1, "close_after": close_after, "silent_close": close_after == 1,
                                           "reqs": reqs, "retries": False, "ctor": "ProxyManager", "proxy_url_form": "proxy.test:3128"}


def run_shard(ctx: Ctx, rec: Recorder) -> None:
    certs = tlsnet.Certs()
    try:
        for i, case in enumerate(grid_cases()):
            if not ctx.mine(i):
                continue
            if ctx.quick and ctx.skip(i, 3):
                continue
            rec.case(case)
            run_case(rec, case, certs)
        # a destination that is the https proxy's own host:port, next to forwarded traffic on the same manager
        if ctx.shard == 0:
            for order in ("forward-first", "tunnel-first"):
                for ph in (0, 1, 3):
                    a = {"scheme": "http", "host": "good.test", "port": None, "leaf": "exact", "api": "request", "method": "GET"}
                    b = {"scheme": "https", "host": "proxy.test", "port": 3128, "leaf": "proxy", "api": "request", "method": "GET"}
                    reqs = [dict(a), dict(b)] if order == "forward-first" else [dict(b), dict(a)]
                    for j, r in enumerate(reqs):
                        r["path"] = f"/secret-{j}?k=app-secret-{j}"
                    case = {"proxy_scheme": "https", "forwarding": False, "proxy_cert": "ok", "origin_cert": "ok", "connect_replies": [200, 200, 200], "proxy_headers": ph, "close_after": None, "silent_close": False,
                            "reqs": reqs, "retries": False, "ctor": "ProxyManager", "proxy_url_form": "proxy.test:3128", "proxy_verify": "default"}
                    rec.case(case)
                    rec.mon("destination_is_the_proxy")
                    run_case(rec, case, certs)
        n = ctx.pick(700, 9000)
        for _ in range(n):
            if ctx.out_of_time(0.9):
                rec.count("random_cut_short_by_budget")
                break
            case = random_case(ctx.rng)
            rec.case(case)
            run_case(rec, case, certs)
    finally:
        certs.close()


def replay(case: dict[str, typing.Any], ctx: Ctx, rec: Recorder) -> None:
    certs = tlsnet.Certs()
    try:
        rec.case(case)
        run_case(rec, case, certs)
    finally:
        certs.close()
