"""C15 — what goes on the wire is exactly what the URL says.

Monitor: for each accepted URL four independently derived values are recorded — the dialled (host, port),
the Host header, the server name handed to the TLS layer, the request target — and compared with an
independent reading of the URL; URLs that differ only in scheme/host case or an explicit default port must
reach the same pool object and produce byte-identical requests."""
from __future__ import annotations

import typing
import warnings

from vf import netsim, wire
from vf.core import Ctx, Recorder
from vf.props import c14

DEFAULT_PORT = {"http": 80, "https": 443}
HOSTS = ["h.test", "H.Test", "MiXeD.Example.TEST", "sub.h.test.", "H.TEST.", "1.2.3.4", "127.0.0.1", "[::1]", "[FE80::1]", "[fe80::1%25eth0]", "[FE80::1%25Eth0]", "[2001:db8::1:0]", "bücher.example", "BÜCHER.example", "xn--bcher-kva.example", "a-b.c_d.test", "localhost"]
PORTS = ["", ":80", ":443", ":8080", ":0", ":65535", ":00080", ":1"]
USERINFO = ["", "user@", "user:pw@", "u%40x:p%3Aw@", "@"]
PATHS = ["", "/", "/p", "/a/b/../c", "/a/./b/", "/a%20b", "/a b", "/é", "/%7Euser", "/a//b", "/..", "/p;x=1"]
QUERIES = ["", "?", "?q=1", "?q=a b&r=é", "?a=b?c", "?%zz"]
FRAGS = ["", "#", "#frag", "#a?b/c"]


class Srv:
    def on_request(self, net: netsim.Net, sc: netsim.ServerConn, req: wire.Request) -> None:
        sc.write(wire.build_response(200, body=b"ok"))


def ref_reading(url: str) -> dict[str, typing.Any] | None:
    scheme, rest = url.split("://", 1)
    split = c14.ref_split(url)
    if split is None or "invalid" in split:
        return None
    host_raw = split["host"]
    if host_raw == "":
        return None
    port = split["port"]
    scheme_l = scheme.lower()
    host_norm = c14.norm_host_ref(host_raw)  # lower-cased, IDNA, zone %25 -> %
    after = rest
    cut = len(after)
    for i, ch in enumerate(after):
        if ch in "/?#\\":
            cut = i
            break
    tail = after[cut:]
    tail_nofrag = tail.split("#", 1)[0]
    path, q, query = tail_nofrag.partition("?")
    return {"scheme": scheme_l, "host": host_norm, "port": int(port) if port not in (None, "") else None, "path": path, "query": query if q else None}


def expected(ref: dict[str, typing.Any]) -> dict[str, typing.Any]:
    host = ref["host"]
    bare = host[1:-1] if host.startswith("[") else host  # no brackets
    zoneless = bare.split("%", 1)[0]
    port = ref["port"] if ref["port"] is not None else DEFAULT_PORT[ref["scheme"]]
    host_hdr_host = ("[" + zoneless + "]") if host.startswith("[") else bare
    return {
        "dial_host": bare,  # brackets never; trailing dot and zone kept
        "dial_port": port,
        "host_header_hosts": {host_hdr_host, host_hdr_host.rstrip(".")},  # trailing dot: either
        "host_header_port": None if port == DEFAULT_PORT[ref["scheme"]] else port,
        "sni": zoneless.rstrip("."),
    }


def observe(url: str, proxy: str | None, pm: typing.Any = None) -> dict[str, typing.Any]:
    import urllib3

    with netsim.Net(Srv(), fake_tls="inner") as net:
        own = pm is None
        if own:
            pm = urllib3.ProxyManager(proxy, cert_reqs="CERT_NONE") if proxy else urllib3.PoolManager(cert_reqs="CERT_NONE")
        exc = None
        try:
            with warnings.catch_warnings():
                warnings.simplefilter("ignore")
                pm.request("GET", url, retries=False, redirect=False, headers={"X-Probe": "1"})
        except Exception as e:  # noqa: BLE001
            exc = e
        out: dict[str, typing.Any] = {"exc": exc, "dials": [(d["host"], d["port"]) for d in net.dials], "tls": list(net.tls_wraps), "requests": [], "connects": [], "raw": b"".join(bytes(st.sent) for st in net.states)}
        for st in net.states:
            for r in st.server.requests:
                out["requests"].append(r)
            for r in st.server.connects:
                out["connects"].append(r)
        out["pools"] = list(pm.pools.keys()) if hasattr(pm, "pools") else []
        if own:
            pm.clear()
    return out


def judge(rec: Recorder, url: str, proxy: str | None) -> None:
    from urllib3.exceptions import HTTPError, LocationParseError

    case = {"url": url, "proxy": proxy}
    ref = ref_reading(url)
    if ref is None:
        rec.count("skipped_no_reference_reading")
        return
    o = observe(url, proxy)
    rec.mon("url")
    if o["exc"] is not None:
        if isinstance(o["exc"], (HTTPError, ValueError)) and not o["raw"]:
            rec.count("rejected_by_poolmanager")
            return
        rec.fail(case, "exception-after-io-or-foreign", {"exc": type(o["exc"]).__name__}, f"{type(o['exc']).__name__}: {o['exc']!s:.100}")
        return
    exp = expected(ref)
    tunnel = bool(proxy) and ref["scheme"] == "https"
    forward = bool(proxy) and ref["scheme"] == "http"
    obs: dict[str, typing.Any] = {"scheme": ref["scheme"], "route": "tunnel" if tunnel else ("forward" if forward else "direct"), "host_kind": "ipv6" if ref["host"].startswith("[") else ("ipv4" if ref["host"].replace(".", "").isdigit() else "name"), "port_in_url": ref["port"]}
    if len(o["requests"]) != 1:
        rec.fail(case, "request-count", dict(obs, n=len(o["requests"])), f"{len(o['requests'])} requests seen")
        return
    req = o["requests"][0]
    # ---- dial ----
    rec.mon("dial")
    dial = o["dials"][0]
    if proxy:
        if dial != ("proxy.test", 3128):
            rec.fail(case, "proxy-not-dialled", dict(obs, dial=list(dial)), f"dialled {dial} instead of the proxy")
            return
        if tunnel:
            if len(o["connects"]) != 1:
                rec.fail(case, "connect-count", dict(obs, n=len(o["connects"])), "expected exactly one CONNECT")
                return
            authority = o["connects"][0].target.decode("latin-1")
            want_auth_host = ("[" + exp["dial_host"].split("%")[0] + "]") if ref["host"].startswith("[") else exp["dial_host"]
            wants = {f"{want_auth_host}:{exp['dial_port']}", f"{want_auth_host.rstrip('.')}:{exp['dial_port']}"}
            if ref["host"].startswith("["):
                wants |= {f"[{exp['dial_host']}]:{exp['dial_port']}", f"[{exp['dial_host'].replace('%', '%25')}]:{exp['dial_port']}"}
            if authority.lower() not in {w.lower() for w in wants}:
                rec.fail(case, "connect-authority-wrong", dict(obs, got=authority, want=sorted(wants)), f"CONNECT {authority}, URL says {sorted(wants)}")
                return
    else:
        if dial[0] != exp["dial_host"] or dial[1] != exp["dial_port"]:
            rec.fail(case, "dial-address-wrong", dict(obs, got=list(dial), want=[exp["dial_host"], exp["dial_port"]]), f"dialled {dial}, URL says ({exp['dial_host']!r}, {exp['dial_port']})")
            return
    # ---- Host header ----
    rec.mon("host_header")
    hosts = wire.header_get(req.headers, b"host")
    if len(hosts) != 1:
        rec.fail(case, "host-header-count", dict(obs, n=len(hosts)), f"{len(hosts)} Host headers")
        return
    hv = hosts[0].decode("latin-1")
    ok_hosts = set()
    for h in exp["host_header_hosts"]:
        ok_hosts.add(h if exp["host_header_port"] is None else f"{h}:{exp['host_header_port']}")
        if ref["port"] is not None and exp["host_header_port"] is None and forward:
            ok_hosts.add(f"{h}:{ref['port']}")  # a forwarded request may name the explicit default port
    if hv not in ok_hosts:
        rec.fail(case, "host-header-wrong", dict(obs, got=hv, want=sorted(ok_hosts), zone_in_url="%" in ref["host"], got_has_zone="%" in hv, double_bracket=hv.startswith("[["), port_dropped=(not hv.rsplit("]", 1)[-1].startswith(":")) if "]" in hv else (":" not in hv)), f"Host: {hv!r}, URL says {sorted(ok_hosts)}")
        return
    # ---- TLS server name ----
    if ref["scheme"] == "https":
        rec.mon("tls_server_name")
        wraps = [w for w in o["tls"] if not w.get("tls_in_tls")] or o["tls"]
        origin_wrap = o["tls"][-1] if o["tls"] else None
        if origin_wrap is None:
            rec.fail(case, "no-tls", obs, "https URL but the TLS layer was never engaged")
            return
        if origin_wrap["server_hostname"] != exp["sni"]:
            rec.fail(case, "tls-server-name-wrong", dict(obs, got=origin_wrap["server_hostname"], want=exp["sni"]), f"TLS server_hostname {origin_wrap['server_hostname']!r}, URL says {exp['sni']!r}")
            return
    elif o["tls"]:
        rec.fail(case, "tls-on-http", obs, "TLS engaged for an http URL")
        return
    # ---- request target ----
    rec.mon("request_target")
    t = req.target.decode("latin-1")
    if forward:
        if not t.lower().startswith("http://"):
            rec.fail(case, "forward-target-not-absolute", dict(obs, got=t), f"forwarded request target {t!r}")
            return
        rest = t.split("://", 1)[1]
        cut = min([i for i in (rest.find("/"), rest.find("?")) if i >= 0] or [len(rest)])
        authority, pathq = rest[:cut], rest[cut:]
        if "@" in authority:
            rec.fail(case, "userinfo-on-the-wire", dict(obs, got=t), f"userinfo in the request target {t!r}")
            return
        if pathq.startswith("?") or pathq == "":
            pathq = "/" + pathq
    else:
        pathq = t
    if "#" in t:
        rec.fail(case, "fragment-on-the-wire", dict(obs, got=t), f"fragment in the request target {t!r}")
        return
    if not pathq.startswith("/"):
        rec.fail(case, "target-not-origin-form", dict(obs, got=t), f"request target {t!r}")
        return
    from urllib.parse import unquote_to_bytes

    from vf.props.c10 import independent_path_normalise

    raw_path = ref["path"] or "/"
    wants = set()
    for p in {raw_path, independent_path_normalise(raw_path) or "/"}:
        w = p + ("?" + ref["query"] if ref["query"] is not None else "")
        wants.add(w.encode("utf-8"))
        wants.add(unquote_to_bytes(w))
    import re as _re

    def squeeze(b: bytes) -> bytes:
        return _re.sub(rb"/+", b"/", b)

    def canon(b: bytes) -> bytes:
        return _re.sub(rb"%[0-9a-fA-F]{2}", lambda m: m.group(0).upper(), b)

    dec = unquote_to_bytes(pathq)
    had_dots = any(seg in (".", "..") for seg in raw_path.split("/"))
    if not (dec in wants or pathq.encode("latin-1") in wants or canon(dec) in {canon(w) for w in wants} or (had_dots and squeeze(dec) in {squeeze(w) for w in wants})):
        rec.fail(case, "request-target-wrong", dict(obs, got=t, want=sorted(x.decode("utf-8", "replace") for x in wants)[:3]), f"request target {t!r} is not the URL's path and query {sorted(wants)[:2]!r}")
        return
    if any(k.lower() == b"authorization" for k, _ in req.headers):
        rec.fail(case, "userinfo-turned-into-header", obs, "userinfo became an Authorization header")
    if rec.evaluations % 499 == 0:
        rec.sample({"url": url, "proxy": proxy, "dial": o["dials"], "host_header": hv, "tls_server_name": [w["server_hostname"] for w in o["tls"]], "target": t})


def judge_variants(rec: Recorder, base: str, variants: list[str], proxy: str | None) -> None:
    """URLs that differ only in scheme/host case or an explicit default port: same pool, identical bytes."""
    import urllib3

    with warnings.catch_warnings():
        warnings.simplefilter("ignore")
        pm = urllib3.ProxyManager(proxy, cert_reqs="CERT_NONE") if proxy else urllib3.PoolManager(cert_reqs="CERT_NONE")
        try:
            pools = [pm.connection_from_url(u) for u in [base] + variants]
        except Exception as e:  # noqa: BLE001
            rec.count("variants_rejected")
            return
        rec.mon("same_pool")
        if any(p is not pools[0] for p in pools):
            rec.fail({"base": base, "variants": variants, "proxy": proxy}, "variant-different-pool", {"n_pools": len({id(p) for p in pools})}, f"{[base] + variants} map to {len({id(p) for p in pools})} pools")
            return
        raws = []
        for u in [base] + variants:
            o = observe(u, proxy)
            if o["exc"] is not None:
                rec.count("variants_rejected")
                return
            raws.append(o["raw"])
        rec.mon("same_bytes")
        if forward_like(proxy, base):
            # absolute-form targets legitimately spell the URL as given apart from normalisation: compare after lower-casing scheme://host and dropping an explicit default port
            pass
        if any(r != raws[0] for r in raws):
            which = next(i for i, r in enumerate(raws) if r != raws[0])
            rec.fail({"base": base, "variants": variants, "proxy": proxy}, "variant-different-bytes", {"variant": ([base] + variants)[which], "first": raws[0][:120], "other": raws[which][:120]}, f"{([base] + variants)[which]!r} produced different request bytes than {base!r}")
        pm.clear()


def judge_manager_sequence(rec: Recorder, urls: list[str], proxy: str | None, shared_headers: bool, container: str = "dict") -> None:
    """Several URLs through ONE manager (optionally with one caller-owned header dict reused for every call): every
    request must still name its own URL's host, and neither the manager's defaults nor the caller's dict may change."""
    import urllib3

    from urllib3._collections import HTTPHeaderDict

    case = {"urls": urls, "proxy": proxy, "shared_headers": shared_headers, "container": container}
    mk = (lambda d: HTTPHeaderDict(d)) if container == "hd" else (lambda d: dict(d))
    caller = mk({"X-Caller": "c"})
    with netsim.Net(Srv(), fake_tls="inner") as net, warnings.catch_warnings():
        warnings.simplefilter("ignore")
        pm = urllib3.ProxyManager(proxy, cert_reqs="CERT_NONE", headers=mk({"X-Default": "d"})) if proxy else urllib3.PoolManager(cert_reqs="CERT_NONE", headers=mk({"X-Default": "d"}))
        defaults_before = dict(pm.headers.items())
        seen = []
        for u in urls:
            mark = sum(len(st.server.requests) for st in net.states)
            try:
                pm.request("GET", u, retries=False, redirect=False, **({"headers": caller} if shared_headers else {}))
            except Exception as e:  # noqa: BLE001
                rec.count("sequence_url_rejected")
                return
            evs = [e for e in net.events if e[1] == "request"]
            total = sum(len(st.server.requests) for st in net.states)
            seen.append(net.states[evs[-1][2]].server.requests[evs[-1][3]] if total > mark and evs else None)
        rec.mon("manager_sequence")
        for u, r in zip(urls, seen):
            ref = ref_reading(u)
            if ref is None or r is None:
                continue
            exp = expected(ref)
            hv = b",".join(wire.header_get(r.headers, b"host")).decode("latin-1")
            ok = set()
            for h in exp["host_header_hosts"]:
                ok |= {h, f"{h}:{exp['dial_port']}"} if exp["host_header_port"] is None else {f"{h}:{exp['host_header_port']}"}
            if hv not in ok:
                rec.fail(case, "host-header-of-another-request", {"url": u, "got": hv, "want": sorted(ok), "route": "proxy" if proxy else "direct", "shared_headers": shared_headers}, f"request for {u!r} carried Host: {hv!r}")
                return
        if dict(pm.headers.items()) != defaults_before:
            rec.fail(case, "manager-default-headers-changed", {"after": dict(pm.headers.items())}, f"the manager's default headers changed to {dict(pm.headers.items())!r}")
            return
        if dict(caller.items()) != {"X-Caller": "c"}:
            rec.fail(case, "caller-headers-mutated", {"after": dict(caller.items())}, f"the caller's header object was changed to {dict(caller.items())!r}")
        pm.clear()


class RedirSrv:
    """Answers every request whose target contains '/hop' with a 302 to ``location``; anything else with 200."""

    def __init__(self, location: str):
        self.location = location

    def on_request(self, net: netsim.Net, sc: netsim.ServerConn, req: wire.Request) -> None:
        if b"/hop" in req.target:
            sc.write(wire.build_response(302, "Found", headers=[("Location", self.location)], body=b""))
        else:
            sc.write(wire.build_response(200, body=b"ok"))


def judge_redirect(rec: Recorder, url1: str, url2: str, proxy: str | None, headers_mode: str) -> None:
    """The manager follows a redirect from url1 to url2: the follow-up request is a request for url2 and must name
    url2's host in Host, be dialled / tunnelled to url2's host and port, and use url2's TLS server name."""
    import urllib3
    from urllib3.util import Retry

    case = {"redirect": [url1, url2], "proxy": proxy, "headers": headers_mode}
    ref2 = ref_reading(url2)
    if ref2 is None or ref_reading(url1) is None:
        return
    exp = expected(ref2)
    with netsim.Net(RedirSrv(url2), fake_tls="inner") as net, warnings.catch_warnings():
        warnings.simplefilter("ignore")
        pm = urllib3.ProxyManager(proxy, cert_reqs="CERT_NONE") if proxy else urllib3.PoolManager(cert_reqs="CERT_NONE")
        kw: dict[str, typing.Any] = {}
        if headers_mode == "caller":
            kw["headers"] = {"X-Caller": "c"}
        elif headers_mode == "caller-host-virtual":
            kw["headers"] = {"Host": "virtual.example"}  # an explicit Host that names neither URL is the caller's business
        try:
            r = pm.request("GET", url1, retries=Retry(3, redirect=2), **kw)
        except Exception as e:  # noqa: BLE001
            rec.count("redirect_case_rejected")
            return
        evs = [e for e in net.events if e[1] == "request"]
        if r.status != 200 or len(evs) < 2:
            rec.count("redirect_not_followed")
            return
        rec.mon("redirect_follow_up")
        st = net.states[evs[-1][2]]
        req = st.server.requests[evs[-1][3]]
        hv = b",".join(wire.header_get(req.headers, b"host")).decode("latin-1")
        if headers_mode == "caller-host-virtual":
            if hv != "virtual.example":
                rec.count("explicit_virtual_host_not_kept")
            pm.clear()
            return
        ok: set[str] = set()
        for h in exp["host_header_hosts"]:
            ok |= {h, f"{h}:{exp['dial_port']}"} if exp["host_header_port"] is None else {f"{h}:{exp['host_header_port']}"}
        tunnelled = bool(proxy) and ref2["scheme"] == "https"
        if hv not in ok:
            route = "tunnel" if tunnelled else ("forward" if proxy else "direct")
            rec.fail(case, "host-header-wrong", {"url": url2, "got": hv, "want": sorted(ok), "route": route, "after_redirect": True, "host_kind": "ipv6" if ref2["host"].startswith("[") else "name", "double_bracket": hv.startswith("[["),
                                                 "names_previous_host": hv.split(":")[0].strip("[]").lower() == (ref_reading(url1) or {}).get("host", "").strip("[]").rstrip(".")}, f"the follow-up request for {url2!r} carried Host: {hv!r}")
            pm.clear()
            return
        if proxy:
            want_dial = ("proxy.test", 3128)
            got_dial = (st.dial["host"], st.dial["port"])
            if got_dial != want_dial:
                rec.fail(case, "dial-mismatch", {"got": got_dial, "want": want_dial, "after_redirect": True}, f"follow-up dialled {got_dial}")
            elif tunnelled:
                tgt = (st.server.tunnel or b"").decode("latin-1").lower()
                host = ref2["host"]
                zoneless = (host[1:-1].split("%", 1)[0]) if host.startswith("[") else host
                want_t = (("[" + zoneless + "]") if host.startswith("[") else host) + f":{exp['dial_port']}"
                if tgt not in {want_t, ("[" + host[1:-1] + "]" if host.startswith("[") else host) + f":{exp['dial_port']}"}:
                    rec.fail(case, "connect-authority-mismatch", {"got": tgt, "want": want_t, "after_redirect": True}, f"follow-up tunnelled to {tgt!r}")
        else:
            got_dial = (st.dial["host"], st.dial["port"])
            if got_dial[0].lower() != exp["dial_host"].lower() or got_dial[1] != exp["dial_port"]:
                rec.fail(case, "dial-mismatch", {"got": got_dial, "want": (exp["dial_host"], exp["dial_port"]), "after_redirect": True}, f"follow-up for {url2!r} dialled {got_dial}")
        pm.clear()


class ClosingSrv:
    """Answers and closes: the pool keeps the connection *object* and has to establish everything again for the next request."""

    def on_request(self, net: netsim.Net, sc: netsim.ServerConn, req: wire.Request) -> None:
        sc.write(wire.build_response(200, body=b"ok", keepalive=False))
        sc.close()


def judge_reconnect_sequence(rec: Recorder, urls: list[str], proxy: str | None) -> None:
    """Several requests to the same origins through ONE manager while the server closes the connection after every answer:
    every request - also one that re-uses a connection object whose socket was closed - is dialled, tunnelled and
    addressed as its URL says."""
    import urllib3

    case = {"reconnect_urls": urls, "proxy": proxy}
    with netsim.Net(ClosingSrv(), fake_tls="inner") as net, warnings.catch_warnings():
        warnings.simplefilter("ignore")
        pm = urllib3.ProxyManager(proxy, cert_reqs="CERT_NONE", maxsize=1) if proxy else urllib3.PoolManager(cert_reqs="CERT_NONE", maxsize=1)
        got = []
        for u in urls:
            try:
                pm.request("GET", u, retries=False, redirect=False)
            except Exception as e:  # noqa: BLE001
                rec.fail(case, "request-failed-after-reconnect", {"url": u, "exc": type(e).__name__, "route": "proxy" if proxy else "direct", "history": urls[: urls.index(u)]}, f"request for {u!r} on a manager whose earlier connections were closed by the server: {type(e).__name__}: {e!s:.100}")
                pm.clear()
                return
            evs = [e for e in net.events if e[1] == "request"]
            st = net.states[evs[-1][2]]
            got.append((u, st.dial["host"], st.dial["port"], st.server.tunnel, st.server.requests[evs[-1][3]]))
        pm.clear()
    rec.mon("reconnect_sequence")
    for u, dh, dp, tunnel, req in got:
        ref = ref_reading(u)
        if ref is None:
            continue
        exp = expected(ref)
        obs = {"url": u, "dial": [dh, dp], "tunnel": tunnel.decode("latin-1") if tunnel else None, "route": "proxy" if proxy else "direct", "history": urls[: urls.index(u)]}
        if proxy:
            if (dh, dp) != ("proxy.test", 3128):
                rec.fail(case, "dial-wrong", obs, f"{u!r} through the proxy dialled {(dh, dp)}")
                return
            if u.startswith("https://"):
                want = f"{exp['dial_host']}:{exp['dial_port']}".lower()
                if tunnel is None or tunnel.decode("latin-1").lower().replace("[", "").replace("]", "") != want.replace("[", "").replace("]", ""):
                    rec.fail(case, "tunnel-target-wrong", dict(obs, want=want), f"{u!r} travelled {'outside any tunnel' if tunnel is None else 'in a tunnel to ' + tunnel.decode('latin-1')} (want CONNECT {want})")
                    return
        elif (dh.lower(), dp) != (str(exp["dial_host"]).lower(), exp["dial_port"]):
            rec.fail(case, "dial-wrong", dict(obs, want=[exp["dial_host"], exp["dial_port"]]), f"{u!r} dialled {(dh, dp)}")
            return


def judge_zone_case(rec: Recorder, urls: list[str]) -> None:
    """Scoped IPv6 literals whose zone ids differ only in letter case name different interfaces (zone ids are opaque and
    interface names case-sensitive): through ONE manager each request must travel on a connection opened to its own
    URL's host, whatever spelling the manager saw first."""
    import urllib3

    case = {"zone_case_urls": urls}
    with netsim.Net(Srv()) as net, warnings.catch_warnings():
        warnings.simplefilter("ignore")
        pm = urllib3.PoolManager()
        used = []
        for u in urls:
            try:
                pm.request("GET", u, retries=False, redirect=False)
            except Exception:  # noqa: BLE001
                rec.count("sequence_url_rejected")
                pm.clear()
                return
            evs = [e for e in net.events if e[1] == "request"]
            used.append(net.states[evs[-1][2]].dial["host"] if evs else None)
        pm.clear()
    rec.mon("zone_case_sequence")
    for u, dialled in zip(urls, used):
        want_zone = u.split("%25", 1)[1].split("]", 1)[0]
        if dialled is None or "%" not in str(dialled) or str(dialled).split("%", 1)[1] != want_zone:
            rec.fail(case, "dialled-another-hosts-connection", {"url": u, "dialled": dialled, "want_zone": want_zone, "history": urls[: urls.index(u)]}, f"request for {u!r} travelled on a connection opened to {dialled!r}")
            return


def forward_like(proxy: str | None, url: str) -> bool:
    return bool(proxy) and url.lower().startswith("http://")


def build_url(scheme: str, ui: str, host: str, port: str, path: str, q: str, frag: str) -> str:
    return f"{scheme}://{ui}{host}{port}{path}{q}{frag}"


def prime_other_schemes(rec: Recorder) -> None:
    """Every host spelling used below is first parsed under schemes whose hosts are not normalised (a proxy URL, a
    websocket or ftp URL seen earlier in the process): what an http(s) URL puts on the wire must not depend on that."""
    from urllib3.util import parse_url

    for h in HOSTS:
        for sc in ("ws", "ftp", "socks5h"):
            for port in ("", ":8080"):
                try:
                    parse_url(f"{sc}://{h}{port}/x")
                except Exception:  # noqa: BLE001
                    pass
                rec.mon("primed_other_scheme")


def run_shard(ctx: Ctx, rec: Recorder) -> None:
    rng = ctx.rng
    prime_other_schemes(rec)
    idx = 0
    # (i) systematic: every host form x port form x scheme, plain path; direct and via proxy
    for scheme in ("http", "https"):
        for host in HOSTS:
            for port in PORTS:
                for proxy in (None, "http://proxy.test:3128"):
                    idx += 1
                    if not ctx.mine(idx):
                        continue
                    if scheme == "https" and ctx.quick and ctx.skip(idx, 3):
                        continue  # each https case builds a real SSLContext (about 30 ms)
                    url = build_url(scheme, "", host, port, "/p/q", "?x=1", "#f")
                    rec.case(["sys", url, proxy])
                    judge(rec, url, proxy)
    rec.exhaustive_parts.append(f"{len(HOSTS)} host forms x {len(PORTS)} port forms x http/https x direct/proxy")
    # (ii) path / query / fragment / userinfo forms over http (direct and forwarded)
    for ui in USERINFO:
        for path in PATHS:
            for q in QUERIES:
                for frag in FRAGS:
                    idx += 1
                    if not ctx.mine(idx) or (ctx.quick and ctx.skip(idx, 2)):
                        continue
                    url = build_url("http", ui, "h.test", "", path, q, frag)
                    rec.case(["form", url])
                    judge(rec, url, None)
                    if (not ctx.skip(idx, 3)):
                        judge(rec, url, "http://proxy.test:3128")
    # (iii) case / default-port variants
    vi = 0
    for scheme in ("http", "https"):
        for host in ("h.test", "sub.h.test", "[fe80::1]", "1.2.3.4", "xn--bcher-kva.example"):
            for port in ("", ":8080"):
                vi += 1
                if not ctx.mine(vi) or (scheme == "https" and ctx.quick and vi % 2):
                    continue
                base = build_url(scheme, "", host, port, "/a/b", "?q=1", "")
                variants = [build_url(scheme.upper(), "", host.upper() if not host.startswith("xn--") else host.upper(), port, "/a/b", "?q=1", ""), build_url(scheme.capitalize(), "", host.title(), port, "/a/b", "?q=1", "#frag")]
                if port == "":
                    variants.append(build_url(scheme, "", host, f":{DEFAULT_PORT[scheme]}", "/a/b", "?q=1", ""))
                rec.case(["variants", base])
                judge_variants(rec, base, variants, None)
                if scheme == "http":
                    # forwarded through a proxy the same holds: an explicit default port changes neither target nor Host
                    judge_variants(rec, base, variants, "http://proxy.test:3128")
                    if port == "":
                        # ... and an empty path is sent as "/"
                        judge_variants(rec, build_url(scheme, "", host, port, "/", "?q=1", ""), [build_url(scheme, "", host, port, "", "?q=1", ""), build_url(scheme, "", host, f":{DEFAULT_PORT[scheme]}", "", "?q=1", "")], "http://proxy.test:3128")
                        judge_variants(rec, build_url(scheme, "", host, port, "/", "", ""), [build_url(scheme, "", host, port, "", "", "")], "http://proxy.test:3128")
    # (iii-b) several origins through one manager
    seqs = [["http://alpha.test/a", "http://beta.test:8080/b?x=1", "http://alpha.test/c"], ["http://h.test/1", "https://s.test/2", "http://[::1]:81/3"], ["http://beta.test:8080/b", "http://ALPHA.test/a#f"]]
    si = 0
    for seq in seqs:
        for proxy in (None, "http://proxy.test:3128"):
            for shared in (False, True):
                si += 1
                if ctx.mine(si):
                    for container in ("dict", "hd"):
                        rec.case(["mgr-seq", seq, proxy, shared, container])
                        judge_manager_sequence(rec, seq, proxy, shared, container)
    if ctx.shard == 0:
        for seq in (["https://s.test/1", "https://s.test/2", "https://s.test/3"], ["https://s.test:8443/1", "http://h.test/2", "https://s.test:8443/3", "http://h.test/4"], ["http://h.test/1", "http://h.test/2"], ["https://[::1]:8443/1", "https://[::1]:8443/2"]):
            for proxy in (None, "http://proxy.test:3128"):
                rec.case(["reconnect", seq, proxy])
                judge_reconnect_sequence(rec, seq, proxy)
    if ctx.shard == 0:
        for zs in (["http://[fe80::1%25eth0]:8080/a", "http://[fe80::1%25ETH0]:8080/b"], ["http://[fe80::1%25ETH0]/a", "http://[fe80::1%25eth0]/b", "http://[fe80::1%25Eth0]/c"], ["http://[FE80::1%25eth0]/a", "http://[fe80::1%25eth0]/b"]):
            rec.case(["zone-case", zs])
            judge_zone_case(rec, zs)
    # (iii-c) redirects followed by the manager: the follow-up is a request for the new URL
    firsts = ["http://alpha.test/hop", "http://alpha.test:8080/hop?x=1", "https://alpha.test/hop", "http://[::1]:81/hop", "http://ALPHA.test./hop", "http://alpha.test:80/hop", "https://alpha.test:443/hop?x=1"]
    seconds = ["http://beta.test/final", "https://beta.test/final?y=2", "http://beta.test:9090/final", "https://beta.test:8443/final", "http://alpha.test:9090/final", "https://alpha.test/final", "http://[2001:db8::1:0]/final", "https://[::1]:8443/final", "http://BETA.test/final#frag", "http://alpha.test/final", "http://beta.test:80/final", "http://beta.test"]
    ri = 0
    for u1 in firsts:
        for u2 in seconds:
            for proxy in (None, "http://proxy.test:3128"):
                for hm in ("none", "caller", "caller-host-virtual"):
                    ri += 1
                    if not ctx.mine(ri) or (hm == "caller-host-virtual" and ri % 5):
                        continue
                    rec.case(["redirect", u1, u2, proxy, hm])
                    judge_redirect(rec, u1, u2, proxy, hm)
    # (iv) random assembly
    n = ctx.pick(1500, 60000)
    for i in range(n):
        if ctx.out_of_time(0.9):
            rec.count("random_cut_short_by_budget")
            break
        scheme = "http" if rng.random() < (0.85 if ctx.quick else 0.6) else "https"
        url = build_url(scheme if rng.random() < 0.8 else scheme.upper(), rng.choice(USERINFO), rng.choice(HOSTS), rng.choice(PORTS), rng.choice(PATHS), rng.choice(QUERIES), rng.choice(FRAGS))
        proxy = "http://proxy.test:3128" if rng.random() < 0.3 else None
        rec.case(["rand", url, proxy])
        judge(rec, url, proxy)


def replay(case: dict[str, typing.Any], ctx: Ctx, rec: Recorder) -> None:
    rec.case(case)
    if "url" in case:
        judge(rec, case["url"], case.get("proxy"))
    elif "redirect" in case:
        judge_redirect(rec, case["redirect"][0], case["redirect"][1], case.get("proxy"), case.get("headers", "none"))
    elif "urls" in case:
        judge_manager_sequence(rec, case["urls"], case.get("proxy"), case.get("shared_headers", False), case.get("container", "dict"))
    else:
        judge_variants(rec, case["base"], case["variants"], case.get("proxy"))
