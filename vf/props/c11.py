"""C11 — request bodies are framed exactly and re-sent identically.

Monitor: per attempt, the request bytes recorded on the in-memory socket are decoded by the independent
framing parser (exactly one of Content-Length / chunked, payload equality with the body's bytes) and
attempt n is compared with attempt 1 across retries and redirects."""
from __future__ import annotations

import array
import io
import os
import tempfile
import typing

from vf import netsim, wire
from vf.core import Ctx, Recorder

BS = 64
SIZES = [0, 1, BS - 1, BS, BS + 1, 5 * BS]
NO_BODY_METHODS = {"GET", "HEAD", "DELETE", "TRACE", "OPTIONS", "CONNECT"}
KINDS = ["textfile-readline", "textfile-next", "textfile-read3", "textfile-readline-big", "none", "bytes", "bytearray", "memoryview", "array", "array-H", "memoryview-I", "str", "str-nonascii", "bytesio", "stringio", "binfile", "binfile-offset", "binfile-eof", "textfile", "readonly", "tell-raises", "unseekable", "generator", "list", "list-empties", "iter-str", "tuple-bytes", "shortreads", "shortreads-raw"]
ONE_SHOT = {"generator", "readonly"}
METHODS = ["GET", "HEAD", "DELETE", "OPTIONS", "POST", "PUT", "PATCH", "QUERY"]
HISTORIES = ["early503-ok", "early307-ok", "early503-early307-ok", "ok", "reset-ok", "eof-ok", "503-ok", "307-ok", "308-ok", "301-ok", "303-ok", "503-307-ok", "sendreset0-ok", "sendreset1-ok", "503-503-ok", "307-307-ok"]


def content(n: int, text: bool = False) -> bytes:
    base = ("héllo-wörld-" if text else "body-bytes-") * (n // 8 + 2)
    b = base.encode("utf-8")[:n]
    if text:
        # cut at a character boundary
        while True:
            try:
                b.decode("utf-8")
                break
            except UnicodeDecodeError:
                b = b[:-1]
    return b


class ReadOnly:
    """file-like with read() only: no tell, no seek"""

    def __init__(self, data: bytes):
        self._f = io.BytesIO(data)

    def read(self, n: int = -1) -> bytes:
        return self._f.read(n)


class TellRaises(io.BytesIO):
    def tell(self) -> int:
        raise OSError("tell not supported")


class ShortReads(io.BytesIO):
    """Seekable stream that, like a pipe or an unbuffered raw file, may return fewer bytes than asked before EOF."""

    def read(self, n: int | None = -1) -> bytes:  # type: ignore[override]
        if n is None or n < 0:
            return super().read(n)
        return super().read(min(n, 7 if self.tell() % 2 == 0 else 11))


class RawShort(io.RawIOBase):
    """io.RawIOBase subclass: read() goes through readinto() which delivers at most 9 bytes per call."""

    def __init__(self, data: bytes):
        super().__init__()
        self._data, self._pos = data, 0

    def readable(self) -> bool:
        return True

    def seekable(self) -> bool:
        return True

    def tell(self) -> int:
        return self._pos

    def seek(self, pos: int, whence: int = 0) -> int:
        self._pos = pos if whence == 0 else (self._pos + pos if whence == 1 else len(self._data) + pos)
        return self._pos

    def readinto(self, b: typing.Any) -> int:
        chunk = self._data[self._pos : self._pos + min(len(b), 9)]
        b[: len(chunk)] = chunk
        self._pos += len(chunk)
        return len(chunk)


class Unseekable(io.BytesIO):
    def seek(self, *a: typing.Any) -> int:
        raise OSError("not seekable")

    def seekable(self) -> bool:
        return False


def make_body(kind: str, size: int, tmpdir: str) -> tuple[typing.Any, bytes, typing.Callable[[], None]]:
    """(body object, bytes that attempt 1 must carry, cleanup)"""
    data = content(size)
    noop = lambda: None  # noqa: E731
    if kind == "none":
        return None, b"", noop
    if kind == "bytes":
        return data, data, noop
    if kind == "bytearray":
        return bytearray(data), data, noop
    if kind == "memoryview":
        return memoryview(data), data, noop
    if kind == "array":
        return array.array("B", data), data, noop
    if kind == "array-H":
        # buffer with 2-byte items: lengths must be counted in bytes, not items
        d2 = data + b"\x00" * (len(data) % 2)
        return array.array("H", d2), d2, noop
    if kind == "memoryview-I":
        d4 = data + b"\x00" * (-len(data) % 4)
        return memoryview(d4).cast("I"), d4, noop
    if kind == "str":
        return data.decode("ascii"), data, noop
    if kind == "str-nonascii":
        t = content(size, text=True)
        return t.decode("utf-8"), t, noop
    if kind == "bytesio":
        return io.BytesIO(data), data, noop
    if kind == "stringio":
        t = content(size, text=True)
        return io.StringIO(t.decode("utf-8")), t, noop
    if kind in ("textfile-readline", "textfile-next", "textfile-read3", "textfile-readline-big"):
        # a text-mode file from which the caller has already consumed something through the text layer (a CSV header, a
        # few characters): the text layer has read ahead, so the position of the underlying buffer is not the body's position
        t = content(size, text=True)
        if kind.endswith("-big"):
            t = t + ("\n" + "row-\u00e9-0123456789" * 3).encode("utf-8") * 700  # several read-ahead chunks
        head = b"" if kind == "textfile-read3" else "header-line;\u00fc\n".encode("utf-8")
        path = os.path.join(tmpdir, f"b{kind}{size}")
        with open(path, "wb") as fh:
            fh.write(head + t)
        f = open(path, "r", encoding="utf-8", newline="")
        if kind == "textfile-next":
            next(f)  # tell() is disabled after next(): the body can be sent once, not again
        elif kind == "textfile-read3":
            skipped = f.read(3)
            t = t[len(skipped.encode("utf-8")) :]
        else:
            f.readline()
        return f, t, f.close
    if kind in ("binfile", "binfile-offset", "binfile-eof", "textfile"):
        path = os.path.join(tmpdir, f"b{kind}{size}")
        if kind == "textfile":
            t = content(size, text=True)
            with open(path, "wb") as fh:
                fh.write(t)
            f: typing.Any = open(path, "r", encoding="utf-8", newline="")
            return f, t, f.close
        with open(path, "wb") as fh:
            fh.write(data)
        f = open(path, "rb")
        if kind == "binfile-offset":
            k = min(3, size)
            f.seek(k)
            return f, data[k:], f.close
        if kind == "binfile-eof":
            f.seek(0, 2)
            return f, b"", f.close
        return f, data, f.close
    if kind == "shortreads":
        return ShortReads(data), data, noop
    if kind == "shortreads-raw":
        return RawShort(data), data, noop
    if kind == "readonly":
        return ReadOnly(data), data, noop
    if kind == "tell-raises":
        return TellRaises(data), data, noop
    if kind == "unseekable":
        return Unseekable(data), data, noop
    pieces = [data[i : i + 10] for i in range(0, len(data), 10)]
    if kind == "generator":
        return (p for p in pieces), data, noop
    if kind == "list":
        return pieces, data, noop
    if kind == "list-empties":
        withempties: list[bytes] = [b""]
        for p in pieces:
            withempties += [p, b""]
        return withempties, data, noop
    if kind == "iter-str":
        t = content(size, text=True).decode("utf-8")
        return [t[i : i + 7] for i in range(0, len(t), 7)], t.encode("utf-8"), noop
    if kind == "tuple-bytes":
        return tuple(pieces), data, noop
    raise ValueError(kind)


def history_outcomes(h: str) -> list[dict[str, typing.Any]]:
    out = []
    for step in h.split("-"):
        if step == "ok":
            out.append({"k": "resp", "status": 200, "body": "done"})
        elif step == "reset":
            out.append({"k": "recv", "err": "reset"})
        elif step == "eof":
            out.append({"k": "recv", "err": "eof"})
        elif step in ("sendreset0", "sendreset1"):
            out.append({"k": "send", "err": "ECONNRESET", "at": int(step[-1])})
        elif step == "503":
            out.append({"k": "resp", "status": 503, "body": "busy"})
        elif step.startswith("early"):
            # answered (and closed) after the head, while the body is still being written: early503 / early307
            st_ = int(step[5:])
            out.append({"k": "early", "status": st_, "headers": [["Retry-After", "0"]] if st_ == 503 else [["Location", "/next?hop=1"]], "at": 2 if step.endswith("x") else 1, "err": "EPIPE"})
        else:
            out.append({"k": "resp", "status": int(step), "headers": [["Location", "/next?hop=1"]], "body": "moved"})
    return out


def run_case(rec: Recorder, kind: str, size: int, method: str, chunked: bool, hist: str, via: str, tmpdir: str) -> None:
    import urllib3
    from urllib3.exceptions import HTTPError, UnrewindableBodyError
    from urllib3.util import Retry

    case = {"kind": kind, "size": size, "method": method, "chunked": chunked, "history": hist, "via": via}
    body, want, cleanup = make_body(kind, size, tmpdir)
    script = netsim.AttemptScript(history_outcomes(hist))
    retry = Retry(total=6, status_forcelist=[503], allowed_methods=None, backoff_factor=0)
    exc: BaseException | None = None
    try:
        with netsim.Net(script) as net:
            try:
                if via == "pool":
                    client: typing.Any = urllib3.HTTPConnectionPool("b.test", 80, maxsize=1, retries=retry, blocksize=BS)
                    client.urlopen(method, "/upload", body=body, chunked=chunked, retries=retry)
                    client.close()
                else:
                    client = urllib3.PoolManager(retries=retry, blocksize=BS)
                    client.urlopen(method, "http://b.test/upload", body=body, chunked=chunked, retries=retry)
                    client.clear()
            except BaseException as e:  # noqa: BLE001
                if isinstance(e, (KeyboardInterrupt, SystemExit)):
                    raise
                exc = e
            # what went on the wire, per connection, in arrival order
            attempts: list[tuple[wire.Request | None, str | None, bytes]] = []
            order: list[tuple[int, int, typing.Any]] = []
            for ev in net.events:
                if ev[1] == "request":
                    order.append((ev[0], ev[2], net.states[ev[2]].server.requests[ev[3]]))
            reqs = [r for _, _, r in sorted(order, key=lambda x: x[0])]
            garbled = [(st.index, st.server.garbled) for st in net.states if st.server.garbled]
            partial = [(st.index, bytes(st.server.inbuf)) for st in net.states if st.server.inbuf and not st.server.garbled]
    finally:
        cleanup()
    rec.mon("case")
    obs = {"kind": kind, "method": method, "history": hist, "via": via, "chunked": chunked, "size": size, "exc": type(exc).__name__ if exc else None}
    if garbled:
        rec.fail(case, "request-not-parseable", dict(obs, why=garbled[0][1][:80]), f"strict parser: {garbled[0][1]}")
        return
    if not reqs and exc is None:
        rec.fail(case, "no-request-seen", obs, "call returned but no request reached the server")
        return
    # --- attempt 1: framing ---
    if reqs:
        r1 = reqs[0]
        rec.mon("framing")
        cl = wire.header_get(r1.headers, b"content-length")
        te = wire.header_get(r1.headers, b"transfer-encoding")
        if kind == "none":
            if chunked:
                ok = bool(te) and not cl and r1.body == b""
                why = "chunked=True without body must send an empty chunked body"
            elif method in NO_BODY_METHODS:
                ok = not cl and not te
                why = "body-less request of a method not expecting a body must be unframed"
            else:
                ok = cl == [b"0"] and not te
                why = "body-less request must carry Content-Length: 0"
            if not ok:
                rec.fail(case, "bodyless-framing", dict(obs, cl=cl, te=te), f"{why}; got CL={cl} TE={te}")
                return
        else:
            if bool(cl) == bool(te) or len(cl) > 1 or len(te) > 1:
                rec.fail(case, "not-exactly-one-framing", dict(obs, cl=cl, te=te), f"CL={cl} TE={te}")
                return
            if chunked and not te:
                rec.fail(case, "chunked-not-honoured", dict(obs, cl=cl, te=te), "chunked=True but no Transfer-Encoding")
                return
            rec.mon("payload_equal")
            if r1.body != want:
                early_before = sum(1 for l in script.log if l["via"] == "early-response")
                rec.fail(case, "payload-differs", dict(obs, got=len(r1.body), want=len(want), attempt=1, after_early_response=early_before > 0, is_suffix=want.endswith(r1.body)), f"first complete request carried {len(r1.body)} bytes, body has {len(want)}; first bytes {r1.body[:40]!r} vs {want[:40]!r}")
                return
            if te and any(len(c) == 0 for c in r1.chunks):
                rec.fail(case, "empty-chunk-inside-body", obs, "zero-length chunk inside the body")
                return
    # --- later attempts ---
    fired_sends = sum(1 for l in script.log if l["via"] == "send")
    fired_early = sum(1 for l in script.log if l["via"] == "early-response")
    # the steps that produced a complete request on the wire, in order (a send fault or an answer that came before the
    # body was written leaves no complete request behind)
    steps = []
    for l in script.log:
        if l["via"] != "request":
            continue
        o_ = l["outcome"]
        steps.append(o_["err"] if o_["k"] == "recv" else ("ok" if int(o_.get("status", 200)) == 200 else str(o_.get("status"))))
    expect_n = len([st for st in hist.split("-") if not st.startswith("sendreset")]) - fired_early
    if fired_early:
        rec.count("early_response_fired", fired_early)
    if fired_sends:
        rec.count("send_fault_fired")
    unrewindable_raised = isinstance(exc, UnrewindableBodyError)
    if exc is not None and not unrewindable_raised:
        kindname = "unexpected-urllib3-exception" if isinstance(exc, HTTPError) else "non-urllib3-exception"
        rec.fail(case, kindname, dict(obs, attempts=len(reqs), msg=str(exc)[:100]), f"{type(exc).__name__}: {exc!s:.160} after {len(reqs)} attempts")
        return
    cur_method = method
    cur_has_body = kind != "none"
    for i in range(1, len(reqs)):
        prev_step = steps[i - 1] if i - 1 < len(steps) else "ok"
        r = reqs[i]
        rec.mon("resend_compare")
        if prev_step == "303":
            cur_method, cur_has_body = "GET", False
            # chunked=True asked by the caller stays in force: an empty chunked body is then still "no body"
            bad = bool(r.method != b"GET" or r.body or wire.header_get(r.headers, b"content-length") or (wire.header_get(r.headers, b"transfer-encoding") and not chunked) or wire.header_get(r.headers, b"content-type"))
            if bad:
                rec.fail(case, "303-follow-up-not-bodyless-get", dict(obs, attempt=i + 1, method=r.method, body=len(r.body)), f"303 follow-up is {r.method!r} with {len(r.body)} body bytes / framing headers")
                return
            continue
        if r.method.decode() != cur_method:
            rec.fail(case, "method-changed-on-resend", dict(obs, attempt=i + 1, method=r.method), f"attempt {i+1} method {r.method!r} != {cur_method}")
            return
        if cur_has_body and r.body != reqs[0].body:
            a, b = r.body, reqs[0].body
            rec.fail(case, "resent-body-differs", dict(obs, attempt=i + 1, got=len(a), first=len(b), is_suffix=b.endswith(a), empty=len(a) == 0, after=prev_step), f"attempt {i+1} (after {prev_step}) carried {len(a)} bytes, attempt 1 carried {len(b)}")
            return
    if exc is None and len(reqs) != expect_n:
        rec.fail(case, "attempt-count", dict(obs, got=len(reqs), want=expect_n), f"{len(reqs)} requests on the wire, history has {expect_n} steps")
        return
    if unrewindable_raised:
        rec.count("unrewindable_raised")
        if not reqs and not fired_sends and not partial and not fired_early:
            # nothing was sent yet, so nothing had to be sent again: a body that cannot be rewound can still be sent once
            rec.fail(case, "unrewindable-before-first-attempt", obs, f"UnrewindableBodyError before any request was written (body kind {kind})")
            return
        if kind in ("bytes", "bytearray", "memoryview", "array", "array-H", "memoryview-I", "str", "str-nonascii", "bytesio", "stringio", "binfile", "binfile-offset", "binfile-eof", "textfile", "textfile-readline", "textfile-read3", "textfile-readline-big", "list", "list-empties", "iter-str", "tuple-bytes", "none", "shortreads", "shortreads-raw"):
            rec.fail(case, "unrewindable-for-rewindable-body", obs, f"UnrewindableBodyError for body kind {kind}")


def run_tls_uploads(ctx: Ctx, rec: Recorder) -> None:
    """Large request bodies over real TLS: directly, through a CONNECT tunnel, and through TLS-in-TLS (https proxy, the
    only route that uses urllib3's own SSLTransport.sendall).  The origin hashes the body it decrypted."""
    import hashlib
    import warnings

    import urllib3

    from vf import tlsnet

    certs = tlsnet.Certs()
    try:
        n = 90000
        raw = bytes((i * 7 + (i >> 8)) & 0xFF for i in range(n))
        bodies: list[tuple[str, typing.Callable[[], typing.Any]]] = [
            ("bytes", lambda: raw), ("bytearray", lambda: bytearray(raw)), ("memoryview", lambda: memoryview(raw)), ("array-H", lambda: array.array("H", raw)),
            ("memoryview-I", lambda: memoryview(raw).cast("I")), ("bytesio", lambda: io.BytesIO(raw)), ("iter", lambda: iter([raw[:30000], raw[30000:]])),
        ]
        for route in ("direct", "http-tunnel", "https-tunnel", "direct+pyopenssl", "http-tunnel+pyopenssl"):
            backend = None
            if route.endswith("+pyopenssl"):
                # the other supported TLS backend has a sendall() of its own
                route = route[: -len("+pyopenssl")]
                try:
                    import urllib3.contrib.pyopenssl as backend  # type: ignore[no-redef]

                    backend.inject_into_urllib3()
                except Exception:  # noqa: BLE001
                    rec.count("pyopenssl_not_available")
                    continue
            for kind, mk in bodies:
                for chunked in (False, True):
                    case = {"tls_upload": route, "kind": kind, "chunked": chunked, "size": n, "backend": "pyopenssl" if backend else "ssl"}
                    rec.case(["tls-upload", route, kind, chunked, bool(backend)])
                    rec.mon("tls_upload")
                    cfg = {"role": "origin", "tls": ("exact", "trusted")} if route == "direct" else {"role": "proxy", "tls": ("proxy", "trusted") if route == "https-tunnel" else None, "inner": ("exact", "trusted")}
                    with tlsnet.TLSNet(lambda i: cfg, certs) as net, warnings.catch_warnings():
                        warnings.simplefilter("ignore")
                        try:
                            if route == "direct":
                                cl: typing.Any = urllib3.PoolManager(ca_certs=certs.ca_file, retries=False)
                            else:
                                cl = urllib3.ProxyManager(("https" if route == "https-tunnel" else "http") + "://proxy.test:3128", ca_certs=certs.ca_file, retries=False)
                            r = cl.urlopen("POST", "https://good.test/upload", body=mk(), chunked=chunked)
                            status = r.status
                        except Exception as e:  # noqa: BLE001
                            rec.fail(case, "upload-raised", {"exc": type(e).__name__, "route": route, "kind": kind}, f"{type(e).__name__}: {e!s:.120}")
                            continue
                        finally:
                            for pl in list(getattr(cl, "pools", {})._container.values()) if "cl" in dir() else []:
                                pl.close()
                        net.wait_quiet(2.0)
                        reqs = [q for e in net.listener.log for q in e.get("origin_requests", [])]
                    if status != 200 or len(reqs) != 1 or "error" in reqs[0]:
                        rec.fail(case, "request-not-parseable", {"route": route, "kind": kind, "status": status, "requests": len(reqs), "why": (reqs[0].get("error") if reqs else None)}, f"origin saw {len(reqs)} requests, status {status}")
                        continue
                    if reqs[0]["body_len"] != n or reqs[0]["body_sha256"] != hashlib.sha256(raw).hexdigest():
                        rec.fail(case, "payload-differs", {"route": route, "kind": kind, "got_len": reqs[0]["body_len"], "want_len": n, "chunked": chunked, "backend": "pyopenssl" if backend else "ssl"}, f"the origin decrypted {reqs[0]['body_len']} body bytes (want {n}) or different content")
            if backend is not None:
                backend.extract_from_urllib3()
    finally:
        certs.close()
        try:
            import urllib3.contrib.pyopenssl as _pyo

            _pyo.extract_from_urllib3()
        except Exception:  # noqa: BLE001
            pass


class _Ok:
    def on_request(self, net: typing.Any, sc: typing.Any, req: wire.Request) -> None:
        sc.write(wire.build_response(200, body=b"ok"))


SHARED_SEQ = [("POST", "bytes", 3), ("POST", "bytes", 10), ("GET", "none", 0), ("PUT", "bytesio", 6), ("POST", "generator", 5), ("POST", "str", 4), ("DELETE", "none", 0), ("POST", "bytes", 3), ("POST", "binfile", 70)]


def run_shared_headers(rec: Recorder, tmpdir: str) -> None:
    """Several uploads on ONE connection / pool / manager / CONNECT tunnel that share ONE header object (a dict or an
    HTTPHeaderDict; given per request or as the client's defaults) and never name a framing header: every request on the
    wire is framed for its own body - whatever the requests before it carried."""
    import warnings

    import urllib3
    from urllib3._collections import HTTPHeaderDict
    from urllib3.connection import HTTPConnection

    for via in ("conn", "pool", "manager", "tunnel"):
        for container in ("dict", "HTTPHeaderDict"):
            for where in ("per-request", "defaults"):
                if via == "conn" and where == "defaults":
                    continue
                for rot in range(len(SHARED_SEQ)):
                    seq = SHARED_SEQ[rot:] + SHARED_SEQ[:rot]
                    case = {"shared_headers": via, "container": container, "where": where, "sequence": [list(x) for x in seq]}
                    rec.case(["shared-headers", via, container, where, rot])
                    rec.mon("shared_header_sequence")
                    base = [("X-Api", "k1")]
                    hdrs: typing.Any = dict(base) if container == "dict" else HTTPHeaderDict(base)
                    wants: list[bytes] = []
                    cleanups = []
                    exc: BaseException | None = None
                    with netsim.Net(_Ok(), fake_tls="inner" if via == "tunnel" else True) as net, warnings.catch_warnings():
                        warnings.simplefilter("ignore")
                        kw = {"headers": hdrs} if where == "defaults" else {}
                        per = {"headers": hdrs} if where == "per-request" else {}
                        cl: typing.Any
                        if via == "conn":
                            cl = HTTPConnection("b.test", 80, blocksize=BS)
                        elif via == "pool":
                            cl = urllib3.HTTPConnectionPool("b.test", 80, maxsize=1, retries=False, blocksize=BS, **kw)
                        elif via == "manager":
                            cl = urllib3.PoolManager(retries=False, blocksize=BS, **kw)
                        else:
                            cl = urllib3.ProxyManager("http://proxy.test:3128", retries=False, blocksize=BS, cert_reqs="CERT_NONE", **kw)
                        try:
                            for method, kind, size in seq:
                                body, want, cleanup = make_body(kind, size, tmpdir)
                                wants.append(want)
                                cleanups.append(cleanup)
                                if via == "conn":
                                    cl.request(method, "/u", body=body, **per)
                                    cl.getresponse().read()
                                elif via == "pool":
                                    cl.urlopen(method, "/u", body=body, retries=False, **per)
                                else:
                                    cl.urlopen(method, ("https" if via == "tunnel" else "http") + "://b.test/u", body=body, retries=False, **per)
                        except Exception as e:  # noqa: BLE001
                            exc = e
                        finally:
                            for c in cleanups:
                                c()
                            cl.clear() if hasattr(cl, "clear") else cl.close()
                        raw = [bytes(st.sent) for st in net.states if st.sent]
                    if exc is not None:
                        rec.fail(case, "non-urllib3-exception" if not isinstance(exc, urllib3.exceptions.HTTPError) else "unexpected-urllib3-exception", {"exc": type(exc).__name__, "via": via, "sequence": True, "msg": str(exc)[:100]}, f"{type(exc).__name__}: {exc!s:.160}")
                        continue
                    reqs: list[wire.Request] = []
                    bad = None
                    for b in raw:
                        got, residue, perr = wire.parse_all_requests(b)
                        reqs += [r for r in got if r.method != b"CONNECT"]
                        if perr is not None or residue:
                            bad = perr or f"residue {residue[:60]!r}"
                    if bad or len(reqs) != len(seq):
                        rec.fail(case, "request-not-parseable", {"via": via, "container": container, "where": where, "why": str(bad)[:80], "parsed": len(reqs), "sent": len(seq)}, f"{len(seq)} calls put {len(reqs)} parseable requests on the wire ({bad})")
                        continue
                    for i, ((method, kind, size), want, r) in enumerate(zip(seq, wants, reqs)):
                        rec.mon("framing")
                        clh = wire.header_get(r.headers, b"content-length")
                        te = wire.header_get(r.headers, b"transfer-encoding")
                        obs = {"via": via, "container": container, "where": where, "step": i, "kind": kind, "method": method, "cl": clh, "te": te, "before": [x[1] for x in seq[:i]]}
                        if kind == "none":
                            if (method in NO_BODY_METHODS and (clh or te)) or (method not in NO_BODY_METHODS and (clh != [b"0"] or te)) or r.body:
                                rec.fail(case, "bodyless-framing", obs, f"call {i} ({method}, no body) after {obs['before']} carries CL={clh} TE={te} body={r.body[:20]!r}")
                                break
                        elif bool(clh) == bool(te) or len(clh) > 1 or len(te) > 1:
                            rec.fail(case, "not-exactly-one-framing", obs, f"call {i} ({kind}) after {obs['before']}: CL={clh} TE={te}")
                            break
                        elif r.body != want:
                            rec.fail(case, "payload-differs", dict(obs, got=len(r.body), want=len(want), attempt=1), f"call {i} ({kind}) after {obs['before']} carried {len(r.body)} bytes, body has {len(want)}")
                            break
                    if sorted((str(k), str(v)) for k, v in (hdrs.items())) != sorted(base):
                        rec.fail(case, "caller-headers-mutated", {"via": via, "container": container, "where": where, "now": sorted((str(k), str(v)) for k, v in hdrs.items())[:6]}, f"the caller's header object now holds {list(hdrs.items())!r}")


def run_shard(ctx: Ctx, rec: Recorder) -> None:
    if ctx.shard == ctx.nshards - 1:
        run_tls_uploads(ctx, rec)
    tmpdir = tempfile.mkdtemp(prefix="vf-c11-")
    try:
        if ctx.shard == 0:
            run_shared_headers(rec, tmpdir)
        idx = 0
        stride = ctx.pick(3, 1)
        for kind in KINDS:
            for size in SIZES:
                for method in METHODS:
                    for chunked in (False, True):
                        for hist in HISTORIES:
                            for via in ("pool", "manager"):
                                idx += 1
                                if not ctx.mine(idx) or ctx.skip(idx, stride):
                                    continue
                                if kind.endswith("-big") and size != BS:
                                    continue  # (the large file is the same for every nominal size)
                                if kind == "none" and size != 0:
                                    continue
                                rec.case([kind, size, method, chunked, hist, via], nontrivial=not (kind == "none" and hist == "ok"))
                                run_case(rec, kind, size, method, chunked, hist, via, tmpdir)
                                if idx % 2003 == 0:
                                    rec.sample({"kind": kind, "size": size, "method": method, "chunked": chunked, "history": hist, "via": via})
        total = len(KINDS) * len(SIZES) * len(METHODS) * 2 * len(HISTORIES) * 2
        rec.exhaustive_parts.append(f"product body kind x size x method x chunked x history x entry ({total} combinations), strided 1/{stride}")
        # default blocksize once
        rec.case(["default-blocksize"])
        run_default_blocksize(rec, tmpdir)
    finally:
        import shutil

        shutil.rmtree(tmpdir, ignore_errors=True)


def run_default_blocksize(rec: Recorder, tmpdir: str) -> None:
    import urllib3

    data = os.urandom(16384 * 2 + 5)
    script = netsim.AttemptScript([{"k": "resp", "status": 503}, {"k": "resp", "status": 200}])
    with netsim.Net(script) as net:
        pool = urllib3.HTTPConnectionPool("b.test", 80, retries=urllib3.Retry(3, status_forcelist=[503], allowed_methods=None))
        pool.urlopen("PUT", "/big", body=io.BytesIO(data))
        reqs = [r for st in net.states for r in st.server.requests]
    rec.mon("payload_equal")
    if len(reqs) != 2 or reqs[0].body != data or reqs[1].body != data:
        rec.fail({"kind": "bytesio", "size": len(data), "method": "PUT", "history": "503-ok", "via": "pool", "chunked": False, "blocksize": "default"}, "resent-body-differs", {"kind": "bytesio", "default_blocksize": True, "got": [len(r.body) for r in reqs]}, "default block size: body not re-sent identically")


def replay(case: dict[str, typing.Any], ctx: Ctx, rec: Recorder) -> None:
    tmpdir = tempfile.mkdtemp(prefix="vf-c11-")
    try:
        rec.case(case)
        run_case(rec, case["kind"], case["size"], case["method"], case["chunked"], case["history"], case["via"], tmpdir)
    finally:
        import shutil

        shutil.rmtree(tmpdir, ignore_errors=True)
