"""C18 — connections are never shared across differing connection settings.

Monitor: the keyword universe is derived at run time from the constructors' signatures; for every
keyword and every pair of values the identity of the pools a PoolManager hands out is observed
(distinct values => distinct pool objects or a rejection; equal values => the same object; manager
defaults unchanged by overrides), plus an end-to-end sample on the in-memory network (a differing
keyword must dial a new socket)."""
from __future__ import annotations

import copy
import inspect
import ssl
import typing

from vf.core import Ctx, Recorder


def keyword_universe() -> tuple[list[str], dict[str, list[str]]]:
    from urllib3 import connection, connectionpool, poolmanager

    where: dict[str, list[str]] = {}
    for cls in (connectionpool.HTTPConnectionPool, connectionpool.HTTPSConnectionPool, connection.HTTPConnection, connection.HTTPSConnection):
        for name, p in inspect.signature(cls.__init__).parameters.items():
            if name in ("self", "host", "port") or p.kind in (p.VAR_KEYWORD, p.VAR_POSITIONAL):
                continue
            where.setdefault(name, []).append(cls.__name__)
    for f in poolmanager.PoolKey._fields:
        n = f[len("key_") :]
        if n not in ("scheme", "host", "port"):
            where.setdefault(n, []).append("PoolKey")
    for n in poolmanager.SSL_KEYWORDS:
        where.setdefault(n, []).append("SSL_KEYWORDS")
    return sorted(where), where


def value_table() -> dict[str, list[typing.Callable[[], typing.Any]]]:
    """keyword -> list of factories of pairwise-distinct valid values (factories, so that 'equal value' can be
    rebuilt as a fresh equal object where the type has value equality)."""
    from urllib3 import HTTPHeaderDict
    from urllib3.connection import ProxyConfig
    from urllib3.util import Retry, Timeout, parse_url

    ctxs = [ssl.create_default_context(), ssl.create_default_context()]
    shared: dict[str, typing.Any] = {}

    def once(key: str, mk: typing.Callable[[], typing.Any]) -> typing.Callable[[], typing.Any]:
        def get() -> typing.Any:
            if key not in shared:
                shared[key] = mk()
            return shared[key]

        return get

    def consts(*vals: typing.Any) -> list[typing.Callable[[], typing.Any]]:
        return [(lambda v=v: copy.copy(v) if isinstance(v, (dict, list)) else v) for v in vals]

    t: dict[str, list[typing.Callable[[], typing.Any]]] = {
        "timeout": consts(1.0, 2.0, 3) + [once("t1", lambda: Timeout(connect=1)), once("t2", lambda: Timeout(connect=1, read=2)), once("t3", lambda: Timeout(total=3)), once("t4", lambda: Timeout(connect=1))],
        "retries": consts(0, 1, 5, False)
        + [
            once("r1", lambda: Retry(3)),
            once("r2", lambda: Retry(3, raise_on_status=False)),
            once("r3", lambda: Retry(3, raise_on_redirect=False)),
            once("r4", lambda: Retry(3, respect_retry_after_header=False)),
            once("r5", lambda: Retry(3, remove_headers_on_redirect=["x-secret"])),
            once("r6", lambda: Retry(3, backoff_factor=1)),
            once("r7", lambda: Retry(3, allowed_methods=None)),
            once("r8", lambda: Retry(3, status_forcelist=[503])),
            once("r9", lambda: Retry(total=3, redirect=0)),
        ],
        "block": consts(True, False),
        "maxsize": consts(1, 2, 7),
        "headers": consts({"a": "1"}, {"a": "2"}, {"A": "1"}, {"a": "1", "b": "2"}, {}) + [lambda: HTTPHeaderDict({"c": "3"})],
        "source_address": consts(("127.0.0.1", 0), ("127.0.0.2", 0), ("127.0.0.1", 5000)),
        "socket_options": consts([], [(6, 1, 1)], [(6, 1, 0)], [(1, 9, 1)], [(6, 1, 1), (1, 9, 1)]),
        "blocksize": consts(8192, 4096),
        "key_file": consts("/k/a.pem", "/k/b.pem"),
        "cert_file": consts("/c/a.pem", "/c/b.pem"),
        "key_password": consts("pw1", "pw2"),
        "ca_certs": consts("/ca/a.pem", "/ca/b.pem"),
        "ca_cert_dir": consts("/ca/a", "/ca/b"),
        "ca_cert_data": consts("PEM-A", "PEM-B", b"PEM-A"),
        "cert_reqs": consts("CERT_NONE", "CERT_REQUIRED", "CERT_OPTIONAL"),
        "ssl_version": consts("PROTOCOL_TLSv1_2", "PROTOCOL_TLS_CLIENT"),
        "ssl_minimum_version": consts(ssl.TLSVersion.TLSv1_2, ssl.TLSVersion.TLSv1_3),
        "ssl_maximum_version": consts(ssl.TLSVersion.TLSv1_2, ssl.TLSVersion.TLSv1_3),
        "ssl_context": [lambda: ctxs[0], lambda: ctxs[1]],
        "assert_hostname": consts("a.test", "b.test", False),
        "assert_fingerprint": consts("aa" * 32, "bb" * 32, "aa" * 20),
        "server_hostname": consts("a.test", "b.test", "A.test"),
        "_proxy": [lambda: parse_url("http://p1.test:8080"), lambda: parse_url("http://p2.test:8080"), lambda: parse_url("https://p1.test:8080"), lambda: parse_url("http://p1.test:8081")],
        "_proxy_headers": consts({"proxy-authorization": "Basic a"}, {"proxy-authorization": "Basic b"}, {}),
        "_proxy_config": [
            once("pc1", lambda: ProxyConfig(ssl_context=None, use_forwarding_for_https=False, assert_hostname=None, assert_fingerprint=None)),
            once("pc2", lambda: ProxyConfig(ssl_context=None, use_forwarding_for_https=True, assert_hostname=None, assert_fingerprint=None)),
            once("pc3", lambda: ProxyConfig(ssl_context=None, use_forwarding_for_https=False, assert_hostname="p.test", assert_fingerprint=None)),
            once("pc4", lambda: ProxyConfig(ssl_context=ctxs[0], use_forwarding_for_https=False, assert_hostname=None, assert_fingerprint=None)),
        ],
        "_socks_options": consts({"socks_version": 5, "proxy_host": "s1"}, {"socks_version": 5, "proxy_host": "s2"}, {"socks_version": 4, "proxy_host": "s1"}),
        "proxy": [lambda: parse_url("http://p1.test:8080"), lambda: parse_url("http://p2.test:8080")],
        "proxy_config": [
            once("cpc1", lambda: ProxyConfig(ssl_context=None, use_forwarding_for_https=False, assert_hostname=None, assert_fingerprint=None)),
            once("cpc2", lambda: ProxyConfig(ssl_context=None, use_forwarding_for_https=True, assert_hostname=None, assert_fingerprint=None)),
        ],
    }
    return t


def pool_of(pm: typing.Any, scheme: str, kw: dict[str, typing.Any] | None, host: str = "h.test", port: int | None = None) -> tuple[str, typing.Any]:
    try:
        return "pool", pm.connection_from_host(host, port=port, scheme=scheme, pool_kwargs=kw)
    except TypeError as e:
        return "rejected", str(e)[:80]


def snapshot_kw(pm: typing.Any) -> list[tuple[str, int, str]]:
    return sorted((k, id(v), repr(v) if isinstance(v, (dict, list, tuple, str, int, float, bool, type(None))) else "") for k, v in pm.connection_pool_kw.items())


def run_shard(ctx: Ctx, rec: Recorder) -> None:
    import urllib3

    universe, where = keyword_universe()
    table = value_table()
    if ctx.shard == 0:
        rec.count("keywords_in_universe", len(universe))
        rec.sample({"keyword_universe": universe})
    untyped = [k for k in universe if k not in table]
    for k in untyped:
        rec.seen("untyped_keywords_given_sentinels", k)
    idx = 0
    for kw in universe:
        facts = table.get(kw) or [lambda: "vf-sentinel-1", lambda: "vf-sentinel-2"]
        for scheme in ("http", "https"):
            idx += 1
            if not ctx.mine(idx):
                continue
            rec.seen("keywords_checked", kw)
            n = len(facts)
            # (a) via pool_kwargs: all pairs of distinct values + every value against itself
            pm = urllib3.PoolManager(num_pools=200)
            before = snapshot_kw(pm)
            results = []
            caller_values = []
            for f in facts:
                v = f()
                caller_values.append((v, copy.copy(v) if isinstance(v, (dict, list)) else None))
                results.append(pool_of(pm, scheme, {kw: v}))
            base = pool_of(pm, scheme, None)
            for i in range(n):
                case = {"kw": kw, "scheme": scheme, "via": "pool_kwargs", "i": i}
                rec.case(["pk", kw, scheme, i])
                # equal value again (fresh equal object) => same pool
                again = pool_of(pm, scheme, {kw: facts[i]()})
                rec.mon("same_for_equal")
                if results[i][0] == "pool" and (again[0] != "pool" or again[1] is not results[i][1]):
                    rec.fail(case, "equal-settings-different-pool", {"kw": kw}, f"{kw}: the same value twice gave two different pools")
                # the caller's own object must not be mutated by key normalisation
                v, snap = caller_values[i]
                if snap is not None and v != snap:
                    rec.fail(case, "caller-value-mutated", {"kw": kw}, f"{kw}: caller's {type(v).__name__} was mutated")
                # against the manager's default (keyword absent)
                rec.mon("distinct_for_different")
                if results[i][0] == "pool" and base[0] == "pool" and results[i][1] is base[1]:
                    # a value equal to the documented default may legitimately share (blocksize only)
                    rec.fail(case, "override-shares-default-pool", {"kw": kw, "value": repr(v)[:60]}, f"{kw}={v!r} shares the pool created without {kw}")
                for j in range(i + 1, n):
                    rec.mon("distinct_for_different")
                    a, b = results[i], results[j]
                    if a[0] == "pool" and b[0] == "pool" and a[1] is b[1]:
                        rec.fail({"kw": kw, "scheme": scheme, "via": "pool_kwargs", "i": i, "j": j}, "different-settings-same-pool", {"kw": kw, "i": i, "j": j}, f"{kw}: values #{i} and #{j} ({caller_values[i][0]!r:.50} vs {caller_values[j][0]!r:.50}) share one pool")
            if all(r[0] == "rejected" for r in results):
                rec.seen("keywords_rejected", kw)
            elif any(r[0] == "rejected" for r in results):
                rec.seen("keywords_partly_rejected", kw)
            rec.mon("defaults_unchanged")
            if snapshot_kw(pm) != before:
                rec.fail({"kw": kw, "scheme": scheme, "via": "pool_kwargs"}, "manager-defaults-changed", {"kw": kw}, f"connection_pool_kw changed after overriding {kw}")
            # (a') the same through a ProxyManager (forwarded http destinations share the proxy's pool, https ones are
            # tunnelled): default -> override -> default on ONE manager, and override first on a fresh one
            if not kw.startswith("_") and kw not in ("proxy", "proxy_config", "proxy_headers"):
                for order in ("default-first", "override-first"):
                    ppm = urllib3.ProxyManager("http://proxy.test:3128", num_pools=50)
                    pcase = {"kw": kw, "scheme": scheme, "via": "proxy-manager", "order": order}
                    rec.case(["proxy", kw, scheme, order])
                    d0 = pool_of(ppm, scheme, None) if order == "default-first" else None
                    o1 = pool_of(ppm, scheme, {kw: facts[0]()})
                    d1 = pool_of(ppm, scheme, None)
                    o2 = pool_of(ppm, scheme, {kw: facts[1]()})
                    d2 = pool_of(ppm, scheme, None, host="other.test")
                    rec.mon("proxy_manager_sequence")
                    if o1[0] != "pool" or d1[0] != "pool":
                        continue
                    if d1[1] is o1[1]:
                        rec.fail(pcase, "override-shares-default-pool", {"kw": kw, "value": repr(facts[0]())[:60], "via": "proxy-manager"}, f"ProxyManager: {kw} override and the following default request share one pool")
                    if d0 is not None and d0[0] == "pool" and d1[1] is not d0[1]:
                        rec.fail(pcase, "equal-settings-different-pool", {"kw": kw, "via": "proxy-manager"}, f"ProxyManager: default context maps to another pool after a {kw} override")
                    if o2[0] == "pool" and o2[1] is o1[1]:
                        rec.fail(pcase, "different-settings-same-pool", {"kw": kw, "i": 0, "j": 1, "via": "proxy-manager"}, f"ProxyManager: two different {kw} overrides share one pool")
                    if scheme == "http" and d2[0] == "pool" and (d2[1] is o1[1] or (o2[0] == "pool" and d2[1] is o2[1])):
                        rec.fail(pcase, "override-shares-default-pool", {"kw": kw, "via": "proxy-manager", "other_host": True}, f"ProxyManager: a default request to another host is served by the pool created for a {kw} override")
            # (b) via constructor defaults (keywords that PoolManager.__init__ itself consumes, such as
            # 'headers', never reach connection_pool_kw and are exercised through pool_kwargs only)
            if kw in inspect.signature(urllib3.PoolManager.__init__).parameters:
                continue
            v0, v1 = facts[0](), facts[1]()
            try:
                pm0 = urllib3.PoolManager(num_pools=50, **{kw: v0})
                before = snapshot_kw(pm0)
                d0 = pool_of(pm0, scheme, None)
                d0b = pool_of(pm0, scheme, None, host="H.TEST", port=(80 if scheme == "http" else 443))
                o1 = pool_of(pm0, scheme, {kw: v1})
                back = pool_of(pm0, scheme, None)
                case = {"kw": kw, "scheme": scheme, "via": "constructor"}
                rec.case(["ctor", kw, scheme])
                rec.mon("same_for_equal")
                if d0[0] == "pool" and (d0b[0] != "pool" or d0b[1] is not d0[1]):
                    rec.fail(case, "case-or-default-port-variant-different-pool", {"kw": kw}, "host case / explicit default port gave a different pool")
                rec.mon("distinct_for_different")
                if d0[0] == "pool" and o1[0] == "pool" and d0[1] is o1[1]:
                    rec.fail(case, "different-settings-same-pool", {"kw": kw, "i": "default", "j": "override"}, f"{kw}: constructor default and override share one pool")
                if d0[0] == "pool" and (back[0] != "pool" or back[1] is not d0[1]):
                    rec.fail(case, "equal-settings-different-pool", {"kw": kw}, f"{kw}: default context no longer maps to its pool after an override")
                rec.mon("defaults_unchanged")
                if snapshot_kw(pm0) != before or pm0.connection_pool_kw.get(kw) is not v0:
                    rec.fail(case, "manager-defaults-changed", {"kw": kw}, f"connection_pool_kw changed after overriding {kw}")
                # None in pool_kwargs removes the default for that call only
                none = pool_of(pm0, scheme, {kw: None})
                base = pool_of(urllib3.PoolManager(), scheme, None)
                if none[0] == "pool" and d0[0] == "pool" and none[1] is d0[1] and kw != "blocksize":
                    rec.fail(case, "different-settings-same-pool", {"kw": kw, "i": "default", "j": "removed"}, f"{kw}: removing the default per request still shares the pool")
            except TypeError:
                rec.seen("keywords_rejected_by_constructor", kw)
    # unknown keyword: must be rejected or must distinguish
    if ctx.shard == 0:
        pm = urllib3.PoolManager()
        for scheme in ("http", "https"):
            rec.case(["unknown", scheme])
            a = pool_of(pm, scheme, {"vf_unknown_keyword": 1})
            b = pool_of(pm, scheme, {"vf_unknown_keyword": 2})
            rec.mon("distinct_for_different")
            if a[0] == "pool" and b[0] == "pool" and a[1] is b[1]:
                rec.fail({"kw": "vf_unknown_keyword", "scheme": scheme, "via": "pool_kwargs"}, "unknown-keyword-ignored", {"kw": "vf_unknown_keyword"}, "an unknown keyword is silently dropped from the pool identity")
    # (b') the lesser used entry points: a request context given to connection_from_context / a key given to
    # connection_from_pool_key may be used again by the caller (equal parameters -> same pool, argument untouched)
    if ctx.shard == 0:
        for scheme in ("http", "https"):
            for extra in ({}, {"timeout": 3.0}, {"retries": 2, "maxsize": 3}):
                pm = urllib3.PoolManager(num_pools=10)
                rc = dict({"scheme": scheme, "host": "ctx.test", "port": 80 if scheme == "http" else 443}, **extra)
                rc = dict(pm.connection_pool_kw, **rc)
                before = dict(rc)
                case = {"kw": "request_context", "scheme": scheme, "via": "connection_from_context", "extra": sorted(extra)}
                rec.case(["from-context", scheme, sorted(extra)])
                rec.mon("from_context_reuse")
                try:
                    p1 = pm.connection_from_context(rc)
                    if rc != before:
                        rec.fail(case, "caller-value-mutated", {"kw": "request_context", "missing": sorted(set(before) - set(rc)), "added": sorted(set(rc) - set(before))}, f"connection_from_context changed the caller's request context: now {sorted(rc)}")
                        continue
                    p2 = pm.connection_from_context(rc)
                    if p2 is not p1:
                        rec.fail(case, "equal-settings-different-pool", {"kw": "request_context"}, "the same request context gave two pools")
                except Exception as e:  # noqa: BLE001
                    rec.fail(case, "equal-settings-different-pool", {"kw": "request_context", "exc": type(e).__name__, "msg": str(e)[:60]}, f"using a request context twice raised {type(e).__name__}: {e!s:.80}")
    # (c) end to end: a differing keyword must dial a new socket; an equal one must reuse
    end_to_end(ctx, rec)
    if ctx.shard == 0:
        context_state_not_identity(ctx, rec)


E2E = {
    "headers": ({"x": "1"}, {"x": "2"}),
    "timeout": (3.0, 4.0),
    "retries": (1, 2),
    "source_address": (("127.0.0.1", 0), ("127.0.0.2", 0)),
    "socket_options": ([], [(6, 1, 1)]),
    "blocksize": (4096, 8192),
    "maxsize": (1, 2),
    "block": (True, False),
    "server_hostname": ("a.test", "b.test"),
    "assert_hostname": ("a.test", "b.test"),
    "cert_reqs": ("CERT_NONE", "CERT_REQUIRED"),
    "ca_certs": ("/ca/a.pem", "/ca/b.pem"),
}


def end_to_end(ctx: Ctx, rec: Recorder) -> None:
    import urllib3
    from vf import netsim, wire

    class Srv:
        def on_request(self, net: typing.Any, sc: typing.Any, req: typing.Any) -> None:
            sc.write(wire.build_response(200, body=b"ok"))

    i = 0
    for kw, (v1, v2) in E2E.items():
        for scheme in ("http", "https"):
            i += 1
            if not ctx.mine(i):
                continue
            if scheme == "http" and kw in ("server_hostname", "assert_hostname", "cert_reqs", "ca_certs"):
                continue
            rec.case(["e2e", kw, scheme])
            with netsim.Net(Srv()) as net:
                pm = urllib3.PoolManager()
                url = f"{scheme}://e2e.test/x"
                for val in (v1, v1, v2, v1):
                    pool = pm.connection_from_url(url, pool_kwargs={kw: val})
                    r = pool.request("GET", "/x")
                    r.release_conn()
                rec.mon("e2e_dials")
                n = len(net.dials)
                if n != 2:
                    rec.fail({"kw": kw, "scheme": scheme, "via": "e2e"}, "e2e-connection-sharing", {"kw": kw, "dials": n}, f"{kw}: requests v1,v1,v2,v1 used {n} sockets (expected 2: one per setting)")
                pm.clear()
            # the pool is also observed where urlopen() picks it: a look-up with per-call overrides, then plain
            # request() calls under the manager's own (different) settings, in both orders of first use
            for order in ("override-connects-first", "manager-connects-first"):
                for lookup in ("url", "host", "context"):
                    rec.case(["e2e-urlopen", kw, scheme, order, lookup])
                    with netsim.Net(Srv()) as net:
                        pm = urllib3.PoolManager(**{kw: v1})
                        url = f"{scheme}://e2e.test/x"
                        if lookup == "url":
                            o = pm.connection_from_url(url, pool_kwargs={kw: v2})
                        elif lookup == "host":
                            o = pm.connection_from_host("e2e.test", None, scheme, pool_kwargs={kw: v2})
                        else:
                            c = pm._merge_pool_kwargs({kw: v2})
                            c.update(scheme=scheme, host="e2e.test", port={"http": 80, "https": 443}[scheme])
                            o = pm.connection_from_context(c)
                        try:
                            if order == "override-connects-first":
                                o.request("GET", "/x").release_conn()
                            pm.request("GET", url).release_conn()
                            pm.request("GET", url).release_conn()
                            o.request("GET", "/x").release_conn()
                            pm.request("GET", url).release_conn()
                        except Exception as e:  # noqa: BLE001
                            rec.count("e2e_urlopen_request_failed_" + type(e).__name__)
                            pm.clear()
                            continue
                        rec.mon("e2e_urlopen_dials")
                        n = len(net.dials)
                        if n != 2:
                            rec.fail({"kw": kw, "scheme": scheme, "via": "e2e-urlopen", "order": order, "lookup": lookup}, "e2e-connection-sharing", {"kw": kw, "dials": n, "via": "urlopen"}, f"{kw}: a pool looked up with {kw}={v2!r} and request() under the manager's {kw}={v1!r} used {n} sockets (expected 2: one per setting)")
                        pm.clear()


def context_state_not_identity(ctx: Ctx, rec: Recorder) -> None:
    """A manager built around a caller-supplied SSLContext: connections made with per-request cert_reqs overrides rewrite
    that context (urllib3 does so itself); the identity of the manager's own pool must not follow that mutable state."""
    import ssl

    import urllib3
    from urllib3.util.ssl_ import create_urllib3_context
    from vf import netsim, wire

    class Srv:
        def on_request(self, net: typing.Any, sc: typing.Any, req: typing.Any) -> None:
            sc.write(wire.build_response(200, body=b"ok"))

    for override in (ssl.CERT_NONE, "CERT_NONE", ssl.CERT_OPTIONAL):
        for order in ("default-first", "override-first"):
            case = {"kw": "cert_reqs", "scheme": "https", "via": "context-state", "override": str(override), "order": order}
            rec.case(["ctx-state", str(override), order])
            rec.mon("context_state_sequence")
            with netsim.Net(Srv(), fake_tls="inner") as net:
                sc = create_urllib3_context()
                sc.check_hostname = False
                pm = urllib3.PoolManager(ssl_context=sc)
                url = "https://ctx.test/x"
                d0 = pm.connection_from_url(url) if order == "default-first" else None
                o = pm.connection_from_url(url, pool_kwargs={"cert_reqs": override})
                try:
                    o.request("GET", "/x", retries=False).release_conn()  # a real connect: urllib3 writes verify_mode into sc
                except Exception as e:  # noqa: BLE001
                    rec.count("context_state_request_failed")
                d1 = pm.connection_from_url(url)
                if d1 is o:
                    rec.fail(case, "override-shares-default-pool", {"kw": "cert_reqs", "via": "context-state", "value": str(override)}, f"after a connection made with cert_reqs={override!r} the manager's own settings map to that override's pool")
                elif d0 is not None and d1 is not d0:
                    rec.fail(case, "equal-settings-different-pool", {"kw": "cert_reqs", "via": "context-state"}, "the manager's own settings no longer map to their pool after an override connected")
                pm.clear()


def replay(case: dict[str, typing.Any], ctx: Ctx, rec: Recorder) -> None:
    run_shard(Ctx(ctx.prop, ctx.tier, ctx.seed, 0, 1, ctx.budget_s), rec)
