"""C19 — socket waits never exceed the configured timeouts.

Monitor: on a virtual clock (time.monotonic in urllib3.util.timeout replaced) the in-memory network records
the timeout handed to every dial and every settimeout() before a response wait; both are compared with the
reference arithmetic min(connect, total) / min(read, total - elapsed) for a grid of configurations,
connect / send / response durations, placements and connection reuse."""
from __future__ import annotations

import itertools
import typing

from vf import netsim, wire
from vf.core import Ctx, Recorder

UNSET = "unset"
VALS = [UNSET, None, 0.5, 2, 10]
CONNECT_DUR = [0, 0.3, 1, 5, 20]
INVALID = [0, -1, -0.5, True, False, "abc", "", "nan-ish", [], object, 0.0, "-3"]
INF = float("inf")


def mk_timeout(spec: typing.Any) -> typing.Any:
    from urllib3.util import Timeout

    if isinstance(spec, dict):
        kw = {k: v for k, v in spec.items() if v != UNSET}
        return Timeout(**kw)
    return spec  # number / None


def norm(spec: typing.Any) -> tuple[float, float, float]:
    """(total, connect, read) with unset/None as +inf."""
    def f(v: typing.Any) -> float:
        return INF if v in (UNSET, None) else float(v)

    if isinstance(spec, dict):
        return f(spec.get("total", None)), f(spec.get("connect", UNSET)), f(spec.get("read", UNSET))
    return INF, f(spec), f(spec)


def as_num(v: typing.Any) -> float:
    if v is None or type(v).__name__ == "_TYPE_DEFAULT":  # None or the "system default" sentinel (None here)
        return INF
    return float(v)


class TimedServer:
    def __init__(self, plan: list[dict[str, typing.Any]]):
        self.plan = plan
        self.n = 0

    def on_dial(self, net: netsim.Net, dial: dict[str, typing.Any]) -> typing.Any:
        d = self.plan[min(self.n, len(self.plan) - 1)].get("connect_dur", 0)
        return ("delay", d) if d else None

    def on_send(self, net: netsim.Net, st: netsim.SockState, n: int, data: bytes) -> typing.Any:
        d = self.plan[min(self.n, len(self.plan) - 1)].get("send_dur", 0)
        if d and b"HTTP/1.1\r\n" in data:
            net.clock.advance(d)
        return None

    def on_request(self, net: netsim.Net, sc: netsim.ServerConn, req: wire.Request) -> None:
        p = self.plan[min(self.n, len(self.plan) - 1)]
        self.n += 1
        if p.get("resp_dur"):
            sc.st.respond_after = float(p["resp_dur"])
        sc.write(wire.build_response(200, body=b"ok"))


def run_case(rec: Recorder, case: dict[str, typing.Any]) -> None:
    import urllib3
    from urllib3.exceptions import ConnectTimeoutError, HTTPError, MaxRetryError, ReadTimeoutError

    plan = case["plan"]
    server = TimedServer(plan)
    with netsim.Net(server) as net:
        try:
            pool_kw = {} if case["pool_timeout"] == "absent" else {"timeout": mk_timeout(case["pool_timeout"])}
            pool: typing.Any
            if case["scheme"] == "http":
                pool = urllib3.HTTPConnectionPool("t.test", 80, maxsize=1, retries=False, **pool_kw)
            elif case["scheme"] == "manager":
                # one PoolManager that has already been asked for this host with other pool-level timeouts: the pool that
                # serves this configuration must be governed by this configuration
                pm = urllib3.PoolManager(maxsize=1, retries=False)
                for prior in case.get("prior", []):
                    pm.connection_from_url("http://t.test/", pool_kwargs={"timeout": mk_timeout(prior)})
                pool = pm.connection_from_url("http://t.test/", pool_kwargs=pool_kw)
            elif case["scheme"] == "tunnel":
                # https destination behind an http proxy: the dial (to the proxy) and the CONNECT exchange happen in
                # _prepare_proxy, before the per-request clock starts
                pm = urllib3.ProxyManager("http://proxy.test:3128", maxsize=1, retries=False, **pool_kw)
                pool = pm.connection_from_url("https://t.test/")
            else:
                pool = urllib3.HTTPSConnectionPool("t.test", 443, maxsize=1, retries=False, **pool_kw)
        except ValueError as e:
            rec.fail(case, "valid-timeout-rejected", {"where": "pool", "msg": str(e)[:80]}, f"pool rejected {case['pool_timeout']!r}: {e}")
            return
        shared_obj = pool_kw.get("timeout")
        for ri, p in enumerate(plan):
            req_spec = p.get("req_timeout", "absent")
            eff_spec = req_spec if req_spec != "absent" else (case["pool_timeout"] if case["pool_timeout"] != "absent" else {"connect": UNSET, "read": UNSET})
            T, C, R = norm(eff_spec)
            ev_mark = len(net.events)
            dials_before = len(net.dials)
            t_begin = net.clock.now
            exc: BaseException | None = None
            resp = None
            try:
                kw = {} if req_spec == "absent" else {"timeout": mk_timeout(req_spec)}
                resp = pool.urlopen("GET", f"/r{ri}", retries=False, **kw)
            except BaseException as e:  # noqa: BLE001
                if isinstance(e, (KeyboardInterrupt, SystemExit)):
                    raise
                exc = e
            rec.mon("request")
            evs = net.events[ev_mark:]
            fresh = len(net.dials) > dials_before
            obs: dict[str, typing.Any] = {"request": ri, "fresh": fresh, "scheme": case["scheme"], "placement": "request" if req_spec != "absent" else ("pool" if case["pool_timeout"] != "absent" else "default"), "eff": [None if x == INF else x for x in (T, C, R)], "exc": type(exc).__name__ if exc else None}
            if isinstance(exc, Exception) and not isinstance(exc, HTTPError):
                rec.fail(case, "non-urllib3-exception", dict(obs, msg=str(exc)[:100]), f"{type(exc).__name__}: {exc!s:.100}")
                return
            # ---- connect phase ----
            want_ct = min(C, T)
            cdur = float(p.get("connect_dur", 0))
            elapsed = float(p.get("send_dur", 0))
            if fresh:
                rec.mon("connect_timeout")
                got_ct = as_num(net.dials[dials_before]["timeout"])
                if abs(got_ct - want_ct) > 1e-6 and not (got_ct == INF and want_ct == INF):
                    rec.fail(case, "connect-timeout-wrong", dict(obs, got=None if got_ct == INF else got_ct, want=None if want_ct == INF else want_ct), f"dial got timeout {got_ct}, configured min(connect,total) = {want_ct}")
                    return
                if cdur > want_ct:
                    from urllib3.exceptions import ProxyError

                    if not isinstance(exc, (ConnectTimeoutError, MaxRetryError)) and not (case["scheme"] == "tunnel" and isinstance(exc, ProxyError)):
                        rec.fail(case, "connect-timeout-not-raised", dict(obs), f"connect took {cdur} > {want_ct} but the call ended with {exc!r}")
                    return  # nothing more happens for this request; later requests are still judged
                elapsed += cdur  # (also for a tunnel: connecting to the proxy is the connect phase of the attempt)
                if case["scheme"] == "tunnel":
                    elapsed += float(p.get("send_dur", 0))  # ... and so is writing the CONNECT request
            # ---- read phase ----
            want_rt = min(R, T - elapsed) if T != INF else R
            want_rt = max(0.0, want_rt)
            # only what happens after the request itself was written counts as the response wait (a CONNECT exchange
            # on a tunnel has its own reads before that)
            req_ticks = [e[0] for e in evs if e[1] == "request"]
            after = req_ticks[0] if req_ticks else -1
            sets = [e for e in evs if e[1] == "settimeout"]
            # (no request written = no response wait at all: reads of a CONNECT exchange before it are not one)
            recvs = [e for e in evs if e[1] == "recv" and e[0] > after] if req_ticks else []
            rec.mon("negative_check")
            for e in sets:
                try:
                    v = eval(e[4], {"__builtins__": {}}, {})  # repr of a number or None
                except Exception:  # noqa: BLE001
                    v = None
                if isinstance(v, (int, float)) and v < 0:
                    rec.fail(case, "negative-timeout-set", dict(obs, value=v), f"settimeout({v})")
                    return
            rec.mon("read_timeout")
            if want_rt == 0:
                if recvs or not isinstance(exc, ReadTimeoutError):
                    rec.fail(case, "zero-budget-still-waited", dict(obs, recvs=len(recvs)), f"no time left for reading but {len(recvs)} recv() happened / outcome {exc!r}")
                return
            if not recvs:
                rec.fail(case, "no-response-wait", dict(obs), f"expected a response wait with timeout {want_rt}; outcome {exc!r}")
                return
            first_recv_tick = recvs[0][0]
            before = [e for e in sets if e[0] < first_recv_tick]
            if not before:
                rec.fail(case, "no-settimeout-before-recv", obs, "no settimeout before the response wait")
                return
            try:
                got_rt = as_num(eval(before[-1][4], {"__builtins__": {}}, {}))
            except Exception:  # noqa: BLE001
                got_rt = -1.0
            if not ((got_rt == INF and want_rt == INF) or abs(got_rt - want_rt) <= 1e-6):
                rec.fail(case, "read-timeout-wrong", dict(obs, got=None if got_rt == INF else round(got_rt, 6), want=None if want_rt == INF else round(want_rt, 6), elapsed=elapsed), f"response wait used timeout {got_rt}, configured min(read, total - {elapsed}) = {want_rt}")
                return
            rdur = float(p.get("resp_dur", 0))
            if rdur > want_rt:
                if not isinstance(exc, ReadTimeoutError):
                    rec.fail(case, "read-timeout-not-raised", dict(obs), f"server took {rdur} > {want_rt} but outcome was {exc!r}")
                return
            if exc is not None:
                rec.fail(case, "unexpected-error", dict(obs, msg=str(exc)[:80]), f"request should have succeeded: {exc!r}")
                return
            if shared_obj is not None and hasattr(shared_obj, "_start_connect") and shared_obj._start_connect is not None:
                rec.fail(case, "shared-timeout-clock-started", obs, "the pool-level Timeout object's own clock was started by a request")
                return
    if rec.evaluations % 1777 == 0:
        rec.sample(case)


def run_invalid(ctx: Ctx, rec: Recorder) -> None:
    from urllib3.util import Timeout

    i = 0
    for bad in INVALID:
        for field in ("total", "connect", "read"):
            i += 1
            if not ctx.mine(i):
                continue
            rec.case(["invalid", repr(bad), field])
            rec.mon("invalid_rejected")
            val = bad() if bad is object else bad
            try:
                Timeout(**{field: val})
                rec.fail({"invalid": repr(bad), "field": field}, "invalid-timeout-accepted", {"value": repr(bad), "field": field}, f"Timeout({field}={bad!r}) was accepted")
            except ValueError:
                pass
            except Exception as e:  # noqa: BLE001
                rec.fail({"invalid": repr(bad), "field": field}, "invalid-timeout-wrong-exception", {"value": repr(bad), "exc": type(e).__name__}, f"Timeout({field}={bad!r}) raised {e!r}")
        if ctx.mine(i):
            # legacy float form at pool and request level
            import urllib3

            val = bad() if bad is object else bad
            rec.mon("invalid_rejected")
            try:
                urllib3.HTTPConnectionPool("t.test", 80, timeout=val)
                rec.fail({"invalid": repr(bad), "field": "pool-float"}, "invalid-timeout-accepted", {"value": repr(bad), "field": "pool"}, f"HTTPConnectionPool(timeout={bad!r}) accepted")
            except ValueError:
                pass
            with netsim.Net(TimedServer([{}])) as net:
                pool = urllib3.HTTPConnectionPool("t.test", 80, retries=False)
                try:
                    pool.urlopen("GET", "/", timeout=val)
                    rec.fail({"invalid": repr(bad), "field": "request-float"}, "invalid-timeout-accepted", {"value": repr(bad), "field": "request"}, f"urlopen(timeout={bad!r}) accepted")
                except ValueError:
                    if net.dials:
                        rec.fail({"invalid": repr(bad), "field": "request-float"}, "invalid-timeout-io-before-rejection", {"value": repr(bad)}, "I/O happened before the invalid timeout was rejected")
                except Exception as e:  # noqa: BLE001
                    rec.fail({"invalid": repr(bad), "field": "request-float"}, "invalid-timeout-wrong-exception", {"value": repr(bad), "exc": type(e).__name__}, repr(e))


def prime_valid_timeouts() -> None:
    """Valid timeouts that compare equal to an invalid value (1 == 1.0 == True, 0 < x): whether a value is accepted must
    not depend on what was validated earlier in the process."""
    import urllib3
    from urllib3.util import Timeout

    for v in (1, 1.0, 2, 0.5, 10, 3.0):
        Timeout(total=v, connect=v, read=v)
        Timeout.from_float(v)
        urllib3.HTTPConnectionPool("t.test", 80, timeout=v).close()
    with netsim.Net(TimedServer([{}, {}])) as net:
        pool = urllib3.HTTPConnectionPool("t.test", 80, retries=False, timeout=1)
        pool.urlopen("GET", "/", timeout=1.0)
        pool.close()


def run_shard(ctx: Ctx, rec: Recorder) -> None:
    run_invalid(ctx, rec)
    # ... and again after equal-valued valid timeouts have been used (validation must not be history dependent)
    prime_valid_timeouts()
    run_invalid(ctx, rec)
    rec.mon("invalid_after_priming")
    idx = 0
    stride = ctx.pick(2, 1)
    # full grid, one placement at a time; two requests per pool (the second reuses the connection unless the first failed)
    for T, C, R in itertools.product(VALS, VALS, VALS):
        spec = {"total": T, "connect": C, "read": R}
        for cd in CONNECT_DUR:
            for sd in (0, 0.2):
                for scheme in ("http", "https", "tunnel"):
                    for placement in ("pool", "request", "both"):
                        idx += 1
                        if not ctx.mine(idx) or ctx.skip(idx, stride):
                            continue
                        other = {"total": 7, "connect": 3, "read": 4}
                        plan = [{"connect_dur": cd, "send_dur": sd}, {"connect_dur": cd, "send_dur": sd, "resp_dur": 0.4}]
                        if placement == "pool":
                            case = {"scheme": scheme, "pool_timeout": spec, "plan": plan}
                        elif placement == "request":
                            plan = [dict(p, req_timeout=spec) for p in plan]
                            case = {"scheme": scheme, "pool_timeout": "absent", "plan": plan}
                        else:
                            plan = [dict(plan[0], req_timeout=spec), dict(plan[1])]  # second request falls back to the pool's
                            case = {"scheme": scheme, "pool_timeout": other, "plan": plan}
                        rec.case(["grid", spec, cd, sd, scheme, placement])
                        run_case(rec, case)
    # the same grid through a PoolManager that already holds pools for the host with timeouts that agree with this one on
    # some of (total, connect, read) and differ on the rest
    for T, C, R in itertools.product(VALS, VALS, VALS):
        spec = {"total": T, "connect": C, "read": R}
        num = lambda v: v if isinstance(v, (int, float)) else None  # noqa: E731
        eff_c = min([x for x in (num(C), num(T)) if x is not None], default=None)
        priors = [
            {"total": UNSET, "connect": eff_c if eff_c is not None else UNSET, "read": R},  # same connect bound, no total
            {"total": 10 if T != 10 else 2, "connect": C, "read": R},                        # only total differs
            {"total": T, "connect": C, "read": 2 if R != 2 else 10},                         # only read differs
            {"total": T, "connect": 2 if C != 2 else 10, "read": R},                         # only connect differs
        ]
        for cd in (0, 1):
            idx += 1
            if not ctx.mine(idx) or ctx.skip(idx, stride):
                continue
            plan = [{"connect_dur": cd, "send_dur": 0.2}, {"connect_dur": cd, "send_dur": 0, "resp_dur": 0.4}]
            case = {"scheme": "manager", "pool_timeout": spec, "prior": [p for p in priors if p != spec], "plan": plan}
            rec.case(["manager-prior", spec, cd])
            rec.mon("manager_prior_pools")
            run_case(rec, case)
    rec.exhaustive_parts.append(f"(total, connect, read) in {VALS}^3 x connect durations {CONNECT_DUR} x send duration 0/0.2 x http/https x placement pool/request/both, two requests each, strided 1/{stride}")
    # legacy number form and response durations
    for v in (0.5, 2, 10, None, 3):
        for cd in CONNECT_DUR:
            for rd in (0, 0.4, 1.5, 9, 30):
                for placement in ("pool", "request"):
                    idx += 1
                    if not ctx.mine(idx):
                        continue
                    plan = [{"connect_dur": cd, "resp_dur": rd}, {"resp_dur": rd}]
                    case = {"scheme": "http", "pool_timeout": v if placement == "pool" else "absent", "plan": [dict(p, **({"req_timeout": v} if placement == "request" else {})) for p in plan]}
                    rec.case(["num", v, cd, rd, placement])
                    run_case(rec, case)
    # random mixes with three requests
    rng = ctx.rng
    for i in range(ctx.pick(1500, 40000)):
        if ctx.out_of_time(0.9):
            break
        def rs() -> typing.Any:
            return rng.choice([{"total": rng.choice(VALS), "connect": rng.choice(VALS), "read": rng.choice(VALS)}, rng.choice([0.5, 2, 10, None, 1])])
        plan = []
        for _ in range(3):
            p = {"connect_dur": rng.choice(CONNECT_DUR), "send_dur": rng.choice([0, 0, 0.2, 1.5]), "resp_dur": rng.choice([0, 0, 0.4, 3, 12])}
            if rng.random() < 0.5:
                p["req_timeout"] = rs()
            plan.append(p)
        case = {"scheme": rng.choice(["http", "https", "tunnel"]), "pool_timeout": rs() if rng.random() < 0.7 else "absent", "plan": plan}
        rec.case(["rand", case])
        run_case(rec, case)


def replay(case: dict[str, typing.Any], ctx: Ctx, rec: Recorder) -> None:
    if "plan" not in case:
        run_invalid(Ctx(ctx.prop, ctx.tier, ctx.seed, 0, 1, ctx.budget_s), rec)
        return
    rec.case(case)
    run_case(rec, case)
