"""C14 — URL parsing is total, canonical, and agrees with RFC 3986 on what the host is.

Monitor: parse_url is called on generated strings; each return value / exception is judged by
(1) totality, (2) the normal-form predicate for http/https results, (3) idempotence through Url.url,
(4) agreement of host / port / userinfo with an independent RFC 3986 authority split, (5) CPU-time
scaling on pathological repetitions."""
from __future__ import annotations

import itertools
import re
import time
import typing

from vf.core import Ctx, Recorder

ALPHA20 = ["a", "A", "/", "\\", "@", ":", "?", "#", "%", "[", "]", ".", "0", "9", " ", "\n", "é", "-", "2", "F"]
PREFIXES = ["", "//", "http://", "HTTPS://x"]

UNRESERVED = set("ABCDEFGHIJKLMNOPQRSTUVWXYZabcdefghijklmnopqrstuvwxyz0123456789._-~")
SUBDELIM = set("!$&'()*+,;=")
USERINFO_OK = UNRESERVED | SUBDELIM | {":"}
PATH_OK = USERINFO_OK | {"@", "/"}
QUERY_OK = PATH_OK | {"?"}
HEXU = set("0123456789ABCDEF")
HEXALL = set("0123456789abcdefABCDEF")

HAS_AUTHORITY = re.compile(r"^(?:[a-zA-Z][a-zA-Z0-9+.\-]*:)?//", re.DOTALL)


# ------------------------------------------------------------------ reference reading ---------
def pct_decode(b: bytes) -> bytes:
    out = bytearray()
    i, n = 0, len(b)
    while i < n:
        c = b[i]
        if c == 0x25:
            h = b[i + 1 : i + 3]
            if len(h) == 2 and all(chr(x) in HEXALL for x in h):
                out.append(int(h, 16))
                i += 3
                continue
        out.append(c)
        i += 1
    return bytes(out)


def ref_split(s: str) -> dict[str, typing.Any] | None:
    """Independent reading of scheme://authority: authority ends at the first '/', '?', '#' or '\\';
    userinfo precedes the LAST '@'; the port follows the last ':' outside brackets."""
    m = HAS_AUTHORITY.match(s)
    if not m:
        return None
    rest = s[m.end() :]
    end = len(rest)
    for i, ch in enumerate(rest):
        if ch in "/?#\\":
            end = i
            break
    authority = rest[:end]
    if "@" in authority:
        at = authority.rindex("@")
        userinfo: str | None = authority[:at]
        hostport = authority[at + 1 :]
    else:
        userinfo, hostport = None, authority
    if hostport.startswith("["):
        close = hostport.find("]")
        if close < 0:
            return {"invalid": "unclosed bracket"}
        host = hostport[: close + 1]
        tail = hostport[close + 1 :]
        if tail == "":
            port = None
        elif tail.startswith(":"):
            port = tail[1:]
        else:
            return {"invalid": "junk after ]"}
    else:
        if ":" in hostport:
            c = hostport.rindex(":")
            host, port = hostport[:c], hostport[c + 1 :]
        else:
            host, port = hostport, None
    return {"userinfo": userinfo, "host": host, "port": port}


def norm_host_ref(host: str) -> str | None:
    if host == "":
        return None
    h = host
    if h.startswith("["):
        # zone separator %25 and % are the same thing
        body = h[1:-1]
        if "%" in body:
            addr, zone = body.split("%", 1)
            if zone.startswith("25") and zone != "25":
                zone = zone[2:]
            return "[" + addr.lower() + "%" + pct_decode(zone.encode("utf-8", "surrogatepass")).decode("latin-1") + "]"
        return h.lower()
    if not h.isascii():
        try:
            import idna

            return ".".join(idna.encode(lab.lower(), strict=True, std3_rules=True).decode("ascii") if not lab.isascii() else lab.lower() for lab in h.split("."))
        except Exception:  # noqa: BLE001
            return "<idna-invalid>"
    return h.lower()


def norm_host_real(host: str | None) -> str | None:
    if host is None or host == "":
        return None
    if host.startswith("[") and "%" in host:
        addr, zone = host[1:-1].split("%", 1)
        return "[" + addr.lower() + "%" + pct_decode(zone.encode("utf-8", "surrogatepass")).decode("latin-1") + "]"
    return host.lower()


# ------------------------------------------------------------------ normal-form predicate -----
def component_ok(comp: str | None, allowed: set[str]) -> str | None:
    if comp is None:
        return None
    i, n = 0, len(comp)
    while i < n:
        ch = comp[i]
        if ch == "%":
            if i + 2 > n - 1:
                return f"truncated escape at {i}"
            if comp[i + 1] not in HEXU or comp[i + 2] not in HEXU:
                return f"bad or lower-case escape {comp[i:i+3]!r}"
            i += 3
            continue
        if ch not in allowed:
            return f"illegal character {ch!r}"
        i += 1
    return None


class CaseCpuLimit(BaseException):
    """Raised from the SIGVTALRM handler: one parse_url call burnt more CPU than any linear-time parser could."""


def _on_vtalrm(signum: int, frame: typing.Any) -> None:
    raise CaseCpuLimit()


PER_CALL_CPU_S = 8.0


def judge(rec: Recorder, s: str, tag: str) -> None:
    import signal

    from urllib3.exceptions import LocationParseError
    from urllib3.util.url import parse_url

    case = {"url": s, "gen": tag}
    rec.mon("totality")
    signal.signal(signal.SIGVTALRM, _on_vtalrm)
    signal.setitimer(signal.ITIMER_VIRTUAL, PER_CALL_CPU_S)  # python 3.12's re engine honours signals
    try:
        try:
            u = parse_url(s)
        finally:
            signal.setitimer(signal.ITIMER_VIRTUAL, 0)
    except CaseCpuLimit:
        rec.fail(case, "super-linear-time", {"family": "generated-input", "length": len(s)}, f"parse_url on a {len(s)}-character input did not finish within {PER_CALL_CPU_S}s of CPU")
        return
    except LocationParseError:
        rec.count("rejected")
        return
    except BaseException as e:  # noqa: BLE001
        if isinstance(e, (KeyboardInterrupt, SystemExit)):
            raise
        rec.fail(case, "non-urllib3-exception", {"exc": type(e).__name__}, f"parse_url raised {type(e).__name__}: {e!s:.100}")
        return
    rec.count("accepted")
    ok = True
    if u.scheme in ("http", "https"):
        rec.mon("normal_form")
        problems = []
        if u.scheme != u.scheme.lower():
            problems.append("scheme not lower-case")
        if u.host is not None:
            hh = u.host.split("%", 1)[0] if u.host.startswith("[") else u.host
            if hh != hh.lower():
                problems.append("host not lower-case")
        if u.port is not None and not (isinstance(u.port, int) and 0 <= u.port <= 65535):
            problems.append(f"port {u.port!r} out of range")
        if u.path is not None and any(seg in (".", "..") for seg in u.path.split("/")):
            problems.append("dot-segment left in path")
        for name, comp, allowed in (("auth", u.auth, USERINFO_OK), ("path", u.path, PATH_OK), ("query", u.query, QUERY_OK), ("fragment", u.fragment, QUERY_OK)):
            why = component_ok(comp, allowed)
            if why:
                problems.append(f"{name}: {why}")
        if problems:
            ok = False
            rec.fail(case, "not-normal-form", {"problems": [p.split(":")[0] for p in problems]}, "; ".join(problems) + f" in {u!r}")
        # idempotence
        rec.mon("idempotence")
        try:
            u2 = parse_url(u.url)
            if u2 != u:
                diff = [f for f in u._fields if getattr(u, f) != getattr(u2, f)]
                rec.fail(case, "not-idempotent", {"fields": diff, "first": {f: getattr(u, f) for f in diff}, "second": {f: getattr(u2, f) for f in diff}}, f"parse_url({u.url!r}) = {u2!r} != {u!r}")
                ok = False
        except LocationParseError:
            rec.fail(case, "not-idempotent", {"fields": ["<reparse rejected>"]}, f"re-parsing {u.url!r} raised LocationParseError")
            ok = False
        except Exception as e:  # noqa: BLE001
            rec.fail(case, "non-urllib3-exception", {"exc": type(e).__name__, "on": "reparse"}, f"re-parse raised {e!r}")
            ok = False
    # reference agreement (any scheme) when the RFC reading has an authority
    ref = ref_split(s)
    if ref is not None:
        rec.mon("reference_split")
        if "invalid" in ref:
            rec.count("accepted_but_reference_invalid_authority")
            # urllib3 accepted an authority the reference cannot split; judge only that no host came out of nowhere
            if u.host not in (None, ""):
                rec.fail(case, "host-from-unsplittable-authority", {"host": u.host, "why": ref["invalid"]}, f"reference cannot split authority ({ref['invalid']}) but parse_url produced host {u.host!r}")
            return
        want_host = norm_host_ref(ref["host"])
        # the same normalisation is applied to both sides: non-http schemes are returned un-normalised by design
        got_host = norm_host_ref(u.host) if u.host else None
        want_port: int | None
        if ref["port"] in (None, ""):
            want_port = None
        elif ref["port"].isascii() and ref["port"].isdigit():
            want_port = int(ref["port"])
        else:
            want_port = -1  # a non-numeric port can never be a successful parse
        disagreements = []
        if want_host != got_host:
            disagreements.append("host")
        if want_port != u.port:
            disagreements.append("port")
        ru = ref["userinfo"]
        if (ru or None) is None:
            if u.auth not in (None, ""):
                disagreements.append("userinfo")
        else:
            raw = ru.encode("utf-8", "surrogatepass")
            got = pct_decode((u.auth or "").encode("utf-8", "surrogatepass"))
            # (a userinfo mixing valid and invalid '%' is by design treated as unencoded: every '%' is escaped after
            # the hex digits of the valid escapes were upper-cased, so one decoding gives the raw text in that spelling)
            raw_uc = re.sub(rb"%[0-9A-Fa-f]{2}", lambda m: m.group(0).upper(), raw)
            if got not in (raw, pct_decode(raw), raw_uc):
                disagreements.append("userinfo")
        if disagreements:
            rec.fail(case, "reference-disagreement", {"fields": disagreements, "ref": {"host": want_host, "port": want_port, "userinfo": ru}, "got": {"host": u.host, "port": u.port, "auth": u.auth}}, f"independent reading: host={want_host!r} port={want_port!r} userinfo={ru!r}; parse_url: host={u.host!r} port={u.port!r} auth={u.auth!r}")
            ok = False
    if ok and u.host and rec.evaluations % 70001 == 0:
        rec.sample({"url": s, "parsed": list(u)})


# ------------------------------------------------------------------ generators ----------------
HOSTS = ["h.test", "H.Test", "a", "1.2.3.4", "01.2.3.4", "1.2.3.256", "[::1]", "[FE80::1%25eth0]", "[fe80::1%eth0]", "[::1%25]", "[v1.x]", "[::g]", "bücher.de", "xn--bcher-kva.de", "ドメイン.テスト", "a..b", ".a", "a.", "-a.b", "a_b", "%41", "%zz", "a%2eb", "", "h\\x", "h x", "h\tx", "\ud800", "a" * 64 + ".b", "é" * 64]
USERINFOS = ["", "u", "u:p", "u@v", "u:p@w:q", "%41", "%zz", "a%4", "é", "u p", "u\\p", "@", ":", "a/b"]
PORTS = ["", ":", ":80", ":0", ":00080", ":65535", ":65536", ":99999", ":100000", ":8o", ":-1", ":٨٠", ":80:81", ": 80", ":+80"]
PATHS = ["", "/", "/a/b", "/a/../b", "/./a", "/a/.", "/..", "/../..", "/a//b", "/%2e%2e/x", "/a b", "/é", "/%zz", "/%41%zz", "/a%2Fb", "/a\\b", "/a;p=1", "/.hidden", "/a/...", "/\ud800", "a", "../x", "/a\nb", "/a\r\nX: y"]
QUERIES = ["", "?", "?a=b", "?a=b&c=d", "?%41", "?%zz", "?a b", "?é", "?a?b", "?a#b", "?a\\b", "?\n"]
FRAGS = ["", "#", "#f", "#f#g", "#%41", "#é", "# ", "#a?b", "#\\"]
SCHEMES = ["http://", "https://", "HTTP://", "HtTpS://", "//", "", "http:", "http:/", "http:\\\\", "ftp://", "ws://", "a.b://", "1http://", "http+unix://", "file:///"]


def grammar_url(rng: typing.Any) -> str:
    s = rng.choice(SCHEMES)
    ui = rng.choice(USERINFOS)
    parts = [s]
    if ui or rng.random() < 0.1:
        parts.append(ui + "@")
    parts.append(rng.choice(HOSTS))
    parts.append(rng.choice(PORTS))
    parts.append(rng.choice(PATHS))
    parts.append(rng.choice(QUERIES))
    parts.append(rng.choice(FRAGS))
    out = "".join(parts)
    r = rng.random()
    if r < 0.15:  # splice a hostile character somewhere
        pos = rng.randrange(len(out) + 1)
        out = out[:pos] + rng.choice(["\\", "@", "#", "?", "/", "%", "[", "]", ":", "\n", "\r", "\x00", " ", "é", "\ud800"]) + out[pos:]
    elif r < 0.2:
        pos = rng.randrange(len(out) + 1)
        out = out[:pos] + out[pos + 1 :]
    return out


def random_text(rng: typing.Any) -> str:
    n = rng.randint(0, 24)
    pools = ["ahtp:/@#?%[].0-9\\", "aA/\\@:?#%[]. \n\t\x00", "éß中\u200d\U0001F600\ud800\udfff%25"]
    out = []
    for _ in range(n):
        r = rng.random()
        if r < 0.6:
            out.append(rng.choice(pools[0]))
        elif r < 0.85:
            out.append(rng.choice(pools[1]))
        elif r < 0.95:
            out.append(rng.choice(pools[2]))
        else:
            out.append(chr(rng.randrange(0x110000)))
    return "".join(out)


REPEATS = [
    ("a*n", lambda n: "a" * n),
    ("%*n", lambda n: "http://h/" + "%" * n),
    ("@*n", lambda n: "http://" + "@" * n + "h/"),
    (":*n", lambda n: "http://h" + ":" * n),
    ("/../*n", lambda n: "http://h" + "/../" * n),
    ("/a/..*n", lambda n: "http://h" + "/a/.." * n),
    ("port0*n", lambda n: "http://h:" + "0" * n),
    ("port0*n1", lambda n: "http://h:" + "0" * n + "1x"),
    ("[*n", lambda n: "http://" + "[" * n),
    (".*n-host", lambda n: "http://" + "." * n + "/"),
    ("a.*n-host", lambda n: "http://" + "a." * n + "/"),
    ("%41*n", lambda n: "http://h/" + "%41" * n),
    ("%41*n-host", lambda n: "http://" + "%41" * n + "/"),
    ("é*n-path", lambda n: "http://h/" + "é" * n),
    ("é*n-host", lambda n: "http://" + "é" * n + "/"),
    ("é.*n-host", lambda n: "http://" + "é." * n + "/"),
    ("?*n", lambda n: "http://h/" + "?" * n),
    ("#*n", lambda n: "http://h/" + "#" * n),
    ("\\*n", lambda n: "http://h" + "\\" * n),
    ("userinfo:*n", lambda n: "http://" + "u:" * n + "@h/"),
    ("space*n", lambda n: "http://h/" + " " * n),
    ("scheme-a*n", lambda n: "a" * n + "://h/"),
    ("ipv6-0:*n", lambda n: "http://[" + "0:" * n + "]/"),
    ("zone*n", lambda n: "http://[::1%25" + "z" * n + "]/"),
    ("digits-host", lambda n: "http://" + "1" * n + "/"),
    ("1.*n-host", lambda n: "http://" + "1." * n + "/"),
    # authorities that FAIL to match after a long run (backtracking shows only on failure)
    ("host-a*n:x", lambda n: "http://" + "a" * n + ":x/"),
    ("host-a*n:123456", lambda n: "http://" + "a" * n + ":123456"),
    ("host-a*n[", lambda n: "http://" + "a" * n + "["),
    ("host-a*n%", lambda n: "http://" + "a" * n + "%"),
    ("host-a*n%zz", lambda n: "//" + "a" * n + "%zz/"),
    ("host-(a%41)*n:x", lambda n: "http://" + "a%41" * n + ":x"),
    ("host-1.*n:x", lambda n: "http://" + "1." * n + ":x"),
    ("userinfo-a*n@h:x", lambda n: "http://" + "a" * n + "@h:x"),
    ("ipv6-[::*n", lambda n: "http://[" + ":" * n + "]:x"),
    ("ipv6-[1:*n", lambda n: "http://[" + "1:" * n + "x]"),
    ("zone-%*n", lambda n: "http://[::1%25" + "%" * n + "]"),
    ("zone-%41*n-x", lambda n: "http://[::1%25" + "%41" * n + "%]"),
    ("path-%4*n", lambda n: "http://h/" + "%4" * n),
    ("scheme-a.*n://", lambda n: "a." * n + "://h/"),
    ("scheme-a+*n:x", lambda n: "a+" * n + ":x"),
    ("target-?*n", lambda n: "/" + "?" * n + "#" * n),
    # two-phase shapes: build a long state, then consume it piecewise
    ("/a*n/..*n", lambda n: "http://h" + "/a" * n + "/.." * n),
    ("/a*n/..*n/.", lambda n: "http://h" + "/ab" * n + "/../." * n),
    ("/.*n", lambda n: "http://h" + "/." * n),
    ("userinfo-%41*n%", lambda n: "http://" + "%41" * n + "%@h/"),
    ("query-a&*n", lambda n: "http://h/?" + "a&" * n + "%"),
    ("frag-é*n%41", lambda n: "http://h/#" + "é" * n + "%41"),
    ("host-label.*n-idna", lambda n: "http://" + "xn--a." * n + "é/"),
]


SIZES = [1000, 4000, 16000, 64000, 100000]
CPU_LIMIT = 5.0


def timing_child(index: int) -> None:
    """Runs in its own process (python -m vf.props.c14 <family index>): prints one JSON line per size."""
    import json as _json
    import sys as _sys

    from urllib3.exceptions import LocationParseError
    from urllib3.util.url import parse_url

    name, gen = REPEATS[index]
    for n in SIZES:
        s = gen(n)
        best = 1e9
        exc = None
        for _ in range(3):
            t0 = time.thread_time()
            try:
                parse_url(s)
            except LocationParseError:
                pass
            except Exception as e:  # noqa: BLE001
                exc = type(e).__name__
            best = min(best, time.thread_time() - t0)
            if best > CPU_LIMIT:
                break
        print(_json.dumps({"n": n, "t": best, "exc": exc}), flush=True)
        if best > CPU_LIMIT:
            break
    _sys.exit(0)


def child_cpu_seconds(pid: int) -> float:
    try:
        with open(f"/proc/{pid}/stat") as fh:
            parts = fh.read().rsplit(")", 1)[1].split()
        import os as _os

        return (int(parts[11]) + int(parts[12])) / _os.sysconf("SC_CLK_TCK")
    except Exception:  # noqa: BLE001
        return -1.0


def measure_family(index: int, wall_limit: float) -> tuple[list[dict[str, typing.Any]], float | None]:
    """Returns (lines, cpu_seconds_when_killed or None)."""
    import json as _json
    import os as _os
    import select as _select
    import subprocess as _sp
    import sys as _sys

    p = _sp.Popen([_sys.executable, "-B", "-m", "vf.props.c14", str(index)], stdout=_sp.PIPE, stderr=_sp.DEVNULL, env=dict(_os.environ))
    lines: list[dict[str, typing.Any]] = []
    deadline = time.monotonic() + wall_limit
    buf = b""
    killed_cpu = None
    cpu_at_last_line = 0.0
    assert p.stdout is not None
    fd = p.stdout.fileno()
    while True:
        left = deadline - time.monotonic()
        cpu_now = child_cpu_seconds(p.pid)
        if left <= 0 or cpu_now - cpu_at_last_line > 3 * CPU_LIMIT:
            # one size did not finish within 3x the CPU limit (or the wall-clock watchdog fired)
            killed_cpu = cpu_now - cpu_at_last_line
            p.kill()
            break
        r, _, _ = _select.select([fd], [], [], min(left, 1.0))
        if r:
            chunk = _os.read(fd, 65536)
            if not chunk:
                break
            buf += chunk
            while b"\n" in buf:
                ln, buf = buf.split(b"\n", 1)
                if ln.strip():
                    lines.append(_json.loads(ln))
                    cpu_at_last_line = child_cpu_seconds(p.pid)
        elif p.poll() is not None:
            break
    p.wait()
    return lines, killed_cpu


def run_timing(ctx: Ctx, rec: Recorder) -> None:
    for i, (name, _gen) in enumerate(REPEATS):
        if not ctx.mine(i):
            continue
        rec.case(["timing", name])
        lines, killed_cpu = measure_family(i, wall_limit=90.0)
        rec.mon("scaling")
        rec.seen("timing_families", name)
        times = [ln["t"] for ln in lines]
        for ln in lines:
            if ln.get("exc"):
                rec.fail({"url_family": name, "n": ln["n"]}, "non-urllib3-exception", {"exc": ln["exc"]}, f"{name} n={ln['n']}: raised {ln['exc']}")
        breach = None
        if killed_cpu is not None:
            done = len(lines)
            if killed_cpu > 2.9 * CPU_LIMIT:
                breach = f"family {name}: size {SIZES[min(done, len(SIZES) - 1)]} not finished after {killed_cpu:.0f}s CPU (3 runs, limit {CPU_LIMIT}s each)"
            else:
                rec.note_inconclusive(f"timing child for {name} hit the wall-clock watchdog with only {killed_cpu:.1f}s CPU (machine overloaded)")
                continue
        for ln in lines:
            if ln["t"] > CPU_LIMIT:
                breach = breach or f"t({ln['n']})={ln['t']:.2f}s > {CPU_LIMIT}s for family {name}"
        for k in range(1, len(times)):
            a, b = times[k - 1], times[k]
            if a > 0.02 and SIZES[k] / SIZES[k - 1] <= 4.01 and b / a > 12:
                breach = breach or f"growth x{b/a:.1f} for a x{SIZES[k]/SIZES[k-1]:.1f} size step in family {name}: {times}"
        if breach:
            # confirm once more from a fresh process before it counts
            lines2, killed2 = measure_family(i, wall_limit=90.0)
            t2 = [ln["t"] for ln in lines2]
            again = (killed2 is not None and killed2 > 2.9 * CPU_LIMIT) or any(t > CPU_LIMIT for t in t2) or any(t2[k - 1] > 0.02 and t2[k] / t2[k - 1] > 12 for k in range(1, len(t2)))
            if again:
                rec.fail({"url_family": name}, "super-linear-time", {"family": name, "times": times, "killed_after_cpu_s": killed_cpu}, breach)
            else:
                rec.count("timing_breach_not_confirmed")
        if i % 9 == 0:
            rec.sample({"timing_family": name, "sizes": SIZES[: len(times)], "cpu_seconds": [round(t, 5) for t in times]})


def run_shard(ctx: Ctx, rec: Recorder) -> None:
    run_timing(ctx, rec)
    # (i) exhaustive short strings
    depth_all = ctx.pick(4, 5)   # every prefix
    depth_http = ctx.pick(4, 6)  # only behind 'http://'
    idx = 0
    for L in range(0, depth_http + 1):
        for tup in itertools.product(ALPHA20, repeat=L):
            idx += 1
            if not ctx.mine(idx):
                continue
            body = "".join(tup)
            for p in PREFIXES if L <= depth_all else PREFIXES[2:3]:
                s = p + body
                rec.case(s, nontrivial=L > 0)
                judge(rec, s, "exh")
    rec.exhaustive_parts.append(f"all strings of length<={depth_all} over the 20-symbol alphabet behind each of {PREFIXES}; length<={depth_http} behind 'http://'")
    # (i-b') refused strings inside call histories: a refusal leaves nothing behind
    hi = 0
    bad = ["http://evil.example:99999/", "http://[::1", "http://a b.test/", "http://h.test:8o/", "http://[v1.x/", "//[::g]/p", "http://\ud800.test/"]
    good = ["https://bank.example/login", "http://OK.example:8080/p?q#f", "//h.test/x"]
    for b in bad:
        for g in good:
            hi += 1
            if not ctx.mine(hi):
                continue
            rec.case(["history-refused", g, b])
            judge_history(rec, [g, b, b, g, b, b, b, g])
    # (i-b) call histories: one host spelling under schemes that are and are not normalised, in both orders
    for h in HISTORY_HOSTS:
        for rot in range(len(HISTORY_SCHEMES)):
            for tail in ("/p", "", "/P?Q#F"):
                hi += 1
                if not ctx.mine(hi):
                    continue
                order = HISTORY_SCHEMES[rot:] + HISTORY_SCHEMES[:rot]
                urls = [sc + h + tail for sc in order]
                rec.case(["history", urls])
                judge_history(rec, urls + urls[:3])
    # (ii) grammar, (iii) random text
    n_g = ctx.pick(20000, 700000)
    for i in range(n_g):
        if ctx.out_of_time(0.9):
            rec.count("grammar_cut_short_by_budget")
            break
        s = grammar_url(ctx.rng)
        rec.case(s)
        judge(rec, s, "grammar")
        if i % 4 == 0:
            s = random_text(ctx.rng)
            rec.case(s)
            judge(rec, s, "random")


HISTORY_HOSTS = ["EXAMPLE.com", "MiXeD.Example.TEST", "b\u00fccher.example", "B\u00dcCHER.example", "[FE80::ABCD]", "[2001:DB8::1]", "UPPER.test:8080", "user@HOST.test", "xn--Bcher-kva.example", "A.B.C.D.E.test."]
HISTORY_SCHEMES = ["ftp://", "http://", "socks5h://", "HTTPS://", "//", "ws://", "http://", "", "https://"]


def judge_history(rec: Recorder, urls: list[str]) -> None:
    """parse_url is a function of its argument: the same string must give the same result whatever was parsed
    before it (module-level caches keyed on too little would break this), and every result along the way is
    judged by the ordinary monitors."""
    from urllib3.exceptions import LocationParseError
    from urllib3.util.url import parse_url

    first: dict[str, typing.Any] = {}

    def outcome(u: str) -> typing.Any:
        try:
            return tuple(parse_url(u))
        except LocationParseError:
            return "rejected"

    for i, u in enumerate(urls):
        # the very first answer for this position, before anything else looks at the string: a string that is refused
        # must be refused again when it is handed in twice in a row
        r_first = outcome(u)
        first.setdefault(u, r_first)
        n_before = rec.failure_count
        judge(rec, u, "history")
        if rec.failure_count != n_before and rec.failures and rec.failures[-1]["case"].get("url") == u:
            rec.failures[-1]["case"] = {"history": urls[: i + 1], "gen": "history"}
        try:
            r: typing.Any = tuple(parse_url(u))
        except LocationParseError:
            r = "rejected"
        rec.mon("history_purity")
        if u in first and first[u] != r:
            rec.fail({"history": urls[: i + 1], "gen": "history"}, "result-depends-on-call-history", {"url": u, "first": repr(first[u])[:150], "now": repr(r)[:150]}, f"parse_url({u!r}) returned {r!r} after having returned {first[u]!r} earlier in the same process")
            return
        first.setdefault(u, r)


def replay(case: dict[str, typing.Any], ctx: Ctx, rec: Recorder) -> None:
    if "history" in case:
        rec.case(case["history"])
        judge_history(rec, case["history"])
        return
    if "url" in case:
        rec.case(case["url"])
        judge(rec, case["url"], "replay")
    else:
        run_timing(Ctx(ctx.prop, ctx.tier, ctx.seed, 0, 1, ctx.budget_s), rec)


if __name__ == "__main__":
    import sys as _s

    timing_child(int(_s.argv[1]))
