"""C17 — the pool cache is bounded, consistent, and never leaks an evicted pool.

Monitors: (i) every sequential operation history of the real RecentlyUsedContainer is compared with a
sequential LRU model incl. its dispose log; (ii) concurrent histories produced under the controlled
scheduler are checked for linearizability against that model, exactly-once disposal, conservation and
'dispose never under the lock'; (iii) PoolManager: bound, same-key-same-pool under races, in-flight
responses across evictions, socket sweep after dropping evicted pools."""
from __future__ import annotations

import gc
import itertools
import typing

from vf import netsim, sched, wire
from vf.core import Ctx, Recorder

KEYERR = "<KeyError>"


# ------------------------------------------------------------------ sequential LRU model ------
class LRU:
    def __init__(self, maxsize: int):
        self.maxsize = maxsize
        self.items: list[tuple[typing.Any, typing.Any]] = []  # least recently used first
        self.disposed: list[typing.Any] = []

    def clone(self) -> "LRU":
        m = LRU(self.maxsize)
        m.items = list(self.items)
        m.disposed = list(self.disposed)
        return m

    def state(self) -> tuple[typing.Any, ...]:
        return (tuple(self.items), tuple(self.disposed))

    def apply(self, op: str, k: typing.Any = None, v: typing.Any = None) -> typing.Any:
        if op == "get":
            for i, (kk, vv) in enumerate(self.items):
                if kk == k:
                    self.items.append(self.items.pop(i))
                    return vv
            return KEYERR
        if op == "set":
            for i, (kk, vv) in enumerate(self.items):
                if kk == k:
                    self.items.pop(i)
                    self.items.append((k, v))
                    self.disposed.append(vv)
                    return None
            self.items.append((k, v))
            if len(self.items) > self.maxsize:
                _, old = self.items.pop(0)
                self.disposed.append(old)
            return None
        if op == "del":
            for i, (kk, vv) in enumerate(self.items):
                if kk == k:
                    self.items.pop(i)
                    self.disposed.append(vv)
                    return None
            return KEYERR
        if op == "clear":
            for _, vv in self.items:
                self.disposed.append(vv)
            self.items = []
            return None
        if op == "len":
            return len(self.items)
        if op == "keys":
            return tuple(sorted(kk for kk, _ in self.items))
        raise ValueError(op)


def real_apply(c: typing.Any, op: str, k: typing.Any = None, v: typing.Any = None) -> typing.Any:
    try:
        if op == "get":
            return c[k]
        if op == "set":
            c[k] = v
            return None
        if op == "del":
            del c[k]
            return None
        if op == "clear":
            c.clear()
            return None
        if op == "len":
            return len(c)
        if op == "keys":
            return tuple(sorted(c.keys()))
    except KeyError:
        return KEYERR
    raise ValueError(op)


def make_container(maxsize: int, disposed: list[typing.Any], lock_violations: list[typing.Any]) -> typing.Any:
    from urllib3._collections import RecentlyUsedContainer

    lock = sched.SchedRLock()

    def dispose(v: typing.Any) -> None:
        disposed.append(v)
        if lock.held_by_current():
            lock_violations.append(v)

    c = RecentlyUsedContainer(maxsize, dispose_func=dispose)
    c.lock = lock  # documented instance attribute; cooperative under the scheduler, plain re-entrant lock outside
    return c


# ------------------------------------------------------------------ (i) sequential ------------
def run_sequential(ctx: Ctx, rec: Recorder) -> None:
    nkeys = ctx.pick(3, 4)
    depth = ctx.pick(5, 6)
    keys = ["k%d" % i for i in range(nkeys)]
    ops: list[tuple[str, typing.Any]] = [("get", k) for k in keys] + [("set", k) for k in keys] + [("del", k) for k in keys] + [("clear", None), ("len", None)]
    idx = 0
    cut = False
    # shorter histories first for every maxsize, so that a budget cut only ever drops part of the deepest level
    for L in range(1, depth + 1):
        for maxsize in (0, 1, 2, 3):
            for seq in itertools.product(ops, repeat=L):
                idx += 1
                if not ctx.mine(idx):
                    continue
                if idx % 8192 < ctx.nshards and ctx.out_of_time(0.4):
                    cut = True
                    break
                disposed: list[typing.Any] = []
                lockv: list[typing.Any] = []
                c = make_container(maxsize, disposed, lockv)
                m = LRU(maxsize)
                vid = 0
                ok = True
                for step, (op, k) in enumerate(seq):
                    v = None
                    if op == "set":
                        vid += 1
                        v = vid
                    got = real_apply(c, op, k, v)
                    want = m.apply(op, k, v)
                    if got != want or disposed != m.disposed:
                        rec.case(["seq", maxsize, list(seq)])
                        rec.fail({"mode": "sequential", "maxsize": maxsize, "ops": [list(x) for x in seq]}, "sequential-model-mismatch", {"step": step, "op": op, "got": got, "want": want, "disposed": disposed[-3:], "model_disposed": m.disposed[-3:], "maxsize": maxsize}, f"maxsize={maxsize} step {step} {op}({k}): got {got!r} want {want!r}; disposed {disposed} vs model {m.disposed}")
                        ok = False
                        break
                rec.evaluations += 1
                if L >= 3:
                    rec.distinct.add(hash((maxsize, seq)) & 0xFFFFFFFFFFFF)
                rec.mon("sequential_history")
                if ok:
                    if lockv:
                        rec.fail({"mode": "sequential", "maxsize": maxsize, "ops": [list(x) for x in seq]}, "dispose-under-lock", {"values": lockv[:3]}, "dispose callback entered while the container's lock was held")
                    elif real_apply(c, "keys") != m.apply("keys") or len(c) != len(m.items) or len(c) > max(maxsize, 0):
                        rec.fail({"mode": "sequential", "maxsize": maxsize, "ops": [list(x) for x in seq]}, "final-state-mismatch", {"keys": real_apply(c, "keys"), "model": m.apply("keys")}, "final keys differ from the model")
            if cut:
                break
        if cut:
            rec.count("sequential_cut_short_by_budget")
            depth = L - 1
            break
    rec.exhaustive_parts.append(f"all operation sequences of length<={depth} over get/set/del x {nkeys} keys + clear + len, maxsize in 0..3, vs the sequential LRU model with dispose log")


# ------------------------------------------------------------------ (ii) concurrent container -
_instr = False


def setup_instrumentation() -> None:
    global _instr
    if _instr:
        return
    import urllib3._collections
    import urllib3.connectionpool
    import urllib3.poolmanager

    codes = sched.code_objects_of(urllib3._collections, ["RecentlyUsedContainer.__getitem__", "RecentlyUsedContainer.__setitem__", "RecentlyUsedContainer.__delitem__", "RecentlyUsedContainer.__len__", "RecentlyUsedContainer.clear", "RecentlyUsedContainer.keys"])
    codes += sched.code_objects_of(urllib3.poolmanager, ["PoolManager.connection_from_pool_key", "PoolManager.connection_from_context", "PoolManager.connection_from_host", "PoolManager.connection_from_url", "PoolManager.clear", "PoolManager._new_pool", "PoolManager.urlopen"])
    sched.instrument(codes)
    _instr = True


def linearizable(history: list[dict[str, typing.Any]], maxsize: int, budget: int = 200000) -> tuple[bool | None, typing.Any]:
    """history entries: {id, call, ret, op, k, v, result}.  Returns (True/False/None=budget exhausted, final model)."""
    n = len(history)
    seen: set[tuple[int, typing.Any]] = set()
    nodes = [0]

    def dfs(remaining: int, model: LRU) -> LRU | None:
        if remaining == 0:
            return model
        key = (remaining, model.state())
        if key in seen:
            return None
        seen.add(key)
        nodes[0] += 1
        if nodes[0] > budget:
            raise TimeoutError
        # minimal ops: no other remaining op returned before this one was called
        min_ret = min(history[i]["ret"] for i in range(n) if remaining >> i & 1)
        for i in range(n):
            if not (remaining >> i & 1):
                continue
            h = history[i]
            if h["call"] > min_ret:
                continue
            m2 = model.clone()
            if m2.apply(h["op"], h["k"], h["v"]) == h["result"]:
                r = dfs(remaining & ~(1 << i), m2)
                if r is not None:
                    return r
        return None

    try:
        final = dfs((1 << n) - 1, LRU(maxsize))
    except TimeoutError:
        return None, None
    return final is not None, final


def cache_linearizable(history: list[dict[str, typing.Any]], num_pools: int, budget: int = 300000) -> bool | None:
    """Sequential spec: lookup(K) returns the cached object for K (refreshing it) or, on a miss, an object never
    handed out before, which is inserted (evicting the least recently used beyond num_pools); clear() empties;
    len() reports the number of entries."""
    n = len(history)
    if n > 24:
        return None
    seen: set[tuple[int, tuple[typing.Any, ...], frozenset[int]]] = set()
    nodes = [0]

    def dfs(remaining: int, cache: tuple[tuple[str, int], ...], created: frozenset[int]) -> bool:
        if remaining == 0:
            return True
        key = (remaining, cache, created)
        if key in seen:
            return False
        seen.add(key)
        nodes[0] += 1
        if nodes[0] > budget:
            raise TimeoutError
        min_ret = min(history[i]["ret"] for i in range(n) if remaining >> i & 1)
        for i in range(n):
            if not (remaining >> i & 1):
                continue
            h = history[i]
            if h["call"] > min_ret:
                continue
            if h["op"] == "lookup":
                cached = dict(cache).get(h["key"])
                if cached is not None:
                    if h["result"] != cached:
                        continue
                    c2 = tuple(x for x in cache if x[0] != h["key"]) + ((h["key"], cached),)
                    cr2 = created
                else:
                    if h["result"] in created:
                        continue
                    c2 = cache + ((h["key"], h["result"]),)
                    if len(c2) > num_pools:
                        c2 = c2[1:]
                    cr2 = created | {h["result"]}
            elif h["op"] == "clear":
                c2, cr2 = (), created
            else:  # len
                if h["result"] != len(cache):
                    continue
                c2, cr2 = cache, created
            if dfs(remaining & ~(1 << i), c2, cr2):
                return True
        return False

    try:
        return dfs((1 << n) - 1, (), frozenset())
    except TimeoutError:
        return None


def run_container_schedule(cfg: dict[str, typing.Any], policy: tuple[typing.Any, ...]) -> dict[str, typing.Any]:
    setup_instrumentation()
    disposed: list[typing.Any] = []
    lockv: list[typing.Any] = []
    c = make_container(cfg["maxsize"], disposed, lockv)
    S = sched.Scheduler(policy, step_limit=20000)
    clock = [0]
    history: list[dict[str, typing.Any]] = []

    def tick() -> int:
        clock[0] += 1
        return clock[0]

    def worker(ti: int, ops: list[list[typing.Any]]) -> typing.Callable[[], typing.Any]:
        def fn() -> None:
            for op, k, v in ops:
                h = {"id": len(history), "thread": ti, "op": op, "k": k, "v": v, "call": tick(), "ret": None, "result": None}
                history.append(h)
                try:
                    h["result"] = real_apply(c, op, k, v)
                except sched.SchedDeadlock:
                    h["result"] = "<deadlock>"
                h["ret"] = tick()

        return fn

    for ti, ops in enumerate(cfg["threads"]):
        S.spawn(f"t{ti}", worker(ti, ops))
    finished = S.run(watchdog_s=20.0)
    present = dict(getattr(c, "_container", {}))
    return {"history": history, "disposed": disposed, "lockv": lockv, "deadlocked": S.deadlocked, "watchdog": not finished, "aborted": S.aborted, "point_info": S.point_info, "switches": list(S.switches), "present": present, "exc": [type(t.exc).__name__ for t in S.threads if t.exc], "sites": S.point_sites}


def judge_container(rec: Recorder, cfg: dict[str, typing.Any], desc: typing.Any, o: dict[str, typing.Any]) -> None:
    case = {"mode": "container", "cfg": cfg, "policy": desc}
    rec.mon("container_schedule")
    rec.seen("interleavings", str(hash(("c", tuple((b, c_, d) for _, b, c_, d in o["switches"]))) & 0xFFFFFFFFFF))
    for s_ in o["sites"]:
        rec.seen("preemption_sites", f"{s_[0]}:{s_[1]}")
    if o["watchdog"] or o["aborted"]:
        rec.note_inconclusive("container schedule hit the watchdog / step limit")
        return
    if o["deadlocked"] or o["exc"]:
        rec.fail(case, "container-thread-stuck-or-died", {"deadlocked": o["deadlocked"], "exc": o["exc"]}, f"deadlocked {o['deadlocked']} exceptions {o['exc']}")
        return
    if o["lockv"]:
        rec.fail(case, "dispose-under-lock", {"values": o["lockv"][:3]}, "dispose callback entered while the calling thread held the container's lock")
        return
    hist = [h for h in o["history"]]
    rec.mon("linearizability")
    ok, final = linearizable(hist, cfg["maxsize"])
    if ok is None:
        rec.note_inconclusive("linearizability search exceeded its node budget")
        return
    if not ok:
        rec.fail(case, "not-linearizable", {"history": [(h["thread"], h["op"], h["k"], h["v"], h["result"], h["call"], h["ret"]) for h in hist]}, "no linearization of the history matches the sequential LRU model")
        return
    # exactly-once disposal and conservation
    rec.mon("disposal_conservation")
    inserted = [h["v"] for h in hist if h["op"] == "set"]
    present = list(o["present"].values())
    disp = o["disposed"]
    problems = []
    if len(set(disp)) != len(disp):
        problems.append("a value was disposed twice")
    if set(disp) & set(present):
        problems.append("a value still present was disposed")
    if sorted(disp + present) != sorted(inserted):
        problems.append("inserted != present + disposed")
    if len(present) > max(cfg["maxsize"], 0):
        problems.append("more entries than maxsize at quiescence")
    if problems:
        rec.fail(case, "disposal-or-conservation-broken", {"problems": problems, "inserted": inserted, "present": present, "disposed": disp}, "; ".join(problems))


def container_configs() -> list[dict[str, typing.Any]]:
    out = []
    vid = itertools.count(1)
    shapes = [
        [[["set", "a", None], ["get", "a", None]], [["set", "a", None], ["del", "a", None]]],
        [[["set", "a", None], ["set", "b", None]], [["set", "c", None], ["get", "a", None]]],
        [[["set", "a", None], ["clear", None, None]], [["set", "b", None], ["len", None, None]]],
        [[["set", "a", None], ["set", "a", None]], [["get", "a", None], ["keys", None, None]]],
        [[["set", "a", None], ["del", "a", None]], [["set", "a", None], ["set", "b", None]], [["clear", None, None], ["get", "b", None]]],
        [[["set", "a", None], ["get", "b", None], ["set", "c", None]], [["set", "b", None], ["get", "a", None], ["del", "c", None]]],
        [[["set", "a", None]], [["set", "b", None]], [["set", "c", None]]],
    ]
    for shape in shapes:
        for maxsize in (0, 1, 2):
            threads = []
            for ops in shape:
                t = []
                for op, k, _ in ops:
                    t.append([op, k, next(vid) if op == "set" else None])
                threads.append(t)
            out.append({"maxsize": maxsize, "threads": threads})
    return out


# ------------------------------------------------------------------ (iii) PoolManager ---------
class Echo:
    def on_request(self, net: netsim.Net, sc: netsim.ServerConn, req: wire.Request) -> None:
        host = (wire.header_get(req.headers, b"host") or [b"?"])[0].decode()
        t = req.target.decode()
        if t.startswith("/fail"):
            sc.reset()
            return
        if t.startswith("/redir-to-"):
            sc.write(wire.build_response(302, "Found", headers=[("Location", ORIGINS[int(t[len("/redir-to-")])] + "/t-after")], body=b""))
            return
        sc.write_segmented([wire.build_response(200, body=("id=" + host + req.target.decode() + ";" + "y" * 40).encode())[i : i + 37] for i in range(0, 200, 37)])


ORIGINS = ["http://o1.test", "http://o2.test", "http://o3.test"]


def run_manager_schedule(cfg: dict[str, typing.Any], policy: tuple[typing.Any, ...]) -> dict[str, typing.Any]:
    import urllib3
    from urllib3.connectionpool import HTTPConnectionPool

    setup_instrumentation()
    S = sched.Scheduler(policy, step_limit=60000)
    old_q = HTTPConnectionPool.QueueCls
    HTTPConnectionPool.QueueCls = sched.SchedLifoQueue  # type: ignore[assignment]
    net = netsim.Net(Echo())
    net.__enter__()
    out: dict[str, typing.Any] = {}
    try:
        pm = urllib3.PoolManager(num_pools=cfg["num_pools"], maxsize=cfg.get("maxsize", 1))
        lock = sched.SchedRLock()
        pm.pools.lock = lock
        clock = [0]
        evictions: list[tuple[int, int]] = []
        returns: list[dict[str, typing.Any]] = []
        size_violations: list[int] = []

        def tick() -> int:
            clock[0] += 1
            return clock[0]

        def on_dispose(p: typing.Any) -> None:
            evictions.append((tick(), id(p)))

        orig_dispose = pm.pools.dispose_func  # None in urllib3 (evicted pools are reclaimed by their finalizers); chained if set

        def dispose_chain(p: typing.Any) -> None:
            on_dispose(p)
            if orig_dispose is not None:
                orig_dispose(p)

        pm.pools.dispose_func = dispose_chain
        keep: dict[str, typing.Any] = {"pools": {}, "responses": []}
        lookups: list[dict[str, typing.Any]] = []
        real_from_host = pm.connection_from_host

        def logged_from_host(host: typing.Any, port: typing.Any = None, scheme: typing.Any = "http", pool_kwargs: typing.Any = None) -> typing.Any:
            h = {"op": "lookup", "key": str(host), "call": tick(), "ret": None, "result": None}
            lookups.append(h)
            p = real_from_host(host, port=port, scheme=scheme, pool_kwargs=pool_kwargs)
            keep["pools"][id(p)] = p  # keep ids unique for the duration of the scenario
            h["result"] = id(p)
            h["closed"] = p.pool is None
            h["ret"] = tick()
            return p

        pm.connection_from_host = logged_from_host  # type: ignore[method-assign]

        def worker(ti: int, ops: list[list[typing.Any]]) -> typing.Callable[[], typing.Any]:
            def fn() -> typing.Any:
                res = []
                for op in ops:
                    kind = op[0]
                    try:
                        if kind == "from_url":
                            call = tick()
                            p = pm.connection_from_url(ORIGINS[op[1]] + "/x")
                            returns.append({"thread": ti, "key": op[1], "pool": id(p), "call": call, "ret": tick(), "closed": p.pool is None})
                            keep["pools"][id(p)] = p
                        elif kind == "request":
                            r = pm.request("GET", ORIGINS[op[1]] + f"/t{ti}")
                            res.append(("request", op[1], r.data.decode("latin-1")))
                        elif kind == "request-fail":
                            # the server resets the connection instead of answering: the request's slot goes back empty
                            try:
                                pm.request("GET", ORIGINS[op[1]] + f"/fail{ti}", retries=False)
                                res.append(("exc", kind, "request to a resetting server succeeded"))
                            except urllib3.exceptions.HTTPError:
                                res.append(("failed-as-scripted", op[1], ""))
                        elif kind == "redirected":
                            # the manager follows a redirect from origin op[1] to origin op[2] (it asks the first pool
                            # whether the target is the same host)
                            r = pm.request("GET", ORIGINS[op[1]] + f"/redir-to-{op[2]}")
                            res.append(("request", op[2], r.data.decode("latin-1")))
                        elif kind == "pool-urlopen":
                            p = pm.connection_from_url(ORIGINS[op[1]] + "/x")
                            r = p.urlopen("GET", f"/t-direct{ti}")
                            res.append(("request", op[1], r.data.decode("latin-1")))
                            del p
                        elif kind == "stream-begin":
                            r = pm.request("GET", ORIGINS[op[1]] + f"/s{ti}", preload_content=False)
                            keep["responses"].append((op[1], ti, r, r.read(10)))
                        elif kind == "clear":
                            h = {"op": "clear", "key": None, "call": tick(), "ret": None, "result": None}
                            lookups.append(h)
                            pm.clear()
                            h["ret"] = tick()
                        elif kind == "len":
                            h = {"op": "len", "key": None, "call": tick(), "ret": None, "result": None}
                            lookups.append(h)
                            n = len(pm.pools)
                            h["result"] = n
                            h["ret"] = tick()
                            if n > cfg["num_pools"]:
                                size_violations.append(n)
                    except sched.SchedDeadlock:
                        res.append(("deadlock", kind, ""))
                        break
                    except BaseException as e:  # noqa: BLE001
                        res.append(("exc", kind, type(e).__name__ + ":" + str(e)[:80]))
                return res

            return fn

        for ti, ops in enumerate(cfg["threads"]):
            S.spawn(f"t{ti}", worker(ti, ops))
        finished = S.run(watchdog_s=30.0)
        out.update({"watchdog": not finished, "aborted": S.aborted, "deadlocked": list(S.deadlocked), "results": [(t.name, t.result, type(t.exc).__name__ if t.exc else None) for t in S.threads], "returns": returns, "lookups": [h for h in lookups if h["ret"] is not None], "evictions": evictions, "size_violations": size_violations, "point_info": S.point_info, "switches": list(S.switches), "sites": S.point_sites})
        out["final_len"] = len(pm.pools)
        # cached pools must not have been closed behind the caller's back
        cached = list(getattr(pm.pools, "_container", {}).values())
        out["cached_closed"] = [id(p) for p in cached if p.pool is None]
        # in-flight responses on (possibly evicted) pools finish correctly
        inflight = []
        for key, ti, r, first in keep["responses"]:
            try:
                body = (first + r.read()).decode("latin-1")
                r.release_conn()
                inflight.append((key, ti, body))
            except BaseException as e:  # noqa: BLE001
                inflight.append((key, ti, "EXC:" + type(e).__name__ + ":" + str(e)[:60]))
        out["inflight"] = inflight
        # sweep: after everything referencing evicted pools is dropped, only sockets of still cached pools may be open
        cached_ids = {id(p) for p in cached}
        cached_socks = set()
        for p in cached:
            q = p.pool
            for conn in list(getattr(q, "queue", []) or []):
                s_ = getattr(conn, "sock", None)
                if s_ is not None and hasattr(s_, "vf"):
                    cached_socks.add(s_.vf.index)
        keep.clear()
        for t in S.threads:
            t.fn = None  # type: ignore[assignment]
        for e in net.raised:
            e.__traceback__ = None
        net.raised.clear()
        del cached
        r = p = q = conn = s_ = first = None  # loop variables of this function must not keep pools / sockets alive
        gc.collect()
        out["open_not_cached"] = [st.index for st in net.open_states() if st.index not in cached_socks]
        pm.clear()
        del pm
        gc.collect()
        out["open_after_manager_dropped"] = [st.index for st in net.open_states()]
    finally:
        net.__exit__(None, None, None)
        HTTPConnectionPool.QueueCls = old_q  # type: ignore[assignment]
    return out


def judge_manager(rec: Recorder, cfg: dict[str, typing.Any], desc: typing.Any, o: dict[str, typing.Any]) -> None:
    case = {"mode": "manager", "cfg": cfg, "policy": desc}
    rec.mon("manager_schedule")
    rec.seen("interleavings", str(hash(("m", tuple((b, c_, d) for _, b, c_, d in o["switches"]))) & 0xFFFFFFFFFF))
    for s_ in o["sites"]:
        rec.seen("preemption_sites", f"{s_[0]}:{s_[1]}")
    if o["watchdog"] or o["aborted"]:
        rec.note_inconclusive("manager schedule hit the watchdog / step limit")
        return
    if o["deadlocked"]:
        rec.fail(case, "manager-thread-stuck", {"deadlocked": o["deadlocked"]}, f"threads {o['deadlocked']} can never proceed")
        return
    for name, result, exc in o["results"]:
        if exc:
            rec.fail(case, "manager-thread-died", {"exc": exc}, f"{name} died with {exc}")
            return
        for kind, a, b in result or []:
            if kind == "exc":
                rec.fail(case, "manager-operation-raised", {"op": a, "exc": b.split(":")[0]}, f"{a}: {b}")
                return
            if kind == "request" and not b.startswith("id=" + ORIGINS[a].split("//")[1] + "/t"):
                rec.fail(case, "wrong-body", {"got": b[:50]}, f"request to origin {a} returned {b[:50]!r}")
                return
    rec.mon("bound")
    if o["size_violations"] or o["final_len"] > cfg["num_pools"]:
        rec.fail(case, "more-pools-than-num_pools", {"seen": o["size_violations"], "final": o["final_len"], "num_pools": cfg["num_pools"]}, f"len(pools) {o['size_violations'] or o['final_len']} > num_pools {cfg['num_pools']}")
        return
    # the lookup / clear / len history must be linearizable against a get-or-create LRU cache of num_pools entries
    rec.mon("same_key_same_pool")
    for h in o["lookups"]:
        if h["op"] == "lookup" and h.get("closed"):
            rec.fail(case, "closed-pool-handed-out", {"key": h["key"]}, "a closed pool was handed out")
            return
    verdict = cache_linearizable(o["lookups"], cfg["num_pools"])
    if verdict is None:
        rec.note_inconclusive("pool-cache linearizability search exceeded its node budget")
        return
    if not verdict:
        rec.fail(case, "equal-parameters-different-pools", {"history": [(h["op"], h["key"], (h["result"] % 100000) if isinstance(h["result"], int) and h["op"] == "lookup" else h["result"], h["call"], h["ret"]) for h in o["lookups"]]}, "the lookup history has no linearization against a get-or-create LRU cache: some request obtained a pool object other than the cached one although it had not been evicted")
        return
    rec.mon("inflight_and_sweep")
    if o["cached_closed"]:
        rec.fail(case, "cached-pool-closed-behind-back", {"n": len(o["cached_closed"])}, "a pool that is still cached has been closed")
        return
    for key, ti, body in o["inflight"]:
        if not body.startswith("id=" + ORIGINS[key].split("//")[1] + f"/s{ti};"):
            rec.fail(case, "inflight-response-broken", {"got": body[:60]}, f"response held across an eviction: {body[:60]!r}")
            return
    if o["open_not_cached"]:
        rec.fail(case, "evicted-pool-socket-leaked", {"sockets": o["open_not_cached"]}, f"sockets {o['open_not_cached']} of pools that are no longer cached are still open after all references were dropped")
        return
    if o["open_after_manager_dropped"]:
        rec.fail(case, "socket-open-after-manager-dropped", {"sockets": o["open_after_manager_dropped"]}, "sockets open after clear() and dropping the manager")


def manager_configs() -> list[dict[str, typing.Any]]:
    out = []
    for num_pools in (1, 2):
        out += [
            {"num_pools": num_pools, "threads": [[["from_url", 0], ["from_url", 0]], [["from_url", 0], ["len"]]]},
            {"num_pools": num_pools, "threads": [[["from_url", 0], ["from_url", 1]], [["from_url", 0], ["from_url", 2], ["len"]]]},
            {"num_pools": num_pools, "threads": [[["request", 0], ["from_url", 0]], [["request", 1], ["from_url", 0]], [["from_url", 0]]]},
            {"num_pools": num_pools, "threads": [[["stream-begin", 0], ["request", 1]], [["request", 2], ["clear"], ["from_url", 0]]]},
            {"num_pools": num_pools, "threads": [[["from_url", 0], ["clear"], ["from_url", 0]], [["from_url", 0], ["request", 0], ["len"]]]},
            {"num_pools": num_pools, "threads": [[["stream-begin", 0], ["stream-begin", 1]], [["stream-begin", 2], ["from_url", 0], ["len"]]]},
            {"num_pools": num_pools, "maxsize": 2, "threads": [[["request", 0], ["request", 1]], [["request-fail", 0], ["len"]]]},
            {"num_pools": num_pools, "maxsize": 2, "threads": [[["request", 0]], [["request-fail", 0]], [["request", 0], ["clear"]]]},
            {"num_pools": num_pools, "threads": [[["redirected", 0, 1], ["request", 2]], [["pool-urlopen", 1], ["request", 0], ["len"]]]},
            {"num_pools": num_pools, "threads": [[["redirected", 0, 1], ["redirected", 1, 2], ["clear"]], [["pool-urlopen", 2], ["request", 1]]]},
        ]
    return out


class ShapeServer:
    """'/cut…' is answered with a body that stops half way (then the server closes); anything else normally."""

    def on_request(self, net: netsim.Net, sc: netsim.ServerConn, req: wire.Request) -> None:
        if req.target.startswith(b"/cut"):
            full = wire.build_response(200, body=b"x" * 200)
            sc.write(full[: len(full) - 100])
            sc.close()
        else:
            sc.write(wire.build_response(200, body=b"ok-" + req.target))


def run_queue_shapes(ctx: Ctx, rec: Recorder) -> None:
    """Pools of 2-3 slots whose queue ends up in every mix of live connections and empty slots (overlapping streamed
    requests finished, failed or abandoned in every order); then the pool is evicted / cleared / closed and everything
    referencing it is dropped: no socket of it may stay open."""
    import urllib3

    plans = []
    for maxsize in (2, 3):
        for ends in itertools.product(("finish", "fail", "close"), repeat=maxsize):
            for order in itertools.permutations(range(maxsize)):
                for how in ("evict", "clear", "pool-close"):
                    plans.append((maxsize, ends, order, how))
    for i, (maxsize, ends, order, how) in enumerate(plans):
        if not ctx.mine(i) or (ctx.quick and ctx.skip(i, 3)):
            continue
        case = {"mode": "queue-shape", "maxsize": maxsize, "ends": list(ends), "order": list(order), "how": how}
        rec.case(["queue-shape", maxsize, ends, order, how])
        rec.mon("queue_shape_sweep")
        with netsim.Net(ShapeServer()) as net:
            pm = urllib3.PoolManager(num_pools=1, maxsize=maxsize, retries=False)
            streams = []
            for k, end in enumerate(ends):
                streams.append(pm.request("GET", "http://o1.test/" + ("cut" if end == "fail" else "ok") + str(k), preload_content=False))
            for k in order:
                r = streams[k]
                try:
                    if ends[k] == "close":
                        r.close()
                    else:
                        r.read()
                        r.release_conn()
                except urllib3.exceptions.HTTPError:
                    r.release_conn()
            pool = pm.connection_from_url("http://o1.test/")
            shape = [c is not None for c in list(pool.pool.queue)] if pool.pool is not None else None
            rec.seen("queue_shapes", repr(shape))
            if how == "evict":
                pm.request("GET", "http://o2.test/other")
            elif how == "clear":
                pm.clear()
            else:
                pool.close()
            own = {st.index for st in net.states if st.dial["host"] == "o1.test"}
            del pool, streams, r
            gc.collect()
            left = [st.index for st in net.open_states() if st.index in own]
            if left:
                rec.fail(case, "evicted-pool-socket-leaked", {"sockets": left, "queue_shape": shape, "how": how}, f"after {how} and dropping every reference, sockets {left} of the pool are still open (queue was {shape})")
            pm.clear()


def run_manager_sequential(ctx: Ctx, rec: Recorder) -> None:
    """Sequential histories of pool look-ups on a PoolManager and on a forwarding / tunnelling ProxyManager, through every
    entry point (connection_from_url / _host / _context, request), compared step by step with the LRU model: the cache
    holds exactly the model's keys in the model's order, the pool handed out is the cached one, equal parameters give the
    same object until the model evicts it (what happens to an evicted pool's sockets is the queue-shape sweep's matter).  No network: look-ups open no socket."""
    import random

    import urllib3

    rng = random.Random(ctx.seed * 7919 + ctx.shard)
    dests = ["http://a.test/", "http://b.test/", "http://c.test:8080/", "https://d.test/", "https://e.test/", "https://a.test/", "http://A.test:80/x"]
    for it in range(ctx.pick(400, 6000)):
        if not ctx.mine(it):
            continue
        kind = ("plain", "proxy")[it % 2]
        num_pools = rng.choice([1, 2, 2, 3, 4])
        pm: typing.Any = urllib3.PoolManager(num_pools=num_pools) if kind == "plain" else urllib3.ProxyManager("http://proxy.test:3128", num_pools=num_pools)
        model = LRU(num_pools)
        last: dict[typing.Any, typing.Any] = {}
        every: list[typing.Any] = []  # every pool ever handed out, with its model key
        steps: list[list[typing.Any]] = []
        case = {"mode": "manager-sequential", "kind": kind, "num_pools": num_pools, "steps": steps}
        rec.case(["manager-sequential", kind, num_pools, it])
        ok = True
        for _ in range(rng.randrange(3, 14)):
            url = rng.choice(dests)
            how = rng.choice(["url", "url", "host", "context", "clear"] if len(steps) > 2 else ["url", "host", "context"])
            steps.append([how, url])
            rec.mon("manager_lookup")
            if how == "clear":
                pm.clear()
                model.apply("clear")
                last.clear()
            else:
                u = urllib3.util.parse_url(url)
                port = u.port or {"http": 80, "https": 443}[u.scheme]
                # which cache entry serves this destination: behind a proxy every plain-http destination shares the pool
                # of connections to the proxy, https destinations are tunnelled one pool per origin
                mkey = ("proxy",) if (kind == "proxy" and u.scheme == "http") else (u.scheme, u.host.lower(), port)
                if how == "url":
                    pool = pm.connection_from_url(url)
                elif how == "host":
                    pool = pm.connection_from_host(u.host, u.port, u.scheme)
                else:
                    ctxd = pm._merge_pool_kwargs(None)
                    if kind == "proxy" and u.scheme == "http":
                        ctxd.update(scheme="http", host="proxy.test", port=3128)
                    else:
                        ctxd.update(scheme=u.scheme, host=u.host, port=port)
                    pool = pm.connection_from_context(ctxd)
                had = any(kk == mkey for kk, _ in model.items)
                if had:
                    model.apply("get", mkey)
                else:
                    model.apply("set", mkey, id(pool))
                obs = {"kind": kind, "num_pools": num_pools, "how": how, "url": url, "step": len(steps) - 1}
                if had and pool is not last.get(mkey):
                    rec.fail(case, "same-key-different-pools", obs, f"step {len(steps) - 1}: {how}({url}) returned another pool object although the pool for these parameters is still cached")
                    ok = False
                    break
                if not had and any(pool is pp for pp, _ in every):
                    rec.fail(case, "evicted-pool-handed-out-again", obs, f"step {len(steps) - 1}: {how}({url}) returned a pool object that had been evicted / cleared")
                    ok = False
                    break
                last[mkey] = pool
                every.append((pool, mkey))
                cached = list(pm.pools._container.values())
                if not any(pool is c for c in cached):
                    rec.fail(case, "pool-in-use-not-in-cache", obs, f"step {len(steps) - 1}: the pool handed out by {how}({url}) is not in the manager's cache ({len(cached)} cached pools)")
                    ok = False
                    break
            # cache content and order against the model
            cached = list(pm.pools._container.values())
            want = [last[kk] for kk, _ in model.items]
            if len(cached) > num_pools:
                rec.fail(case, "more-than-num-pools", {"kind": kind, "n": len(cached), "num_pools": num_pools}, f"{len(cached)} pools cached, num_pools={num_pools}")
                ok = False
                break
            if len(cached) != len(want) or any(a is not b for a, b in zip(cached, want)):
                rec.fail(case, "cache-differs-from-lru-model", {"kind": kind, "num_pools": num_pools, "step": len(steps) - 1, "cached": [f"{c.scheme}://{c.host}:{c.port}" for c in cached], "model": [list(kk) for kk, _ in model.items]}, f"after step {len(steps) - 1} the cache holds {[f'{c.scheme}://{c.host}:{c.port}' for c in cached]}, the LRU model {[kk for kk, _ in model.items]}")
                ok = False
                break
            if not ok:
                break
        pm.clear()


def run_shard(ctx: Ctx, rec: Recorder) -> None:
    import random

    run_queue_shapes(ctx, rec)
    run_manager_sequential(ctx, rec)
    run_sequential(ctx, rec)
    # (ii) container under the scheduler
    ccfgs = container_configs()
    bound = 2
    per = ctx.pick(150, 3000)
    for i, cfg in enumerate(ccfgs):
        if not ctx.mine(i) or ctx.out_of_time(0.5):
            continue

        def run_one(policy: tuple[typing.Any, ...], cfg: dict[str, typing.Any] = cfg) -> tuple[list[tuple[int, list[int]]], typing.Any]:
            o = run_container_schedule(cfg, policy)
            return o["point_info"], o

        n = 0
        for decisions, o in sched.explore(run_one, bound=bound, max_runs=per):
            if ctx.out_of_time(0.6):
                rec.count("container_schedules_cut_short_by_budget")
                break
            rec.case(["cont", cfg, decisions], nontrivial=len(decisions) > 0)
            judge_container(rec, cfg, ["replay", decisions], o)
            n += 1
            if n == 3:
                rec.sample({"mode": "container", "cfg": cfg, "decisions": decisions, "history": [(h["thread"], h["op"], h["k"], h["v"], h["result"]) for h in o["history"]], "disposed": o["disposed"]})
        for j in range(ctx.pick(40, 1500)):
            if ctx.out_of_time(0.65):
                break
            seed = ctx.rng.randrange(1 << 30)
            o = run_container_schedule(cfg, ("random", random.Random(seed), 0.3))
            rec.case(["cont-rand", cfg, seed])
            judge_container(rec, cfg, ["random", seed, 0.3], o)
    # (iii) PoolManager under the scheduler
    mcfgs = manager_configs()
    perm = ctx.pick(700, 6000)
    for i, cfg in enumerate(mcfgs):
        if not ctx.mine(i) or ctx.out_of_time(0.9):
            continue

        def run_one_m(policy: tuple[typing.Any, ...], cfg: dict[str, typing.Any] = cfg) -> tuple[list[tuple[int, list[int]]], typing.Any]:
            o = run_manager_schedule(cfg, policy)
            return o["point_info"], o

        for decisions, o in sched.explore(run_one_m, bound=ctx.pick(1, 2), max_runs=perm):
            if ctx.out_of_time(0.9):
                rec.count("manager_schedules_cut_short_by_budget")
                break
            rec.case(["mgr", cfg, decisions], nontrivial=len(decisions) > 0)
            judge_manager(rec, cfg, ["replay", decisions], o)
        for j in range(ctx.pick(40, 1200)):
            if ctx.out_of_time(0.95):
                break
            seed = ctx.rng.randrange(1 << 30)
            o = run_manager_schedule(cfg, ("random", random.Random(seed), 0.15))
            rec.case(["mgr-rand", cfg, seed])
            judge_manager(rec, cfg, ["random", seed, 0.15], o)
    rec.exhaustive_parts.append(f"container / manager scenarios: all schedules with <= {bound} preemptions at line granularity inside the container methods and connection_from_pool_key (capped per scenario) + random schedules")


def replay(case: dict[str, typing.Any], ctx: Ctx, rec: Recorder) -> None:
    import random

    if case.get("mode") == "sequential":
        run_sequential(Ctx(ctx.prop, ctx.tier, ctx.seed, 0, 1, ctx.budget_s), rec)
        return
    pol = case["policy"]
    policy: tuple[typing.Any, ...] = ("replay", [tuple(d) for d in pol[1]]) if pol[0] == "replay" else ("random", random.Random(pol[1]), pol[2])
    rec.case(case)
    if case["mode"] == "container":
        judge_container(rec, case["cfg"], pol, run_container_schedule(case["cfg"], policy))
    else:
        judge_manager(rec, case["cfg"], pol, run_manager_schedule(case["cfg"], policy))
