"""C03 — a response only ever contains bytes sent in reply to its own request.

Monitor: every response body embeds the id of the request that triggered it (taken from the path), so any
foreign or shifted byte delivered to the caller is visible; the server side additionally records whether a
request arrived on a connection that still had undelivered bytes of an earlier exchange, or unsolicited
bytes / EOF pending — such a connection must never yield a response."""
from __future__ import annotations

import typing

from vf import netsim, wire
from vf.core import Ctx, Recorder

SERVER_BEHAVIOURS = [
    {"framing": "cl"}, {"framing": "cl", "segments": 4}, {"framing": "chunked"}, {"framing": "chunked", "segments": 5}, {"framing": "close"}, {"framing": "cl", "keepalive": False},
    {"framing": "cl", "stray": "garbage-now"}, {"framing": "cl", "stray": "response-now"}, {"framing": "cl", "stray": "garbage-idle"}, {"framing": "cl", "stray": "response-idle"}, {"framing": "cl", "stray": "eof-idle"},
    {"framing": "cl", "body_cuts": [54]}, {"framing": "cl", "body_cuts": [27, 54, 81]}, {"framing": "cl", "body_cuts": [36, 72]}, {"framing": "cl", "body_cuts": [9, 64, 100]},
    {"framing": "cl", "tail-half": True}, {"framing": "cl", "body-is-response": True},
    # the read fails (timeout / I/O error) right before the part of the body that looks like a response arrives
    {"framing": "cl", "tail-half": True, "timeout_at_recv": 2}, {"framing": "cl", "tail-half": True, "reset_at_recv": 2}, {"framing": "cl", "body-is-response": True, "timeout_at_recv": 1}, {"framing": "cl", "tail-half": True, "timeout_at_recv": 1},
    {"framing": "cl", "short": True}, {"framing": "cl", "extra-beyond-cl": True}, {"framing": "cl", "segments": 6, "tail-looks-like-response": True},
    {"framing": "cl", "segments": 6, "timeout_at_recv": 2}, {"framing": "chunked", "segments": 8, "timeout_at_recv": 3}, {"framing": "cl", "segments": 5, "reset_at_recv": 2},
    {"framing": "chunked", "stray": "response-idle"}, {"status": 204, "stray": "response-now"}, {"status": 304, "stray": "response-idle"}, {"status": 204}, {"pre100": True, "framing": "cl"}, {"pre100": True, "framing": "cl", "stray": "response-idle"},
]
CALLER_BEHAVIOURS = ["read", "read-part-release", "release-unread", "drain", "close", "stream-part-abandon", "ignore", "read-part-close", "stream", "read-late", "read1-loop", "readinto-loop", "early-close", "early-read"]  # early-*: release_conn=True with a streamed body (the connection goes back to the pool before the body is read), then close() / read()  # read-late: read and release only after the next request was made (two leases overlap, then two connections idle)
METHODS = ["GET", "GET", "HEAD", "POST"]


def body_for(rid: str, n: int = 12) -> bytes:
    return b"".join(b"[%s:%04d]" % (rid.encode(), i) for i in range(n))


class DesyncServer:
    def __init__(self, behaviours: list[dict[str, typing.Any]]):
        self.behaviours = list(behaviours)
        self.arrivals: list[dict[str, typing.Any]] = []
        self.idle_actions: list[tuple[netsim.ServerConn, str, str]] = []
        self.bodies: dict[str, list[bytes]] = {}  # what was sent as the body of the reply to each request id
        self.response_alive: typing.Callable[[str], bool] = lambda rid: True

    def on_request(self, net: netsim.Net, sc: netsim.ServerConn, req: wire.Request) -> None:
        st = sc.st
        rid = req.target.decode("latin-1").strip("/")
        unclean = bool(st.segments or st.outq) or getattr(st, "exchange_open", False)
        b = self.behaviours.pop(0) if self.behaviours else {"framing": "cl"}
        prev = next((a for a in reversed(self.arrivals) if a["conn"] == st.index), None)
        self.arrivals.append({"rid": rid, "conn": st.index, "method": req.method.decode(), "unclean_before": unclean, "behaviour": b, "nth_on_conn": len(sc.requests),
                              "prev_rid": prev["rid"] if prev else None, "prev_response_alive": bool(prev and self.response_alive(prev["rid"]))})
        status = int(b.get("status", 200))
        body = body_for(rid)
        if b.get("tail-looks-like-response"):
            body = body_for(rid, 3) + b"HTTP/1.1 200 OK\r\nContent-Length: 13\r\n\r\n[" + rid.encode() + b":TAIL-OF]"
        if b.get("tail-half"):
            # the second half of the body is a stored HTTP exchange; the body arrives as head, first half, second half
            tail = b"HTTP/1.1 200 OK\r\nContent-Length: 13\r\n\r\n[" + rid.encode() + b":TAIL-OF]"
            body = body_for(rid, 20)[: len(tail)] + tail
            b = dict(b, body_cuts=[len(tail)])
        if b.get("body-is-response"):
            # the whole body is a stored HTTP exchange and arrives after the head, in a piece of its own
            body = b"HTTP/1.1 200 OK\r\nContent-Length: 13\r\n\r\n[" + rid.encode() + b":TAIL-OF]"
            b = dict(b, body_cuts=[10**6])
        self.bodies.setdefault(rid, []).append(body)
        head_only = req.method == b"HEAD" or status in (204, 304)
        msg = b""
        if b.get("pre100"):
            msg += b"HTTP/1.1 100 Continue\r\n\r\n"
        if head_only:
            hdrs = [("Content-Length", str(len(body)))] if req.method == b"HEAD" else []
            msg += wire.build_response(status, "X", hdrs, b"", framing="none", keepalive=b.get("keepalive", True))
        else:
            full = wire.build_response(status, "X", [], body, framing=b.get("framing", "cl"), chunk_sizes=[7, 13, 50], keepalive=b.get("keepalive", True) and b.get("framing") != "close")
            if b.get("short"):
                full = full[: full.index(b"\r\n\r\n") + 4 + len(body) // 2]
            if b.get("extra-beyond-cl"):
                full += b"[EXTRA-BEYOND-CONTENT-LENGTH]"
            msg += full
        stray = b.get("stray")
        bogus = wire.build_response(200, "BOGUS", [], b"[STRAY-after-" + rid.encode() + b":0000]")
        if stray == "garbage-now":
            msg += b"\x00\x01unsolicited-garbage-after-" + rid.encode()
        elif stray == "response-now":
            msg += bogus
        closing = b.get("framing") == "close" or b.get("keepalive") is False or b.get("short")
        if b.get("split-at-tail"):
            # two pieces: everything up to the point where the body's tail starts to look like a response, then that tail
            cut = msg.index(b"HTTP/1.1 200 OK\r\nContent-Length: 13")
            sc.write_segmented([msg[:cut], msg[cut:]])
        elif b.get("body_cuts") and not head_only and b.get("framing", "cl") == "cl" and b"\r\n\r\n" in msg:
            # the head in one piece, then the body cut at the given offsets (equal parts, or arbitrary): every piece is what
            # one receive call of the client yields, so sized reads and receive boundaries line up in chosen ways
            h = msg.index(b"\r\n\r\n", msg.index(b"HTTP/1.1 " + str(status).encode())) + 4
            cuts = [0] + sorted(c for c in b["body_cuts"] if 0 < c < len(msg) - h) + [len(msg) - h]  # (no cut inside: head, then the whole body)
            sc.write_segmented([msg[:h]] + [msg[h + a : h + z] for a, z in zip(cuts, cuts[1:])])
            if "timeout_at_recv" in b:
                st.recv_faults[st.n_recv + int(b["timeout_at_recv"])] = netsim.make_exc("timeout")
            if "reset_at_recv" in b:
                st.recv_faults[st.n_recv + int(b["reset_at_recv"])] = netsim.make_exc("EIO")
        elif b.get("segments"):
            n = max(1, len(msg) // int(b["segments"]))
            sc.write_segmented([msg[i : i + n] for i in range(0, len(msg), n)])
            # the server stalls for a while in the middle of the body (the client's read times out / is reset) but the
            # rest of the response is still on its way
            if "timeout_at_recv" in b:
                st.recv_faults[st.n_recv + int(b["timeout_at_recv"])] = netsim.make_exc("timeout")
            if "reset_at_recv" in b:
                st.recv_faults[st.n_recv + int(b["reset_at_recv"])] = netsim.make_exc("EIO")
        else:
            sc.write(msg)
        if closing:
            sc.close()
        if stray in ("garbage-idle", "response-idle", "eof-idle"):
            self.idle_actions.append((sc, stray, rid))

    def idle(self) -> None:
        """Called by the harness between requests: the peer sends unsolicited bytes / closes while the connection
        is (supposedly) idle, i.e. before the next checkout."""
        for sc, stray, rid in self.idle_actions:
            if sc.st.peer_closed:
                continue
            if stray == "garbage-idle":
                sc.write(b"\xff\xfeidle-garbage-" + rid.encode())
            elif stray == "response-idle":
                sc.write(wire.build_response(200, "BOGUS", [], b"[STRAY-idle-" + rid.encode() + b":0000]"))
            else:
                sc.close()
        self.idle_actions.clear()


def run_case(rec: Recorder, case: dict[str, typing.Any]) -> None:
    import urllib3
    from urllib3.exceptions import HTTPError

    server = DesyncServer([dict(b) for b in case["server"]])
    delivered: dict[str, bytes] = {}
    outcomes: dict[str, str] = {}
    keep: list[typing.Any] = []
    late: list[tuple[typing.Any, str]] = []
    import weakref

    refs: dict[str, typing.Any] = {}
    server.response_alive = lambda rid: (rid in refs and refs[rid]() is not None)
    with netsim.Net(server) as net:
        pool = urllib3.HTTPConnectionPool("d.test", 80, maxsize=case["maxsize"], block=False, retries=case["retries"])
        for i, (method, how) in enumerate(zip(case["methods"], case["caller"])):
            rid = f"r{i}"
            got = bytearray()
            try:
                r = pool.urlopen(method, f"/{rid}", preload_content=False, retries=case["retries"], body=(b"x" if method == "POST" else None), **({"release_conn": True} if how.startswith("early-") else {}))
                outcomes[rid] = f"status:{r.status}"
                refs[rid] = weakref.ref(r)
                if how == "read":
                    got += r.read()
                elif how == "read-part-release":
                    got += r.read(17)
                    r.release_conn()
                elif how == "release-unread":
                    r.release_conn()
                elif how == "drain":
                    r.drain_conn()
                elif how in ("close", "early-close"):
                    r.close()
                elif how == "early-read":
                    got += r.read()
                elif how == "read-part-close":
                    got += r.read(9)
                    r.close()
                elif how == "stream":
                    for piece in r.stream(11):
                        got += piece
                elif how == "read1-loop":
                    # io.BufferedReader / TextIOWrapper style: whatever one receive call yields, until the empty read
                    while True:
                        piece = r.read1(64)
                        if not piece:
                            break
                        got += piece
                elif how == "readinto-loop":
                    buf = bytearray(27)
                    while True:
                        k = r.readinto(buf)
                        if not k:
                            break
                        got += buf[:k]
                elif how == "stream-part-abandon":
                    g = r.stream(10)
                    got += next(g, b"")
                    keep.append(g)  # abandoned but not collected
                    r.release_conn()
                elif how == "ignore":
                    keep.append(r)
                elif how in ("read-late", "read-late-prefix"):
                    late.append((r, rid))
                    r = None
            except HTTPError as e:
                outcomes[rid] = "urllib3-error:" + type(e).__name__
            except Exception as e:  # noqa: BLE001
                outcomes[rid] = "raw-error:" + type(e).__name__ + ":" + str(e)[:60]
            delivered[rid] = bytes(got)
            # responses kept open across this request are finished now: their connections go back next to this one's
            for lr, lrid in [x for x in late if x[1] != rid]:
                try:
                    if case["caller"][int(lrid[1:])] == "read-late-prefix":
                        # stop exactly where the rest of the body looks like a response of its own, hand the
                        # connection back and forget the response object
                        delivered[lrid] = delivered.get(lrid, b"") + lr.read(len(body_for(lrid, 3)))
                    else:
                        delivered[lrid] = delivered.get(lrid, b"") + lr.read()
                    lr.release_conn()
                except HTTPError as e:
                    outcomes[lrid] = "urllib3-error:" + type(e).__name__
                except Exception as e:  # noqa: BLE001
                    outcomes[lrid] = "raw-error:" + type(e).__name__ + ":" + str(e)[:60]
                late.remove((lr, lrid))
                lr = None
            server.idle()
        arrivals = list(server.arrivals)
        sent_bodies = {k: list(v) for k, v in server.bodies.items()}
        pool.close()
    rec.mon("history")
    for i, method in enumerate(case["methods"]):
        rid = f"r{i}"
        out = outcomes.get(rid, "none")
        obs = {"rid": rid, "method": method, "caller": case["caller"][i], "outcome": out, "prev_caller": case["caller"][i - 1] if i else None, "prev_server": case["server"][i - 1] if i and i - 1 < len(case["server"]) else None, "retries": case["retries"], "maxsize": case["maxsize"]}
        if out.startswith("raw-error"):
            rec.fail(case, "non-urllib3-exception", obs, f"request {rid}: {out}")
            return
        mine_all = [a for a in arrivals if a["rid"] == rid]
        if mine_all:
            la = mine_all[-1]
            prev_i = int(la["prev_rid"][1:]) if la.get("prev_rid") else None
            obs["prev_on_conn"] = {"rid": la.get("prev_rid"), "caller": case["caller"][prev_i] if prev_i is not None and prev_i < len(case["caller"]) else None, "response_alive_at_arrival": la.get("prev_response_alive"), "unclean_before": la.get("unclean_before")}
        rec.mon("body_prefix")
        got = delivered[rid]
        full = body_for(rid)
        alt = body_for(rid, 3) + b"HTTP/1.1 200 OK\r\nContent-Length: 13\r\n\r\n[" + rid.encode() + b":TAIL-OF]"
        if method == "HEAD":
            ok = got == b""
        else:
            ok = full.startswith(got) or alt.startswith(got) or any(x.startswith(got) for x in sent_bodies.get(rid, []))
        if not ok:
            # whose bytes are these?
            foreign = None
            for j in range(len(case["methods"])):
                if j != i and (b"[r%d:" % j in got or b"-r%d:" % j in got or b"after-r%d" % j in got):
                    foreign = f"r{j}"
            rec.fail(case, "foreign-bytes-delivered", dict(obs, foreign=foreign, got=got[:80]), f"request {rid} was handed {got[:80]!r} (contains bytes of {foreign})")
            return
        # status must be the one scripted for an arrival of this request
        if out.startswith("status:"):
            mine = [a for a in arrivals if a["rid"] == rid]
            want = {int(a["behaviour"].get("status", 200)) for a in mine}
            if int(out.split(":")[1]) not in want:
                rec.fail(case, "foreign-status-delivered", dict(obs, want=sorted(want)), f"request {rid} got {out}, the server answered it with {sorted(want)}")
                return
            # the arrival that produced the response must have come in on a clean connection
            rec.mon("clean_connection")
            last = mine[-1]
            if last["unclean_before"]:
                rec.fail(case, "answered-on-unclean-connection", dict(obs, conn=last["conn"], nth_on_conn=last["nth_on_conn"]), f"request {rid} was answered on connection {last['conn']} which still had undelivered bytes of the previous exchange")
                return
    if rec.evaluations % 1999 == 0:
        rec.sample({"case": case, "outcomes": outcomes, "arrivals": [(a["rid"], a["conn"], a["unclean_before"]) for a in arrivals]})


def random_case(rng: typing.Any) -> dict[str, typing.Any]:
    n = rng.choice([2, 2, 3, 3, 4])
    return {
        "maxsize": rng.choice([1, 1, 2]),
        "retries": rng.choice([False, 2, 2]),
        "methods": [rng.choice(METHODS) for _ in range(n)],
        "caller": [rng.choice(CALLER_BEHAVIOURS) for _ in range(n)],
        "server": [dict(rng.choice(SERVER_BEHAVIOURS)) for _ in range(n + 3)],
    }


def run_tls_strays(ctx: Ctx, rec: Recorder) -> None:
    """The checkout probe on real TLS sockets: unsolicited bytes that arrive (encrypted, still in the kernel buffer) on
    an idle keep-alive connection must make the pool discard it, for TLS 1.2 and TLS 1.3 alike."""
    import ssl
    import time
    import warnings

    import urllib3

    from vf import tlsnet

    certs = tlsnet.Certs()
    try:
        for max_tls in (None, ssl.TLSVersion.TLSv1_2):
            for kind in ("response", "garbage", "same-record"):
                for method in ("GET", "HEAD"):
                    if kind == "same-record" and method == "HEAD":
                        continue
                    for retries in (False, 2):
                        case = {"tls_stray": kind, "max_tls": str(max_tls), "method": method, "retries": retries}
                        rec.case(["tls-stray", kind, str(max_tls), method, retries])
                        rec.mon("tls_idle_stray")
                        cfg = {"role": "origin", "tls": ("exact", "trusted"), "stray_after_request": 1, "stray_kind": kind}
                        plain = {"role": "origin", "tls": ("exact", "trusted")}  # only the first connection misbehaves
                        with tlsnet.TLSNet(lambda i: cfg if i == 0 else plain, certs) as net, warnings.catch_warnings():
                            warnings.simplefilter("ignore")
                            net.listener.max_tls = max_tls
                            pool = urllib3.HTTPSConnectionPool("good.test", 443, ca_certs=certs.ca_file, maxsize=1, retries=retries)
                            out = []
                            try:
                                r = pool.urlopen(method, "/stray/1", retries=retries)
                                out.append((r.status, r.data))
                                # the stray record arrives while the connection is idle in the pool: wait until the server
                                # has written it (no verdict on wall-clock guesses), then a moment for loopback delivery
                                t_end = time.monotonic() + 5.0
                                while time.monotonic() < t_end and not (net.listener.log and net.listener.log[0].get("stray_sent")):
                                    time.sleep(0.005)
                                if not (net.listener.log and net.listener.log[0].get("stray_sent")):
                                    rec.count("tls_stray_never_sent")
                                    pool.close()
                                    continue
                                time.sleep(0.05)
                                for i in (2, 3):
                                    try:
                                        r = pool.urlopen("GET", f"/clean/{i}", retries=retries)
                                        out.append((r.status, r.data))
                                    except urllib3.exceptions.HTTPError as e:
                                        out.append(("urllib3-error", type(e).__name__.encode()))
                            except Exception as e:  # noqa: BLE001
                                rec.fail(case, "non-urllib3-exception", {"exc": type(e).__name__}, f"{type(e).__name__}: {e!s:.100}")
                                pool.close()
                                continue
                            pool.close()
                            net.wait_quiet(1.5)
                        if kind == "same-record" and out and not out[0][1].startswith(b"origin:/stray/1"):
                            rec.fail(case, "foreign-bytes-delivered", {"rid": "stray/1", "got": out[0][1][:40], "tls": True}, "the padded first response was not delivered intact")
                            continue
                        for i, (st, data) in zip((2, 3), out[1:]):
                            if st == "urllib3-error":
                                continue
                            if data != f"origin:/clean/{i}".encode():
                                rec.fail(case, "foreign-bytes-delivered", {"rid": f"clean/{i}", "got": data[:60], "foreign": "stray", "tls": True, "version": str(max_tls)}, f"request /clean/{i} over TLS was handed {data[:60]!r}")
                                break
        # a connection object that is re-established (the server announced 'Connection: close') while another descriptor
        # of the process has taken the number of its old socket: the checkout probe must look at the socket the connection
        # has now, so a stray response on the new socket is still seen
        import os

        for max_tls in (None, ssl.TLSVersion.TLSv1_2):
            for retries in (False, 2):
                for nfill in (1, 3):
                    case = {"tls_stray": "after-reconnect", "max_tls": str(max_tls), "retries": retries, "fillers": nfill}
                    rec.case(["tls-stray-after-reconnect", str(max_tls), retries, nfill])
                    rec.mon("tls_stray_after_reconnect")
                    cfgs = {0: {"role": "origin", "tls": ("exact", "trusted"), "close_after": 2}, 1: {"role": "origin", "tls": ("exact", "trusted"), "stray_after_request": 1, "stray_kind": "response"}}
                    plain = {"role": "origin", "tls": ("exact", "trusted")}
                    fillers: list[int] = []
                    out = []
                    with tlsnet.TLSNet(lambda i: cfgs.get(i, plain), certs) as net, warnings.catch_warnings():
                        warnings.simplefilter("ignore")
                        net.listener.max_tls = max_tls
                        pool = urllib3.HTTPSConnectionPool("good.test", 443, ca_certs=certs.ca_file, maxsize=1, retries=retries)
                        try:
                            for i in (1, 2):
                                r = pool.urlopen("GET", f"/first/{i}", retries=retries)
                                out.append((r.status, r.data))
                            # the first connection is closed now; quiet descriptors take the freed number(s)
                            for _ in range(nfill):
                                fillers.extend(os.pipe())
                            r = pool.urlopen("GET", "/second/3", retries=retries)
                            out.append((r.status, r.data))
                            t_end = time.monotonic() + 5.0
                            while time.monotonic() < t_end and not (len(net.listener.log) > 1 and net.listener.log[1].get("stray_sent")):
                                time.sleep(0.005)
                            if not (len(net.listener.log) > 1 and net.listener.log[1].get("stray_sent")):
                                rec.count("tls_stray_never_sent")
                                continue
                            time.sleep(0.05)
                            for i in (4, 5):
                                try:
                                    r = pool.urlopen("GET", f"/clean/{i}", retries=retries)
                                    out.append((i, r.data))
                                except urllib3.exceptions.HTTPError as e:
                                    out.append(("urllib3-error", type(e).__name__.encode()))
                        except Exception as e:  # noqa: BLE001
                            rec.fail(case, "non-urllib3-exception", {"exc": type(e).__name__}, f"{type(e).__name__}: {e!s:.100}")
                            continue
                        finally:
                            pool.close()
                            for fd in fillers:
                                os.close(fd)
                            net.wait_quiet(1.5)
                    for i, data in out[3:]:
                        if i != "urllib3-error" and data != f"origin:/clean/{i}".encode():
                            rec.fail(case, "foreign-bytes-delivered", {"rid": f"clean/{i}", "got": data[:60], "foreign": "stray", "tls": True, "after_reconnect": True}, f"request /clean/{i} on a re-established TLS connection was handed {data[:60]!r}")
                            break
    finally:
        certs.close()


def run_shard(ctx: Ctx, rec: Recorder) -> None:
    rng = ctx.rng
    if ctx.shard == ctx.nshards - 1:
        run_tls_strays(ctx, rec)
    idx = 0
    # (i) exhaustive length-2 histories over the behaviour alphabets
    stride = ctx.pick(3, 1)
    for sb in SERVER_BEHAVIOURS:
        for cb in CALLER_BEHAVIOURS:
            for m1 in ("GET", "HEAD", "POST"):
                for m2 in ("GET", "POST"):
                    for retries in (False, 2):
                        for maxsize in (1, 2):
                            idx += 1
                            if not ctx.mine(idx) or ctx.skip(idx, stride):
                                continue
                            case = {"maxsize": maxsize, "retries": retries, "methods": [m1, m2], "caller": [cb, "read"], "server": [dict(sb), {"framing": "cl"}, {"framing": "cl"}, {"framing": "cl"}]}
                            rec.case(["len2", sb, cb, m1, m2, retries, maxsize])
                            run_case(rec, case)
    # (i-b) two overlapping leases on a pool of 2-3, both connections dirtied while idle, then one or two more requests
    for s1 in ("response-idle", "garbage-idle", "eof-idle", None):
        for s2 in ("response-idle", "garbage-idle", "eof-idle", None):
            for maxsize in (2, 3):
                for retries in (False, 2):
                    for m3 in ("GET", "POST"):
                        idx += 1
                        if not ctx.mine(idx):
                            continue
                        b1 = {"framing": "cl", **({"stray": s1} if s1 else {})}
                        b2 = {"framing": "cl", **({"stray": s2} if s2 else {})}
                        case = {"maxsize": maxsize, "retries": retries, "methods": ["GET", "GET", m3, "GET"], "caller": ["read-late", "read", "read", "read"], "server": [b1, b2, {"framing": "cl"}, {"framing": "cl"}, {"framing": "cl"}, {"framing": "cl"}]}
                        rec.case(["two-idle", s1, s2, maxsize, retries, m3])
                        rec.mon("two_idle_connections")
                        run_case(rec, case)
    # (i-c) a response released before its body was read, then forgotten, while the rest of its body (which looks like
    # a response) is still on its way: the connection must not answer a later request
    for maxsize in (2, 3):
        for retries in (False, 2):
            for m3 in ("GET", "POST"):
                idx += 1
                if not ctx.mine(idx):
                    continue
                case = {"maxsize": maxsize, "retries": retries, "methods": ["GET", "GET", m3, "GET"], "caller": ["read-late-prefix", "read", "read", "read"], "server": [{"framing": "cl", "tail-looks-like-response": True, "split-at-tail": True}, {"framing": "cl"}, {"framing": "cl"}, {"framing": "cl"}, {"framing": "cl"}]}
                rec.case(["released-unread-collected", maxsize, retries, m3])
                rec.mon("released_unread_then_collected")
                run_case(rec, case)
    rec.exhaustive_parts.append(f"length-2 histories: {len(SERVER_BEHAVIOURS)} server behaviours x {len(CALLER_BEHAVIOURS)} caller behaviours x methods x retries x pool size, strided 1/{stride}")
    n = ctx.pick(8000, 300000)
    for i in range(n):
        if ctx.out_of_time(0.9):
            rec.count("random_cut_short_by_budget")
            break
        case = random_case(rng)
        rec.case(["rand", case])
        run_case(rec, case)


def replay(case: dict[str, typing.Any], ctx: Ctx, rec: Recorder) -> None:
    rec.case(case)
    run_case(rec, case)
