"""C08 — certificate name and fingerprint matching accept exactly what the rules allow.

Monitor: direct calls of the real matchers with synthetic getpeercert()-style dicts; each outcome is
compared with a three-valued RFC 6125 reference (must-accept / must-reject / either) written from the
statement.  Only must-accept / must-reject disagreements are violations."""
from __future__ import annotations

import hashlib
import ipaddress
import itertools
import typing

from vf.core import Ctx, Recorder

ACCEPT, REJECT, EITHER = "accept", "reject", "either"
LABELS = ["a", "b", "ab", "*", "a*", "*a", "a*b", "**", "xn--a", "xn--*", ""]


# ------------------------------------------------------------------ reference -----------------
def host_as_ip(host: str) -> typing.Any:
    h = host
    if "%" in h:
        h = h[: h.rfind("%")]
    try:
        return ipaddress.ip_address(h)
    except ValueError:
        return None


def ref_dns_entry(entry: str, host: str) -> str:
    """DNS-ID entry vs DNS host (host is not an IP literal)."""
    if entry == "" or host == "":
        return EITHER
    hl = host.lower().split(".")
    el = entry.lower().split(".")
    # only a host that itself contains '*' is outside the decided classes; empty labels are decided:
    # no wildcard may match an empty label, and without a wildcard only exact equality accepts
    host_weird = "*" in host
    if "*" not in entry:
        if entry.lower() == host.lower():
            return ACCEPT  # exact case-insensitive match is must-accept whatever the spelling
        return EITHER if host_weird else REJECT
    if host_weird:
        return EITHER
    # from here: host is wildcard-free with non-empty labels
    left, rest = el[0], el[1:]
    if any("*" in x for x in rest):
        return REJECT  # wildcard outside the left-most label
    if left.count("*") >= 2:
        return REJECT  # more than one wildcard
    if left == "*":
        if not rest:
            return EITHER  # bare "*"
        if len(hl) == len(rest) + 1 and hl[1:] == rest and hl[0] != "":
            return ACCEPT  # whole-label wildcard covering exactly one non-empty left-most label
        return REJECT  # would have to span dots / match an empty label / different suffix
    # partial wildcard in the left-most label
    if left.startswith("xn--"):
        return REJECT  # wildcard inside an IDN A-label
    if len(hl) != len(el) or hl[1:] != rest:
        return REJECT
    pre, post = left.split("*")
    h0 = hl[0]
    if h0.startswith("xn--"):
        # a partial wildcard would have to stand for part of an IDN A-label of the host: the wildcard is then
        # "inside an A-label" and only the literal entry could match, which a wildcard-free host never equals
        return REJECT
    if len(h0) >= len(pre) + len(post) and h0.startswith(pre) and h0.endswith(post):
        return EITHER  # partial wildcards may or may not be honoured
    return REJECT


def ref_match(san: list[list[str]], cn: str | None, cn_enabled: bool, host: str) -> str:
    hip = host_as_ip(host)
    verdicts: list[str] = []
    n_id_entries = 0
    for typ, val in san:
        if typ == "DNS":
            n_id_entries += 1
            verdicts.append(REJECT if hip is not None else ref_dns_entry(val, host))
        elif typ == "IP Address":
            n_id_entries += 1
            if hip is None:
                verdicts.append(REJECT)
            else:
                try:
                    eip = ipaddress.ip_address(val.rstrip())
                except ValueError:
                    verdicts.append(EITHER)
                    continue
                verdicts.append(ACCEPT if eip.packed == hip.packed else REJECT)
        # other SAN types (URI, email) never identify a host
    n_other = sum(1 for typ, _ in san if typ not in ("DNS", "IP Address"))
    if cn is not None and cn_enabled and hip is None and n_id_entries == 0:
        v = ref_dns_entry(cn, host)
        # a subjectAltName that holds only non-host names (URI, email): RFC 6125 6.4.4 forbids the commonName then (an
        # URI-ID is present), OpenSSL's X509_check_host and CPython's matcher consult it (no DNS-ID present): either
        verdicts.append(EITHER if (n_other and v == ACCEPT) else v)
    # commonName when SANs exist, when not enabled, or for IP hosts: contributes nothing (= reject)
    if ACCEPT in verdicts:
        return ACCEPT
    if EITHER in verdicts:
        return EITHER
    return REJECT


# ------------------------------------------------------------------ execution -----------------
def real_match(via: str, san: list[list[str]], cn: str | None, cn_enabled: bool, host: str) -> tuple[str, str]:
    from urllib3.connection import _match_hostname
    from urllib3.util.ssl_match_hostname import CertificateError, match_hostname

    cert: dict[str, typing.Any] = {"subject": ((("organizationName", "x"),),)}
    if cn is not None:
        cert["subject"] = ((("organizationName", "x"),), (("commonName", cn),))
    if san:
        cert["subjectAltName"] = tuple((t, v) for t, v in san)
    try:
        if via == "wrapper":
            _match_hostname(cert, host, cn_enabled)  # type: ignore[arg-type]
        else:
            match_hostname(cert, host, cn_enabled)  # type: ignore[arg-type]
        return ACCEPT, ""
    except CertificateError as e:
        return REJECT, "CertificateError:" + str(e)[:60]
    except Exception as e:  # noqa: BLE001
        return "exception", type(e).__name__ + ":" + str(e)[:80]


def judge(rec: Recorder, via: str, san: list[list[str]], cn: str | None, cn_enabled: bool, host: str, ref_host: str | None = None) -> None:
    want = ref_match(san, cn, cn_enabled, ref_host if ref_host is not None else host)
    got, detail = real_match(via, san, cn, cn_enabled, host)
    case = {"what": "name", "via": via, "san": san, "cn": cn, "cn_enabled": cn_enabled, "host": host}
    rec.mon("name_verdict")
    rec.count("ref_" + want)
    if got == "exception":
        # an unparsable IP entry is outside the quantifier; everything else must be CertificateError or success
        if want == EITHER and "does not appear to be an IPv4 or IPv6 address" in detail:
            rec.count("either_exception_unparsable_ip_entry")
            return
        rec.fail(case, "unexpected-exception", {"exc": detail.split(":")[0], "ref": want}, f"matcher raised {detail} (reference: {want})")
        return
    if want == EITHER:
        rec.count("either_" + got)
        return
    rec.mon("name_decided")
    if got != want:
        rec.fail(case, "must-" + want + "-violated", {"ref": want, "got": got, "detail": detail.split(":")[0], "too_many_wildcards": "too many wildcards" in detail}, f"reference says must {want}, matcher did {got} ({detail})")


def names(maxlabels: int) -> list[str]:
    out = []
    for n in range(1, maxlabels + 1):
        for combo in itertools.product(LABELS, repeat=n):
            out.append(".".join(combo))
    return out


def casevariants(s: str) -> list[str]:
    v = {s, s.upper(), s.title()}
    return sorted(v)


V4 = ["1.2.3.4", "1.2.3.5", "127.0.0.1", "10.0.0.1"]
V6_SAME = ["::1", "0:0:0:0:0:0:0:1", "0000:0000:0000:0000:0000:0000:0000:0001", "::0001"]
V6_OTHER = ["::2", "fe80::1", "FE80::1", "fe80:0:0:0:0:0:0:1", "2001:db8::a", "2001:DB8:0:0::A", "::ffff:1.2.3.4", "::ffff:102:304", "::1.2.3.4"]
IP_ENTRY_SPELLINGS = V4 + V6_SAME + V6_OTHER + ["1.2.3.4\n", "::1\n", "FE80:0:0:0:0:0:0:1\n"]
IP_HOSTS = V4 + V6_SAME + V6_OTHER + ["fe80::1%eth0", "fe80::1%25eth0", "::1%1", "1.2.3.4%x"]
DNSISH_HOSTS = ["a.b", "1.2.3", "1.2.3.4.5", "01.2.3.4", "1.2.3.256", "::g", "a", "localhost"]


def run_names(ctx: Ctx, rec: Recorder) -> None:
    hosts_n = ctx.pick(3, 3)
    entries = names(ctx.pick(2, 3))
    hosts = names(hosts_n)
    # (i) every single-entry SAN x host pair over the label alphabet (exhaustive for these lengths)
    idx = 0
    for e in entries:
        for h in hosts:
            idx += 1
            if not ctx.mine(idx):
                continue
            rec.case(["1", e, h], nontrivial=True)
            judge(rec, "direct", [["DNS", e]], None, False, h)
    rec.exhaustive_parts.append(f"single DNS entry (<= {ctx.pick(2, 3)} labels over {len(LABELS)}-symbol label alphabet) x host (<= {hosts_n} labels): {len(entries)}x{len(hosts)} pairs")
    # 4-label hosts / entries: strided sample in quick, larger in thorough
    e4 = names(4)
    stride = ctx.pick(9973, 97)
    k = 0
    for i in range(ctx.shard, len(e4), ctx.nshards * 7):
        e = e4[i]
        for j in range((i * 31) % stride, len(e4), stride):
            h = e4[j]
            k += 1
            rec.case(["4", e, h])
            judge(rec, "direct", [["DNS", e]], None, False, h)
        # the host equal to the entry with the wildcard label instantiated, and case variants
        for inst in ("a", "xn--a", "ab", ""):
            h = ".".join(inst if x == "*" else x for x in e.split("."))
            for hv in casevariants(h):
                rec.case(["4i", e, hv])
                judge(rec, "direct", [["DNS", e]], None, False, hv)
    # (ii) case variants on the decided classes
    small = names(2)
    idx = 0
    for e in small:
        for h in small:
            for ev in casevariants(e):
                for hv in casevariants(h):
                    idx += 1
                    if ev == e and hv == h or not ctx.mine(idx):
                        continue
                    rec.case(["case", ev, hv])
                    judge(rec, "direct", [["DNS", ev]], None, False, hv)
                    judge(rec, "wrapper", [["DNS", ev]], None, False, hv)
    # (iii) SAN lists of 2-3 entries: composition (a later entry must still be able to accept)
    rng = ctx.rng
    pool2 = names(2)
    pool3 = names(3)
    n_lists = ctx.pick(25000, 900000)
    for i in range(n_lists):
        if ctx.out_of_time(0.85):
            rec.count("lists_cut_short_by_budget")
            break
        n = rng.choice([2, 2, 3])
        pool = pool2 if rng.random() < 0.6 else pool3
        host = rng.choice(pool)
        if rng.random() < 0.5:
            host = host.replace("*", rng.choice(["a", "b", "ab"])) or "a"
        san = []
        for _ in range(n):
            r = rng.random()
            if r < 0.25:
                san.append(["DNS", host if rng.random() < 0.5 else host.upper()])
            elif r < 0.45 and "." in host:
                san.append(["DNS", "*." + host.split(".", 1)[1]])
            elif r < 0.55:
                san.append(["IP Address", rng.choice(V4 + V6_SAME)])
            elif r < 0.6:
                san.append(["URI", "http://" + host + "/"])
            else:
                san.append(["DNS", rng.choice(pool)])
        cn = rng.choice([None, host, rng.choice(pool2)])
        cn_enabled = rng.random() < 0.5
        rec.case(["list", san, cn, cn_enabled, host])
        judge(rec, rng.choice(["direct", "wrapper"]), san, cn, cn_enabled, host)
        if i < 2:
            rec.sample({"san": san, "commonName": cn, "cn_enabled": cn_enabled, "host": host, "reference": ref_match(san, cn, cn_enabled, host)})
    # (iv) commonName rules, exhaustively over a small space
    idx = 0
    for cn in small:
        for h in small:
            for cn_enabled in (False, True):
                for san in ([], [["DNS", "b.b"]], [["IP Address", "1.2.3.4"]], [["URI", "http://x/"]], [["DNS", h]]):
                    idx += 1
                    if not ctx.mine(idx):
                        continue
                    rec.case(["cn", cn, h, cn_enabled, san])
                    rec.mon("cn_rule")
                    judge(rec, "direct", [list(x) for x in san], cn, cn_enabled, h)
    # (v) IP literals: entries x hosts, typed DNS / IP Address, direct and through the bracket-stripping wrapper
    idx = 0
    for ent in IP_ENTRY_SPELLINGS + ["a.b", "*"]:
        for host in IP_HOSTS + DNSISH_HOSTS:
            for typ in ("IP Address", "DNS"):
                idx += 1
                if not ctx.mine(idx):
                    continue
                if typ == "IP Address" and host_as_ip(ent.rstrip()) is None:
                    continue  # certificates cannot carry an unparsable iPAddress
                rec.case(["ip", typ, ent, host])
                rec.mon("ip_rule")
                judge(rec, "direct", [[typ, ent]], ent if typ == "DNS" else None, True, host)
                if host_as_ip(host) is not None and ":" in host:
                    # bracketed literal: only the connection-level wrapper strips brackets
                    judge(rec, "wrapper", [[typ, ent]], None, False, "[" + host + "]", ref_host=host)
                judge(rec, "wrapper", [[typ, ent]], None, False, host)


# ------------------------------------------------------------------ fingerprints --------------
def run_pins(ctx: Ctx, rec: Recorder) -> None:
    from urllib3.exceptions import SSLError
    from urllib3.util.ssl_ import assert_fingerprint

    certs = [b"", b"cert-one", bytes(range(256)) * 3, b"\x30\x82" + b"A" * 700]
    hexd = "0123456789abcdef"

    def variants(d: str) -> typing.Iterator[tuple[str, str]]:
        yield "true", d
        yield "upper", d.upper()
        yield "mixed", "".join(c.upper() if i % 3 == 0 else c for i, c in enumerate(d))
        yield "colons-std", ":".join(d[i : i + 2] for i in range(0, len(d), 2))
        yield "colons-std-upper", ":".join(d[i : i + 2] for i in range(0, len(d), 2)).upper()
        for pos in range(len(d) + 1):
            yield "colon@", d[:pos] + ":" + d[pos:]
        yield "colons-everywhere", ":" + ":".join(d) + ":"
        for pos in range(len(d)):
            for c in hexd:
                if c != d[pos]:
                    yield "flip", d[:pos] + c + d[pos + 1 :]
        for n in range(len(d)):
            yield "trunc", d[:n]
        for ext in list(hexd) + [a + b for a in "0f" for b in "0f"]:
            yield "ext", d + ext
            yield "ext-front", ext + d

    idx = 0
    for ci, cert in enumerate(certs):
        digests = {
            32: hashlib.md5(cert).hexdigest(),
            40: hashlib.sha1(cert).hexdigest(),
            64: hashlib.sha256(cert).hexdigest(),
        }
        other = certs[(ci + 1) % len(certs)]
        pins: list[tuple[str, str]] = []
        for d in digests.values():
            pins.extend(variants(d))
        # digests of the wrong algorithm/length and of another certificate
        pins.append(("sha512", hashlib.sha512(cert).hexdigest()))
        pins.append(("sha224", hashlib.sha224(cert).hexdigest()))
        pins.append(("sha384", hashlib.sha384(cert).hexdigest()))
        pins.append(("other-cert", hashlib.sha256(other).hexdigest()))
        pins.append(("other-cert", hashlib.sha1(other).hexdigest()))
        pins.append(("md5-of-sha1-len", digests[32] + "00000000"))
        pins.append(("sha256-prefix-40", digests[64][:40]))
        pins.append(("sha256-prefix-32", digests[64][:32]))
        for kind, pin in pins:
            idx += 1
            if not ctx.mine(idx):
                continue
            norm = pin.replace(":", "").lower()
            want = ACCEPT if (len(norm) in digests and digests[len(norm)] == norm) else REJECT
            case = {"what": "pin", "cert": ci, "kind": kind, "pin": pin}
            rec.case(["pin", ci, pin], nontrivial=kind != "true")
            rec.mon("pin_verdict")
            rec.count("pin_ref_" + want)
            try:
                assert_fingerprint(cert, pin)
                got, detail = ACCEPT, ""
            except SSLError as e:
                got, detail = REJECT, "SSLError"
            except Exception as e:  # noqa: BLE001
                got, detail = "exception", type(e).__name__
            if got == "exception":
                rec.fail(case, "pin-unexpected-exception", {"exc": detail, "ref": want}, f"assert_fingerprint raised {detail}")
            elif got != want:
                rec.fail(case, "pin-must-" + want + "-violated", {"ref": want, "got": got, "kind": kind}, f"pin {kind}: reference {want}, got {got}")
            if idx % 4001 == 0:
                rec.sample({"cert_len": len(cert), "pin_kind": kind, "pin": pin, "reference": want})
    # pin histories: the verdict on (certificate, pin) must not depend on the pins checked before.  Malformed pins of the
    # right length (a non-hex character: 'O' typed for '0', a dash, a space, a non-ASCII letter) are rejected - by whatever
    # exception - and the true pins of every length, in every spelling, must still be accepted right afterwards.
    if ctx.shard == 0:
        for ci, cert in enumerate(certs):
            digests = {32: hashlib.md5(cert).hexdigest(), 40: hashlib.sha1(cert).hexdigest(), 64: hashlib.sha256(cert).hexdigest()}
            for n, d in digests.items():
                for bad_ch in ("O", "g", "-", " ", "\u00e9", "\x00", "l"):
                    for pos in (0, n // 2, n - 1):
                        bad = d[:pos] + bad_ch + d[pos + 1 :]
                        steps = [("malformed", bad, REJECT)] + [(k, v, ACCEPT) for dd in digests.values() for k, v in (("true", dd), ("upper", dd.upper()), ("colons-std", ":".join(dd[i : i + 2] for i in range(0, len(dd), 2))))]
                        steps.append(("flip-after-malformed", d[:pos] + ("0" if d[pos] != "0" else "1") + d[pos + 1 :], REJECT))
                        for kind, pin, want in steps:
                            case = {"what": "pin", "cert": ci, "kind": kind, "pin": pin, "after_malformed": bad}
                            rec.case(["pin-history", ci, bad, pin])
                            rec.mon("pin_history")
                            try:
                                assert_fingerprint(cert, pin)
                                got = ACCEPT
                            except SSLError:
                                got = REJECT
                            except Exception as e:  # noqa: BLE001
                                # a malformed pin may be refused with any exception; a well-formed one may not raise anything else
                                got = REJECT if kind == "malformed" else "exception:" + type(e).__name__
                                rec.count("malformed_pin_refused_with_" + type(e).__name__)
                            if got != want:
                                rec.fail(case, "pin-must-" + want + "-violated", {"ref": want, "got": got, "kind": kind, "history": "after a malformed pin of the same length"}, f"pin {kind} after malformed pin {bad!r}: reference {want}, got {got}")
    # no certificate at all must be rejected
    rec.mon("pin_verdict")
    try:
        assert_fingerprint(None, "aa" * 32)
        rec.fail({"what": "pin", "cert": None}, "pin-must-reject-violated", {"ref": REJECT, "got": ACCEPT, "kind": "no-cert"}, "no peer certificate accepted")
    except SSLError:
        pass


def run_histories(ctx: Ctx, rec: Recorder) -> None:
    """The verdict for (certificate, host, commonName flag) must not depend on what was matched before: every rejecting
    call is repeated right after an accepting call that shares its host, its SAN list or its entry (memoised verdicts
    or compiled patterns keyed on too little show up here), through both entry points."""
    hosts = ["a.b", "A.B", "ab.a.b", "xn--a.a.b", "a.example.test", "1.2.3.4"]
    for via in ("wrapper", "function"):
        for h in hosts:
            for cn_first in (True, False):
                seq = [
                    # (SAN, CN, cn_enabled, host)
                    ([], h.lower(), True, h),            # accept: SAN-less certificate, commonName enabled and equal
                    ([], "other.name", True, h),         # reject: another commonName
                    ([], h.lower(), False, h),           # reject: commonName not enabled
                    ([], h.lower(), False, h.upper()),   # reject: same, another spelling of the host
                    ([["DNS", h.lower()]], None, False, h),          # accept by SAN
                    ([["DNS", "zz." + h.lower()]], None, False, h),  # reject: different SAN
                    ([["DNS", "*." + h.lower().split(".", 1)[-1]]], None, False, h),  # wildcard entry: reference decides
                    ([["DNS", "*." + h.lower().split(".", 1)[-1]]], None, False, "xn--a." + h.lower().split(".", 1)[-1]),
                    ([], "other.name", False, h),        # reject
                ]
                if not cn_first:
                    seq = seq[4:] + seq[:4]
                for san, cn, en, host in seq + seq:
                    rec.case(["history", via, san, cn, en, host])
                    rec.mon("history_sequence")
                    judge(rec, via, san, cn, en, host)


def run_shard(ctx: Ctx, rec: Recorder) -> None:
    run_pins(ctx, rec)
    if ctx.shard == 0:
        run_histories(ctx, rec)
    run_names(ctx, rec)
    if ctx.shard == 0:
        run_histories(ctx, rec)


def replay(case: dict[str, typing.Any], ctx: Ctx, rec: Recorder) -> None:
    if case.get("what") == "name":
        rec.case(case)
        judge(rec, case["via"], case["san"], case["cn"], case["cn_enabled"], case["host"])
    else:
        rec.note_inconclusive("pin cases are replayed by re-running the check (deterministic enumeration)")
