"""C07 — an HTTPS request is sent only over a connection verified as configured.

Monitor: real TLS handshakes against a loopback origin with throw-away CAs; the server side records whether
the handshake completed and how many application bytes arrived.  For every lattice point the 'demanded
checks' predicate says must-reject / must-accept / either; a must-reject point that leaks a single
application byte, surfaces as anything but SSLError, or leaves the socket open is a violation, and so is an
unverified connection that does not warn or claims to be verified."""
from __future__ import annotations

import hashlib
import ssl
import typing
import warnings

from vf import tlsnet
from vf.core import Ctx, Recorder
from vf.props import c08

CERT_REQS = ["unset", "CERT_REQUIRED", "CERT_OPTIONAL", "CERT_NONE"]
ASSERT_HOSTNAME = ["unset", False, "match", "other"]
FINGERPRINT = ["unset", "sha256", "sha1", "md5", "wrong", "badlen", "sha256-colons-upper"]
SERVER_HOSTNAME = ["unset", "right", "wrong"]
CONTEXTS = ["none", "default-like", "no-check-hostname", "verify-none"]
CA_SOURCE = ["ca_certs", "ca_cert_data", "none", "other_ca_certs", "other_ca_cert_data", "ca_certs+other_ca_cert_data", "other_ca_certs+ca_cert_data"]  # other_*: only the second CA is trusted
LEAVES = ["exact", "wildcard", "ip4", "ip6", "cn-only", "other", "multi", "upper-wild"]
HOSTS = ["good.test", "GOOD.TEST", "good.test.", "a.wild.test", "A.Wild.Test", "a.b.wild.test", "wild.test", "127.0.0.1", "[::1]", "[::1%25lo]", "other.test", "xn--bcher-kva.test"]
ROUTES = ["direct", "direct", "http-tunnel"]


def strip_host(h: str) -> str:
    h = h.strip("[]")
    if "%" in h:
        h = h.split("%", 1)[0]
    return h.rstrip(".")


def uses_default_store(point: dict[str, typing.Any]) -> bool:
    return point["ca_source"] == "none" and point["ssl_context"] == "none" and not point["pyopenssl"]


def demanded(point: dict[str, typing.Any], leaf: dict[str, typing.Any]) -> tuple[str, dict[str, typing.Any]]:
    """('must-reject' | 'must-accept' | 'either', details)"""
    cr = point["cert_reqs"]
    if cr != "unset":
        mode = cr
    elif point["ssl_context"] == "verify-none":
        mode = "CERT_NONE"
    else:
        mode = "CERT_REQUIRED"
    det: dict[str, typing.Any] = {"mode": mode, "conflict": False}
    # a caller context that keeps check_hostname on cannot be switched to a weaker verify mode by assignment
    if point["ssl_context"] == "default-like" and mode == "CERT_NONE" and not point["pyopenssl"]:
        det["conflict"] = True
    verdicts = []
    if mode != "CERT_NONE":
        both = point["ca_source"] in ("ca_certs+other_ca_cert_data", "other_ca_certs+ca_cert_data")  # a file for one CA plus data for the other
        chain_ok = both or (leaf["issuer"] == "trusted" and point["ca_source"] in ("ca_certs", "ca_cert_data")) or (leaf["issuer"] == "untrusted" and point["ca_source"] in ("other_ca_certs", "other_ca_cert_data"))
        # nothing configured at all (no CA setting, no caller context): the process's default store applies, which the
        # harness points at the first CA (SSL_CERT_FILE) - configured CAs must not be *added to* by that store
        if uses_default_store(point) and leaf["issuer"] == "trusted":
            chain_ok = True
        det["chain_ok"] = chain_ok
        verdicts.append("pass" if chain_ok else "fail")
    pin = point["fingerprint"]
    if pin != "unset":
        det["pin"] = pin
        verdicts.append("pass" if pin in ("sha256", "sha1", "md5", "sha256-colons-upper") else "fail")
    elif mode != "CERT_NONE" and point["assert_hostname"] is not False:
        if point["assert_hostname"] == "match":
            name = strip_host(point["host"])
        elif point["assert_hostname"] == "other":
            name = "elsewhere.test"
        elif point["server_hostname"] == "right":
            name = strip_host(point["host"])
        elif point["server_hostname"] == "wrong":
            name = "elsewhere.test"
        else:
            name = strip_host(point["host"])
        ref = c08.ref_match(leaf["san"], leaf["cn"], False, name)
        det["name"] = name
        det["name_ref"] = ref
        verdicts.append({"accept": "pass", "reject": "fail", "either": "either"}[ref])
    if point.get("route") == "https-tunnel" and mode != "CERT_NONE" and point["ca_source"] not in ("ca_certs", "ca_cert_data", "ca_certs+other_ca_cert_data", "other_ca_certs+ca_cert_data") and not uses_default_store(point):
        # the TLS leg to the https proxy is verified with the same mode and CA settings and comes first
        det["proxy_leg"] = "fail"
        verdicts.append("fail")
    if "fail" in verdicts:
        return "must-reject", det
    if "either" in verdicts:
        return "either", det
    return "must-accept", det


def build_kwargs(point: dict[str, typing.Any], certs: tlsnet.Certs, leaf: dict[str, typing.Any]) -> dict[str, typing.Any]:
    from urllib3.util.ssl_ import create_urllib3_context

    kw: dict[str, typing.Any] = {}
    if point["cert_reqs"] != "unset":
        kw["cert_reqs"] = point["cert_reqs"]
    ah = point["assert_hostname"]
    if ah is False:
        kw["assert_hostname"] = False
    elif ah == "match":
        kw["assert_hostname"] = strip_host(point["host"])
    elif ah == "other":
        kw["assert_hostname"] = "elsewhere.test"
    fp = point["fingerprint"]
    der = leaf["der"]
    if fp == "sha256":
        kw["assert_fingerprint"] = hashlib.sha256(der).hexdigest()
    elif fp == "sha1":
        kw["assert_fingerprint"] = hashlib.sha1(der).hexdigest()
    elif fp == "md5":
        kw["assert_fingerprint"] = hashlib.md5(der).hexdigest()
    elif fp == "sha256-colons-upper":
        h = hashlib.sha256(der).hexdigest().upper()
        kw["assert_fingerprint"] = ":".join(h[i : i + 2] for i in range(0, len(h), 2))
    elif fp == "wrong":
        h = hashlib.sha256(der).hexdigest()
        kw["assert_fingerprint"] = ("0" if h[0] != "0" else "1") + h[1:]
    elif fp == "badlen":
        kw["assert_fingerprint"] = hashlib.sha256(der).hexdigest()[:50]
    if point["server_hostname"] == "right":
        kw["server_hostname"] = strip_host(point["host"])
    elif point["server_hostname"] == "wrong":
        kw["server_hostname"] = "elsewhere.test"
    sc = point["ssl_context"]
    if sc != "none":
        ctx = create_urllib3_context()
        if sc in ("no-check-hostname", "verify-none"):
            ctx.check_hostname = False
        if sc == "verify-none":
            ctx.verify_mode = ssl.CERT_NONE
        kw["ssl_context"] = ctx
    if point["ca_source"] == "ca_certs":
        kw["ca_certs"] = certs.ca_file
    elif point["ca_source"] == "ca_cert_data":
        kw["ca_cert_data"] = certs.ca_data
    elif point["ca_source"] == "other_ca_certs":
        kw["ca_certs"] = certs.other_ca_file
    elif point["ca_source"] == "other_ca_cert_data":
        kw["ca_cert_data"] = certs.other_ca_data
    elif point["ca_source"] == "ca_certs+other_ca_cert_data":
        kw["ca_certs"] = certs.ca_file
        kw["ca_cert_data"] = certs.other_ca_data
    elif point["ca_source"] == "other_ca_certs+ca_cert_data":
        kw["ca_certs"] = certs.other_ca_file
        kw["ca_cert_data"] = certs.ca_data
    return kw


def run_point(rec: Recorder, point: dict[str, typing.Any], certs: tlsnet.Certs) -> None:
    import urllib3
    from urllib3.exceptions import HTTPError, InsecureRequestWarning, MaxRetryError, ProxyError, SSLError

    leaf = certs.get(point["leaf"], point["issuer"])
    verdict, det = demanded(point, leaf)
    case = dict(point)
    rec.mon("lattice_point")
    rec.count("ref_" + verdict)
    rec.count(f"route_{point['route']}_{'pyopenssl' if point['pyopenssl'] else 'ssl'}")
    cfg = {"role": "origin", "tls": (point["leaf"], point["issuer"])} if point["route"] in ("direct", "manager-after-lax") else {"role": "proxy", "tls": ("proxy", "trusted") if point["route"] == "https-tunnel" else None, "inner": (point["leaf"], point["issuer"])}
    exc: BaseException | None = None
    status = None
    verified = None
    with tlsnet.TLSNet(lambda i: cfg, certs) as net, warnings.catch_warnings(record=True) as wlist:
        warnings.simplefilter("always")
        try:
            kw = build_kwargs(point, certs, leaf)
        except Exception as e:  # noqa: BLE001
            rec.note_inconclusive(f"could not build the client configuration: {e!r}")
            return
        host = point["host"]
        retries: typing.Any = urllib3.Retry(1, redirect=False) if point.get("retry") and not (point["pyopenssl"] and point["ssl_context"] != "none") else False
        pool: typing.Any = None
        extra_pools: list[typing.Any] = []
        try:
            if point["route"] == "direct":
                h = host.strip("[]") if host.startswith("[") else host
                pool = urllib3.HTTPSConnectionPool(h.replace("%25", "%"), 443, retries=False, maxsize=1, **kw)
                do = lambda: pool.urlopen("GET", "/secret?token=abc", retries=retries, headers={"Authorization": "Bearer app-secret"})  # noqa: E731
            elif point["route"] == "manager-after-lax":
                # one PoolManager: a pool with laxer per-request overrides is obtained (and used) first, then the judged
                # request goes out with the manager's own settings, which must still be enforced
                pm = urllib3.PoolManager(retries=False, maxsize=1, **kw)
                lax_kw = point.get("lax") or {"assert_hostname": False}
                if point["pyopenssl"] and point["ssl_context"] != "none":
                    lax_kw = None  # pyOpenSSL refuses to reconfigure a context that was already used: no second pool on it
                try:
                    if lax_kw is not None:
                        lax_pool = pm.connection_from_host(host, 443, scheme="https", pool_kwargs=dict(lax_kw))
                        extra_pools.append(lax_pool)
                        lax_pool.urlopen("GET", "/warmup", retries=False).drain_conn()
                        rec.count("lax_warmup_accepted")
                except (HTTPError, ValueError):
                    rec.count("lax_warmup_refused")
                wlist.clear()
                pool = pm.connection_from_url(f"https://{host}/")
                do = lambda: pm.urlopen("GET", f"https://{host}/secret?token=abc", retries=retries, headers={"Authorization": "Bearer app-secret"})  # noqa: E731
            else:
                if point["route"] == "https-tunnel" and point.get("proxy_pin"):
                    # the TLS leg to the proxy is pinned separately: it counts as verified whatever the origin's settings are
                    kw = dict(kw, proxy_assert_fingerprint=hashlib.sha256(certs.get("proxy", "trusted")["der"]).hexdigest())
                pm = urllib3.ProxyManager(("https" if point["route"] == "https-tunnel" else "http") + "://proxy.test:3128", retries=False, maxsize=1, **kw)
                pool = pm.connection_from_url(f"https://{host}/")
                do = lambda: pm.urlopen("GET", f"https://{host}/secret?token=abc", retries=retries, headers={"Authorization": "Bearer app-secret"})  # noqa: E731
            try:
                r = do()
            except HTTPError as first:
                if not point.get("again"):
                    raise
                # the same pool is asked again after a failed check: nothing may be sent then either; the
                # exception class is judged on the first attempt (pyOpenSSL refuses to reconfigure a caller
                # context that was already used, which is not a verification outcome)
                rec.count("asked_again_after_failure")
                try:
                    r = do()
                except Exception as second:  # noqa: BLE001
                    rec.seen("second_attempt_outcome", type(second).__name__)
                    raise first
            if point.get("again"):
                r.drain_conn()
                wlist.clear()
                r = do()
                rec.count("second_request_on_accepted_pool")
            status = r.status
            q = getattr(getattr(pool, "pool", None), "queue", [])
            conns = [c for c in q if c is not None]
            if conns:
                verified = bool(conns[-1].is_verified)
        except BaseException as e:  # noqa: BLE001
            if isinstance(e, (KeyboardInterrupt, SystemExit)):
                raise
            exc = e
        for pl in [pool] + extra_pools:
            if pl is not None:
                try:
                    pl.close()
                except Exception:  # noqa: BLE001
                    pass
        quiet = net.wait_quiet(2.5)
        log = [dict(e) for e in net.listener.log]
        insecure_warned = any(issubclass(w.category, InsecureRequestWarning) for w in wlist)
    # (bytes of the judged request: every judged request asks for /secret, a lax warm-up asks for /warmup)
    origin_bytes = sum(e.get("origin_bytes", 0) for e in log if b"/secret" in e.get("origin_raw", b"") or not e.get("origin_raw"))
    obs: dict[str, typing.Any] = {"verdict": verdict, "det": det, "exc": type(exc).__name__ if exc else None, "status": status, "origin_bytes": origin_bytes, "backend": "pyopenssl" if point["pyopenssl"] else "ssl", "route": point["route"],
                                   "shared_caller_context_after_lax_cert_reqs": point["route"] == "manager-after-lax" and point["ssl_context"] != "none" and "cert_reqs" in (point.get("lax") or {}) and point["cert_reqs"] == "unset" and not point["pyopenssl"]}
    if any(e.get("handler_error") for e in log):
        rec.note_inconclusive("server handler error: " + str([e.get("handler_error") for e in log if e.get("handler_error")])[:200])
        return
    if verdict == "must-reject":
        rec.mon("must_reject")
        if origin_bytes > 0 or status is not None:
            rec.fail(case, "request-sent-over-unverified-connection", obs, f"{origin_bytes} application bytes reached the origin although a demanded check fails ({det})")
            return
        # exception class
        inner: typing.Any = exc
        if isinstance(exc, MaxRetryError):
            inner = exc.reason
        if isinstance(inner, ProxyError) and inner.original_error is not None:
            inner = inner.original_error
        if not isinstance(inner, SSLError):
            if det.get("conflict") and isinstance(exc, ValueError):
                rec.count("conflicting_configuration_valueerror")
            elif point["pyopenssl"] and "data" in point["ca_source"] and isinstance(exc, (TypeError, ValueError)):
                # urllib3.contrib.pyopenssl cannot take CA data in this pyOpenSSL version (it fails before any I/O, with
                # TypeError for str data): a configuration the backend rejects, not a verification outcome
                rec.count("pyopenssl_ca_cert_data_unusable")
            else:
                rec.fail(case, "failed-check-not-sslerror", dict(obs, surfaced=type(inner).__name__), f"a failed check surfaced as {type(exc).__name__}: {exc!s:.120}")
                return
        if not quiet:
            rec.fail(case, "socket-left-open-after-failed-check", obs, "the server did not see the connection close after the failed check")
            return
    else:
        if exc is None and status == 200:
            rec.count("accepted")
            if verdict == "must-accept":
                rec.mon("must_accept_accepted")
            # unverified connections must warn and must not claim to be verified
            rec.mon("verified_bookkeeping")
            mode = det["mode"]
            unverified = mode != "CERT_REQUIRED" and point["fingerprint"] == "unset"
            if unverified:
                if not insecure_warned:
                    rec.fail(case, "no-insecure-warning", obs, f"connection made with {mode} and no pin did not trigger InsecureRequestWarning")
                    return
                if verified:
                    rec.fail(case, "unverified-reported-as-verified", obs, f"connection made with {mode} and no pin reports is_verified=True")
                    return
            if origin_bytes == 0:
                rec.fail(case, "accepted-but-no-bytes", obs, "status 200 but the origin saw no bytes (harness inconsistency)")
        else:
            if verdict == "must-accept":
                rec.count("over_strict_rejection")
                if not (det.get("conflict") and isinstance(exc, ValueError)):
                    rec.seen("over_strict", {k: point[k] for k in ("leaf", "host", "assert_hostname", "server_hostname", "fingerprint", "ssl_context", "cert_reqs")} | {"exc": f"{type(exc).__name__}: {exc!s:.90}"})
            if point["pyopenssl"] and "data" in point["ca_source"] and isinstance(exc, TypeError):
                rec.count("pyopenssl_ca_cert_data_unusable")
            elif isinstance(exc, Exception) and not isinstance(exc, (HTTPError, ValueError)):
                rec.fail(case, "non-urllib3-exception", dict(obs, msg=str(exc)[:100]), f"{type(exc).__name__}: {exc!s:.120}")
    if rec.evaluations % 211 == 0:
        rec.sample({"point": point, "reference": verdict, "outcome": obs["exc"] or obs["status"], "origin_bytes": origin_bytes})


def random_point(rng: typing.Any, pyopenssl: bool) -> dict[str, typing.Any]:
    leaf = rng.choice(LEAVES)
    # bias hosts towards ones that can match the leaf so that accept paths are exercised
    related = {"exact": ["good.test", "GOOD.TEST", "good.test."], "wildcard": ["a.wild.test", "A.Wild.Test", "a.b.wild.test", "wild.test"], "upper-wild": ["a.wild.test", "A.Wild.Test"], "ip4": ["127.0.0.1"], "ip6": ["[::1]", "[::1%25lo]"], "cn-only": ["good.test"], "other": ["other.test", "good.test"], "multi": ["good.test", "a.wild.test", "127.0.0.1"]}[leaf]
    host = rng.choice(related) if rng.random() < 0.7 else rng.choice(HOSTS)
    return {
        "cert_reqs": rng.choice(CERT_REQS + ["unset", "unset"]), "assert_hostname": rng.choice(ASSERT_HOSTNAME + ["unset", "unset"]), "fingerprint": rng.choice(FINGERPRINT + ["unset"] * 6),
        "server_hostname": rng.choice(SERVER_HOSTNAME + ["unset", "unset"]), "ssl_context": rng.choice(CONTEXTS + ["none", "none"]), "ca_source": rng.choice(CA_SOURCE + ["ca_certs"] * (5 if pyopenssl else 2)),
        "issuer": rng.choice(["trusted", "trusted", "untrusted"]), "leaf": leaf, "host": host, "route": rng.choice(ROUTES + ["manager-after-lax"] + ([] if pyopenssl else ["https-tunnel"])), "pyopenssl": pyopenssl, "lax": rng.choice([{"assert_hostname": False}, {"cert_reqs": "CERT_NONE"}, {"cert_reqs": "CERT_NONE", "assert_hostname": False}, {"assert_fingerprint": None, "assert_hostname": False}]), "again": rng.random() < 0.3, "retry": rng.random() < 0.2, "proxy_pin": rng.random() < 0.4,
    }


def run_shard(ctx: Ctx, rec: Recorder) -> None:
    pyopenssl = ctx.shard % 2 == 1
    if pyopenssl:
        import urllib3.contrib.pyopenssl as pyo

        pyo.inject_into_urllib3()
    rec.seen("backends", "pyopenssl" if pyopenssl else "ssl")
    certs = tlsnet.Certs()
    import os
    import tempfile

    # the process-wide default trust store is part of the experiment: it holds the first CA, so a code path that consults it
    # although CAs were configured (or a context was supplied) accepts certificates the configuration does not trust
    empty_dir = tempfile.mkdtemp(prefix="vf-c07-capath-")
    saved_env = {k: os.environ.get(k) for k in ("SSL_CERT_FILE", "SSL_CERT_DIR")}
    os.environ["SSL_CERT_FILE"] = certs.ca_file
    os.environ["SSL_CERT_DIR"] = empty_dir
    try:
        # (i) one-factor-at-a-time around the secure default, for every leaf x related host
        base = {"cert_reqs": "unset", "assert_hostname": "unset", "fingerprint": "unset", "server_hostname": "unset", "ssl_context": "none", "ca_source": "ca_certs", "issuer": "trusted", "route": "direct", "pyopenssl": pyopenssl}
        idx = 0
        for leaf in LEAVES:
            for host in HOSTS:
                for issuer in ("trusted", "untrusted"):
                    idx += 1
                    if (idx // 2) % max(1, ctx.nshards // 2) != ctx.shard // 2:
                        continue
                    if ctx.quick and idx % 2:
                        continue
                    p = dict(base, leaf=leaf, host=host, issuer=issuer)
                    rec.case(["base", p])
                    run_point(rec, p, certs)
        for factor, values in (("cert_reqs", CERT_REQS), ("assert_hostname", ASSERT_HOSTNAME), ("fingerprint", FINGERPRINT), ("server_hostname", SERVER_HOSTNAME), ("ssl_context", CONTEXTS), ("ca_source", CA_SOURCE), ("route", ["direct", "http-tunnel", "manager-after-lax"] + ([] if pyopenssl else ["https-tunnel"]))):
            for v in values:
                for leaf, host in (("exact", "good.test"), ("exact", "other.test"), ("wildcard", "a.wild.test"), ("ip4", "127.0.0.1"), ("cn-only", "good.test")):
                    for issuer in ("trusted", "untrusted"):
                        idx += 1
                        if (idx // 2) % max(1, ctx.nshards // 2) != ctx.shard // 2:
                            continue
                        p = dict(base, leaf=leaf, host=host, issuer=issuer)
                        p[factor] = v
                        rec.case(["factor", p])
                        run_point(rec, p, certs)
        # (i-b) TLS-in-TLS with a separately pinned proxy leg and every origin-side mode: a verified proxy hop says nothing
        # about the origin hop
        if not pyopenssl:
            for cr in CERT_REQS + ["unset"]:
                for ah in (False, "unset"):
                    for leaf, host, issuer in (("exact", "good.test", "trusted"), ("exact", "good.test", "untrusted"), ("other", "good.test", "untrusted")):
                        idx += 1
                        if (idx // 2) % max(1, ctx.nshards // 2) != ctx.shard // 2:
                            continue
                        p = dict(base, leaf=leaf, host=host, issuer=issuer, route="https-tunnel", proxy_pin=True, cert_reqs=cr, assert_hostname=ah)
                        rec.case(["pinned-proxy", p])
                        rec.mon("pinned_proxy_tunnel")
                        run_point(rec, p, certs)
        # (ii) random lattice points
        n = ctx.pick(900, 12000)
        for i in range(n):
            if ctx.out_of_time(0.9):
                rec.count("random_cut_short_by_budget")
                break
            p = random_point(ctx.rng, pyopenssl)
            rec.case(["rand", p])
            run_point(rec, p, certs)
    finally:
        certs.close()
        for k, v in saved_env.items():
            if v is None:
                os.environ.pop(k, None)
            else:
                os.environ[k] = v
        import shutil

        shutil.rmtree(empty_dir, ignore_errors=True)


def replay(case: dict[str, typing.Any], ctx: Ctx, rec: Recorder) -> None:
    if case.get("pyopenssl"):
        import urllib3.contrib.pyopenssl as pyo

        pyo.inject_into_urllib3()
    import os
    import tempfile

    certs = tlsnet.Certs()
    empty_dir = tempfile.mkdtemp(prefix="vf-c07-capath-")
    os.environ["SSL_CERT_FILE"] = certs.ca_file  # same default trust store as in run_shard
    os.environ["SSL_CERT_DIR"] = empty_dir
    try:
        rec.case(case)
        run_point(rec, case, certs)
    finally:
        certs.close()
