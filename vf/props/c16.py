"""C16 — HTTPHeaderDict is a case-insensitive, order-preserving multimap.

Monitor: after every operation of a generated history the complete observable state of every live
HTTPHeaderDict is compared with a small reference multimap written from the statement."""
from __future__ import annotations

import itertools
import typing

from vf.core import Ctx, Recorder

NAMES = ["A", "a", "B", "b", "Set-Cookie", "set-cookie"]
VALUES = ["1", "2", "x, y", ""]
PROBES = NAMES + ["SET-COOKIE", "c"]
RN = ["A", "a", "B"]  # reduced alphabet of the exhaustive part
RV = ["1", "x, y"]

KEYERR = "<KeyError>"


# ---------------------------------------------------------------- reference multimap ----------
class Model:
    """Ordered list of [lower, display_name, [values]]."""

    def __init__(self, entries: list[list[typing.Any]] | None = None):
        self.e: list[list[typing.Any]] = entries or []

    def clone(self) -> "Model":
        return Model([[l, n, list(v)] for l, n, v in self.e])

    def find(self, k: str) -> list[typing.Any] | None:
        kl = k.lower()
        for ent in self.e:
            if ent[0] == kl:
                return ent
        return None

    def set(self, k: str, v: str) -> None:
        ent = self.find(k)
        if ent is None:
            self.e.append([k.lower(), k, [v]])
        else:  # assignment replaces, position kept, last-set casing
            ent[1] = k
            ent[2] = [v]

    def delete(self, k: str) -> None:
        ent = self.find(k)
        if ent is None:
            raise KeyError(k)
        self.e.remove(ent)

    def add(self, k: str, v: str, combine: bool = False) -> None:
        ent = self.find(k)
        if ent is None:
            self.e.append([k.lower(), k, [v]])
        elif combine:
            ent[2][-1] = ent[2][-1] + ", " + v
        else:  # add appends, first-seen casing kept
            ent[2].append(v)

    def merged(self, k: str) -> str:
        ent = self.find(k)
        if ent is None:
            raise KeyError(k)
        return ", ".join(ent[2])

    def lines(self) -> list[tuple[str, str]]:
        return [(n, v) for _, n, vs in self.e for v in vs]

    def mergedlist(self) -> list[tuple[str, str]]:
        return [(n, ", ".join(vs)) for _, n, vs in self.e]

    def eqkey(self) -> dict[str, str]:
        return {l: ", ".join(vs) for l, _, vs in self.e}


class KeysObj:
    """Accepted source type that is neither Mapping nor Iterable."""

    def __init__(self, pairs: list[list[str]]):
        self._d = {k: v for k, v in pairs}

    def keys(self) -> list[str]:
        return list(self._d)

    def __getitem__(self, k: str) -> str:
        return self._d[k]


class KeysIterObj(KeysObj):
    """Like http.client.HTTPMessage: keys() and item access, plus iteration over the *names* (not over pairs)."""

    def __iter__(self) -> typing.Iterator[str]:
        return iter(self._d)


def src_pairs_for_extend(spec: list[typing.Any], other: Model) -> list[tuple[str, str]]:
    kind = spec[0]
    if kind == "hd":
        return other.lines()
    if kind in ("dict", "keys", "keysiter", "dictitems"):
        d: dict[str, str] = {}
        for k, v in spec[1]:
            d[k] = v
        return list(d.items())
    return [(k, v) for k, v in spec[1]]


def src_pairs_for_update(spec: list[typing.Any], other: Model) -> list[tuple[str, str]]:
    kind = spec[0]
    if kind == "hd":  # a Mapping: for key in other: self[key] = other[key]  (merged value)
        return other.mergedlist()
    return src_pairs_for_extend(spec, other)


def build_src(spec: list[typing.Any], other_obj: typing.Any) -> typing.Any:
    kind = spec[0]
    if kind == "hd":
        return other_obj
    if kind == "dict":
        return {k: v for k, v in spec[1]}
    if kind == "keys":
        return KeysObj(spec[1])
    if kind == "keysiter":
        return KeysIterObj(spec[1])
    pairs = [(k, v) for k, v in spec[1]]
    # one-shot and other plain iterables of pairs: whatever looks at the operand before merging it must not use it up
    if kind == "iter":
        return iter(pairs)
    if kind == "gen":
        return (p for p in pairs)
    if kind == "zip":
        return zip([k for k, _ in pairs], [v for _, v in pairs])
    if kind == "tuple":
        return tuple(pairs)
    if kind == "dictitems":
        return {k: v for k, v in pairs}.items()
    return pairs


# ---------------------------------------------------------------- observation -----------------
def observe(hd: typing.Any) -> dict[str, typing.Any]:
    o: dict[str, typing.Any] = {}
    for k in PROBES:
        try:
            o["get:" + k] = hd[k]
        except KeyError:
            o["get:" + k] = KEYERR
        o["getlist:" + k] = list(hd.getlist(k))
        o["in:" + k] = k in hd
        o["getdef:" + k] = hd.get(k, "<dflt>")
    o["len"] = len(hd)
    o["iter"] = list(hd)
    o["iteritems"] = [list(x) for x in hd.iteritems()]
    o["itermerged"] = [list(x) for x in hd.itermerged()]
    items = hd.items()
    o["items"] = [list(x) for x in items]
    o["items_len"] = len(items)
    o["keys"] = list(hd.keys())
    o["values"] = list(hd.values())
    o["repr"] = repr(hd)
    o["items_has"] = [(k, v, (k, v) in items) for k in ("a", "B") for v in ("1", "x, y", "1, 2")]
    return o


def predict(m: Model) -> dict[str, typing.Any]:
    o: dict[str, typing.Any] = {}
    for k in PROBES:
        ent = m.find(k)
        o["get:" + k] = ", ".join(ent[2]) if ent else KEYERR
        o["getlist:" + k] = list(ent[2]) if ent else []
        o["in:" + k] = ent is not None
        o["getdef:" + k] = ", ".join(ent[2]) if ent else "<dflt>"
    o["len"] = len(m.e)
    o["iter"] = [n for _, n, _ in m.e]
    o["iteritems"] = [list(x) for x in m.lines()]
    o["itermerged"] = [list(x) for x in m.mergedlist()]
    o["items"] = o["iteritems"]
    o["items_len"] = len(o["iteritems"])
    o["keys"] = o["iter"]
    o["values"] = [", ".join(vs) for _, _, vs in m.e]
    o["repr"] = "HTTPHeaderDict(" + repr(dict(m.mergedlist())) + ")"
    o["items_has"] = [(k, v, (m.find(k) is not None and v in m.find(k)[2])) for k in ("a", "B") for v in ("1", "x, y", "1, 2")]  # type: ignore[index]
    return o


# ---------------------------------------------------------------- executing one history -------
class World:
    def __init__(self) -> None:
        from urllib3 import HTTPHeaderDict

        self.cls = HTTPHeaderDict
        self.d = HTTPHeaderDict()
        self.o = HTTPHeaderDict()
        self.md = Model()
        self.mo = Model()
        self.retired: list[tuple[typing.Any, Model]] = []  # earlier objects, must stay unchanged


def apply_op(w: World, op: list[typing.Any]) -> tuple[typing.Any, typing.Any]:
    """Returns (real outcome, predicted outcome); outcomes are return values or '<KeyError>'."""
    name = op[0]
    d, md = w.d, w.md

    def both(real: typing.Callable[[], typing.Any], model: typing.Callable[[], typing.Any]) -> tuple[typing.Any, typing.Any]:
        try:
            p = model()
        except KeyError:
            p = KEYERR
        try:
            r = real()
        except KeyError:
            r = KEYERR
        return r, p

    if name == "set":
        return both(lambda: d.__setitem__(op[1], op[2]), lambda: md.set(op[1], op[2]))
    if name == "del":
        return both(lambda: d.__delitem__(op[1]), lambda: md.delete(op[1]))
    if name == "add":
        return both(lambda: d.add(op[1], op[2]), lambda: md.add(op[1], op[2]))
    if name == "addc":
        return both(lambda: d.add(op[1], op[2], combine=True), lambda: md.add(op[1], op[2], True))
    if name == "sd":

        def m_sd() -> str:
            if md.find(op[1]) is not None:
                return md.merged(op[1])
            md.set(op[1], op[2])
            return typing.cast(str, op[2])

        return both(lambda: d.setdefault(op[1], op[2]), m_sd)
    if name == "pop":

        def m_pop() -> str:
            v = md.merged(op[1])
            md.delete(op[1])
            return v

        return both(lambda: d.pop(op[1]), m_pop)
    if name == "popd":

        def m_popd() -> str:
            if md.find(op[1]) is None:
                return "<d>"
            v = md.merged(op[1])
            md.delete(op[1])
            return v

        return both(lambda: d.pop(op[1], "<d>"), m_popd)
    if name == "popitem":

        def m_popitem() -> list[str]:
            if not md.e:
                raise KeyError()
            _, n, vs = md.e.pop(0)
            return [n, ", ".join(vs)]

        return both(lambda: list(d.popitem()), m_popitem)
    if name == "discard":

        def m_discard() -> None:
            if md.find(op[1]) is not None:
                md.delete(op[1])

        return both(lambda: d.discard(op[1]), m_discard)
    if name == "clear":
        return both(lambda: d.clear(), lambda: md.e.clear())
    if name in ("extend", "ior"):
        pairs = src_pairs_for_extend(op[1], w.mo)
        src = build_src(op[1], w.o)

        def m_ext() -> None:
            for k, v in pairs:
                md.add(k, v)

        if name == "extend":
            return both(lambda: d.extend(src), m_ext)

        def r_ior() -> None:
            x = w.d
            x |= src
            if x is not w.d:
                raise AssertionError("|= returned a different object")

        return both(r_ior, m_ext)
    if name == "update":
        pairs = src_pairs_for_update(op[1], w.mo)
        src = build_src(op[1], w.o)

        def m_upd() -> None:
            for k, v in pairs:
                md.set(k, v)

        return both(lambda: d.update(src), m_upd)
    if name in ("or", "ror", "copy", "ctor"):
        # the result becomes the new "other" object; the previous other is retired (must not change)
        if name == "copy":
            new = d.copy()
            nm = md.clone()
        elif name == "or":
            src = build_src(op[1], w.o)
            pairs = src_pairs_for_extend(op[1], w.mo)
            new = d | src
            nm = md.clone()
            for k, v in pairs:
                nm.add(k, v)
        elif name == "ror":
            src = build_src(op[1], w.o)
            pairs = src_pairs_for_extend(op[1], w.mo)
            new = src | d
            nm = w.mo.clone() if op[1][0] == "hd" else Model()
            if op[1][0] != "hd":
                for k, v in pairs:
                    nm.add(k, v)
            for k, v in md.lines():
                nm.add(k, v)
        else:  # ctor
            src = build_src(op[1], w.o)
            pairs = src_pairs_for_extend(op[1], w.mo)
            new = w.cls(src)
            if op[1][0] == "hd":
                nm = w.mo.clone()
            else:
                nm = Model()
                for k, v in pairs:
                    nm.add(k, v)
        if len(w.retired) < 3:
            w.retired.append((w.o, w.mo))
        w.o, w.mo = new, nm
        return (type(new) is w.cls and new is not d), True
    if name == "swap":
        w.d, w.o, w.md, w.mo = w.o, w.d, w.mo, w.md
        return None, None
    raise ValueError(op)


def check_world(w: World, rec: Recorder, case: typing.Any, step: int) -> bool:
    ok = True
    live = [("d", w.d, w.md), ("o", w.o, w.mo)] + [(f"retired{i}", x, m) for i, (x, m) in enumerate(w.retired)]
    for label, obj, m in live:
        rec.mon("state_compare")
        try:
            got = observe(obj)
        except Exception as e:  # noqa: BLE001
            rec.fail(case, "observe-exception", {"obj": label, "step": step, "exc": repr(e)}, f"observing {label} raised {e!r}")
            return False
        want = predict(m)
        if got != want:
            diff = {k: [got[k], want[k]] for k in want if got.get(k) != want[k]}
            rec.fail(case, "state-mismatch", {"obj": label, "step": step, "diff_keys": sorted(diff)}, f"{label} differs from reference after step {step}: {diff}")
            ok = False
    # equality clause
    rec.mon("equality")
    try:
        eq_real = w.d == w.o
        eq_model = w.md.eqkey() == w.mo.eqkey()
        eq_dict = w.d == dict(w.md.mergedlist())
        ne_real = w.d != w.o
    except Exception as e:  # noqa: BLE001
        rec.fail(case, "equality-exception", {"step": step, "exc": repr(e)}, repr(e))
        return False
    if eq_real != eq_model or not eq_dict or ne_real == eq_real:
        rec.fail(case, "equality-mismatch", {"step": step, "eq_real": eq_real, "eq_model": eq_model, "eq_dict": eq_dict}, "== disagrees with the reference")
        ok = False
    # independence, structural form: no value list shared between two live objects
    rec.mon("aliasing")
    ids: dict[int, str] = {}
    for label, obj, _ in live:
        cont = getattr(obj, "_container", None)
        if not isinstance(cont, dict):
            continue
        for lst in cont.values():
            if id(lst) in ids and ids[id(lst)] != label:
                rec.fail(case, "aliasing", {"step": step, "objs": sorted([label, ids[id(lst)]])}, f"value list shared between {label} and {ids[id(lst)]}")
                ok = False
            ids[id(lst)] = label
    return ok


def run_history(ops: list[list[typing.Any]], rec: Recorder, every_step: bool) -> bool:
    w = World()
    case = {"ops": ops}
    for i, op in enumerate(ops):
        try:
            r, p = apply_op(w, op)
        except Exception as e:  # noqa: BLE001
            rec.fail(case, "op-exception", {"step": i, "op": op[0], "exc": type(e).__name__}, f"step {i} {op} raised {e!r}")
            return False
        rec.mon("op_result")
        if r != p:
            rec.fail(case, "return-mismatch", {"step": i, "op": op[0], "real": r, "model": p}, f"step {i} {op}: returned {r!r}, reference {p!r}")
            return False
        if every_step or i == len(ops) - 1:
            if not check_world(w, rec, case, i):
                return False
    return True


# ---------------------------------------------------------------- generators ------------------
def op_alphabet(names: list[str], values: list[str], small: bool) -> list[list[typing.Any]]:
    ops: list[list[typing.Any]] = []
    for n in names:
        for v in values:
            ops += [["set", n, v], ["add", n, v], ["addc", n, v]]
        ops += [["del", n], ["pop", n], ["discard", n], ["sd", n, "2"]]
    ops.append(["popitem"])
    n0, n1, n2 = names[0], names[1], names[2]
    v0, v1 = values[0], values[1]
    srcs: list[list[typing.Any]] = [
        ["dict", [[n0, v0], [n2, v1]]],
        ["pairs", [[n1, v0], [n0, v1], [n1, v1]]],
        ["hd"],
        ["keys", [[n2, v0], [n1, v1]]],
    ]
    for s in srcs:
        ops += [["extend", s], ["update", s]]
    ops += [["ior", srcs[1]], ["ior", srcs[2]], ["or", srcs[0]], ["or", srcs[2]], ["ror", srcs[0]], ["ror", srcs[1]], ["ctor", srcs[1]], ["ctor", srcs[2]], ["copy"], ["swap"]]
    if not small:
        for kind in ("iter", "gen", "zip", "tuple", "dictitems"):
            one = [kind, [[n1, v0], [n0, v1], [n1, v1]]]
            ops += [["extend", one], ["ior", one], ["or", one], ["ctor", one], ["update", one]]
            if kind != "dictitems":  # (dict_items has a set-union | of its own, which Python tries first)
                ops.append(["ror", one])
        ki = ["keysiter", [[n2, v0], [n1, v1]]]
        ops += [["extend", ki], ["ior", ki], ["or", ki], ["ctor", ki], ["update", ki]]
        ops += [["popd", n] for n in names] + [["clear"], ["ior", srcs[0]], ["ior", srcs[3]], ["or", srcs[1]], ["or", srcs[3]], ["ror", srcs[3]], ["ctor", srcs[0]], ["ctor", srcs[3]]]
    return ops


def random_op(rng: typing.Any) -> list[typing.Any]:
    def n() -> str:
        return typing.cast(str, rng.choice(NAMES))

    def v() -> str:
        return typing.cast(str, rng.choice(VALUES))

    def src() -> list[typing.Any]:
        k = rng.choice(["dict", "pairs", "hd", "keys", "pairs", "hd", "keysiter", "iter", "gen", "zip", "tuple", "dictitems"])
        if k == "hd":
            return ["hd"]
        return [k, [[n(), v()] for _ in range(rng.randint(0, 4))]]

    k = rng.random()
    if k < 0.14:
        return ["set", n(), v()]
    if k < 0.28:
        return ["add", n(), v()]
    if k < 0.36:
        return ["addc", n(), v()]
    if k < 0.42:
        return ["del", n()]
    if k < 0.46:
        return ["pop", n()]
    if k < 0.49:
        return ["popd", n()]
    if k < 0.52:
        return ["discard", n()]
    if k < 0.56:
        return ["sd", n(), v()]
    if k < 0.58:
        return ["popitem"]
    if k < 0.585:
        return ["clear"]
    if k < 0.66:
        return ["extend", src()]
    if k < 0.73:
        return ["update", src()]
    if k < 0.78:
        return ["ior", src()]
    if k < 0.83:
        return ["or", src()]
    if k < 0.87:
        s_ = src()
        while s_[0] == "dictitems":  # dict_items | x is Python's own set union
            s_ = src()
        return ["ror", s_]
    if k < 0.91:
        return ["ctor", src()]
    if k < 0.95:
        return ["copy"]
    return ["swap"]


def run_shard(ctx: Ctx, rec: Recorder) -> None:
    depth = ctx.pick(3, 4)
    alpha = op_alphabet(RN, RV, small=True)
    rec.count("exhaustive_alphabet_ops", len(alpha) if ctx.shard == 0 else 0)
    # (i) exhaustive: every history of length <= depth over the reduced alphabet
    idx = 0
    for L in range(1, depth + 1):
        for seq in itertools.product(alpha, repeat=L):
            idx += 1
            if not ctx.mine(idx):
                continue
            ops = [list(o) for o in seq]
            rec.case(ops, nontrivial=L >= 2)
            run_history(ops, rec, every_step=False)
            if L == depth and idx % 50021 == 0:
                rec.sample({"kind": "exhaustive", "ops": ops})
    rec.exhaustive_parts.append(f"all histories of length<={depth} over {len(alpha)} operations on names {RN} values {RV}")
    # (ii) exhaustive single + pairs over the FULL alphabet of the statement
    full = op_alphabet(NAMES, VALUES, small=False)
    rec.count("full_alphabet_ops", len(full) if ctx.shard == 0 else 0)
    for L in (1, 2):
        for seq in itertools.product(full, repeat=L):
            idx += 1
            if not ctx.mine(idx):
                continue
            ops = [list(o) for o in seq]
            rec.case(ops, nontrivial=L >= 2)
            run_history(ops, rec, every_step=True)
    rec.exhaustive_parts.append(f"all histories of length<=2 over the full alphabet ({len(full)} operations, 6 names x 4 values)")
    # (iii) random histories up to length 30, live copies mutated afterwards, checked after every step
    n_random = ctx.pick(2500, 60000)
    for i in range(n_random):
        if ctx.out_of_time(0.9):
            rec.count("random_cut_short_by_budget")
            break
        L = ctx.rng.randint(3, 30)
        ops = [random_op(ctx.rng) for _ in range(L)]
        rec.case(ops)
        run_history(ops, rec, every_step=True)
        if i < 2:
            rec.sample({"kind": "random", "ops": ops})


def replay(case: dict[str, typing.Any], ctx: Ctx, rec: Recorder) -> None:
    rec.case(case["ops"])
    run_history(case["ops"], rec, every_step=True)
