"""C13 — a cut-off or corrupt response is never presented as complete.

Monitor: C12's responses are damaged (every truncation point, corrupt chunk-size lines, corrupt or — for
zstd — incomplete content streams) and read through a real pool with every read pattern; reaching a
normal end of body without ProtocolError / IncompleteRead / DecodeError is the refuting event, and so is
the carrying connection answering the pool's next request."""
from __future__ import annotations

import typing
import zlib

from vf import netsim, respgen, wire
from vf.core import Ctx, Recorder
from vf.respgen import Spec

MUST, EITHER = "must-detect", "either"


def patterns(spec: Spec) -> list[tuple[str, list[list[typing.Any]]]]:
    pats: list[tuple[str, list[list[typing.Any]]]] = [
        ("read", [["read"]]),
        ("readn-1", [["readn", 1]]),
        ("readn-7", [["readn", 7]]),
        ("readn-64", [["readn", 64]]),
        ("readn-1000", [["readn", 1000]]),
        ("read1n-7", [["read1n", 7]]),
        ("read1n-1000", [["read1n", 1000]]),
        ("read1", [["read1"]]),
        ("readinto-64", [["readinto", 64]]),
        ("stream-1", [["stream", 1]]),
        ("stream-2", [["stream", 2]]),
        ("stream-7", [["stream", 7]]),
        ("stream-1000", [["stream", 1000]]),
        ("stream-none", [["stream", None]]),
        ("preload", []),
    ]
    if spec.framing == "chunked":
        pats += [("read_chunked-none", [["read_chunked", None]]), ("read_chunked-5", [["read_chunked", 5]])]
    if spec.decode:
        pats.append(("iter", [["iter"]]))
    return pats


def reference_decodes(coding: str, data: bytes) -> str:
    """'error' only if the reference decoder raises both when fed at once and when fed in 3-byte pieces
    (zstandard's one-shot and incremental paths disagree on some header corruptions)."""
    a = _reference_decodes(coding, data, len(data) or 1)
    if a != "error":
        return a
    b = _reference_decodes(coding, data, 3)
    return "error" if b == "error" else "incomplete-or-ambiguous"


def _reference_decodes(coding: str, data: bytes, step: int) -> str:
    """Independent use of zlib / zstandard on ``data``: 'error' (the decoder raises: undecodable), 'incomplete'
    (no error but the stream does not end) or 'ok'."""
    try:
        if coding in ("gzip", "x-gzip"):
            d = zlib.decompressobj(16 + zlib.MAX_WBITS)
            for i in range(0, len(data), step):
                d.decompress(data[i : i + step])
            return "ok" if d.eof else "incomplete"
        if coding == "deflate":
            d = zlib.decompressobj()
            for i in range(0, len(data), step):
                d.decompress(data[i : i + step])
            return "ok" if d.eof else "incomplete"
        if coding == "rawdeflate":
            d = zlib.decompressobj(-zlib.MAX_WBITS)
            for i in range(0, len(data), step):
                d.decompress(data[i : i + step])
            return "ok" if d.eof else "incomplete"
        if coding in ("zstd", "zstdmb"):
            import zstandard

            o = zstandard.ZstdDecompressor().decompressobj()
            for i in range(0, len(data), step):
                if o.eof:
                    break
                o.decompress(data[i : i + step])
            return "ok" if (o.eof and not o.unused_data) else "incomplete"
    except Exception:  # noqa: BLE001
        return "error"
    return "ok"


class Damage(typing.NamedTuple):
    kind: str  # cut | chunksize | content-corrupt | content-incomplete
    pos: int
    verdict: str
    server_closes: bool
    detail: str = ""


def damages_for(spec: Spec, head: bytes, body: bytes, enc: bytes, rng: typing.Any, dense: bool) -> list[tuple[Damage, bytes]]:
    """Returns (damage, full wire bytes) pairs."""
    out: list[tuple[Damage, bytes]] = []
    L = len(body)
    # --- truncation points (server closes after the cut) ---
    if spec.framing in ("cl", "chunked") and L > 0:
        if spec.framing == "chunked":
            # the terminating chunk is the final b"0\r\n\r\n" (no trailers are generated)
            zero_at = L - 5
        points = list(range(0, L)) if (dense and L <= 220) else sorted(set([0, 1, 2, L - 1, L - 2, L - 5, L - 6, L - 7, L // 2] + [rng.randrange(L) for _ in range(10 if dense else 4)]))
        for p in points:
            if p < 0 or p >= L:
                continue
            if spec.framing == "cl":
                verdict = MUST
            else:
                verdict = MUST if p <= zero_at else EITHER
            out.append((Damage("cut", p, verdict, True), head + body[:p]))
    # --- corrupt chunk-size lines (server keeps the connection open) ---
    if spec.framing == "chunked":
        pos = 0
        lines = []
        data = body
        while pos < len(data):
            eol = data.find(b"\r\n", pos)
            if eol < 0:
                break
            line = data[pos:eol]
            size = int(line.split(b";", 1)[0], 16)
            lines.append((pos, eol))
            if size == 0:
                break
            pos = eol + 2 + size + 2
        for li, (a, b) in enumerate(lines if dense else lines[:3] + lines[-2:]):
            digits_end = a
            while digits_end < b and data[digits_end : digits_end + 1] not in (b";",):
                digits_end += 1
            for p in range(a, digits_end):
                for bad in (b"g", b"?"):
                    out.append((Damage("chunksize", p, MUST, False, bad.decode()), head + data[:p] + bad + data[p + 1 :]))
            if li % 2 == 0:
                out.append((Damage("chunksize", a, MUST, False, "empty-line"), head + data[:a] + data[digits_end:]))
    # --- content stream damage inside complete framing (server keeps the connection open) ---
    stacked_zstd_outer = "+" in spec.coding and spec.coding.split("+")[-1] in ("zstd", "zstdmb")
    if (spec.coding in ("gzip", "x-gzip", "deflate", "rawdeflate", "zstd", "zstdmb") or stacked_zstd_outer) and len(enc) > 2 and spec.decode:
        n = len(enc)
        pts = sorted(set([0, 1, n // 2, n - 1] + [rng.randrange(n) for _ in range(8 if dense else 3)]))
        for p in pts if not stacked_zstd_outer else []:  # (corruption of stacks: no single-coding reference decoder; only cuts)
            bad = enc[:p] + bytes([enc[p] ^ 0x5A]) + enc[p + 1 :]
            ref = reference_decodes(spec.coding, bad)
            # undecodable = the reference decoder raises; a stream that merely stops short is "incomplete", which
            # the statement makes a must-detect for zstd only
            verdict = MUST if ref == "error" or (ref == "incomplete" and spec.coding in ("zstd", "zstdmb")) else EITHER
            out.append((Damage("content-corrupt", p, verdict, False), rewrap(spec, bad)))
        cuts = sorted(set([1, n // 2, n - 1] + [rng.randrange(1, n) for _ in range(6 if dense else 2)]))
        outer = spec.coding.split("+")[-1]  # the coding applied last is the one the wire bytes are a stream of
        if dense and outer in ("zstd", "zstdmb") and n <= 160:
            cuts = list(range(1, n))  # every cut-off point, including inner block boundaries and the checksum
        for k in cuts:
            verdict = MUST if outer in ("zstd", "zstdmb") else EITHER  # the statement restricts incompleteness to zstd
            out.append((Damage("content-incomplete", k, verdict, False), rewrap(spec, enc[:k])))
    return out


def rewrap(spec: Spec, content: bytes) -> bytes:
    _, ce = wire.encode_content(b"", spec.coding)
    headers = [("X-Case", "1")]
    if ce:
        headers.append(("Content-Encoding", ce))
    return wire.build_response(200, "OK", headers, content, framing=spec.framing, chunk_sizes=list(spec.chunk_sizes), chunk_ext=spec.chunk_ext.encode(), keepalive=True)


def run_case(rec: Recorder, spec: Spec, dmg: Damage, wire_bytes: bytes, pname: str, ops: list[list[typing.Any]], rng: typing.Any) -> None:
    import urllib3
    from urllib3.exceptions import DecodeError, HTTPError, ProtocolError

    case = {"spec": list(spec), "damage": list(dmg), "pattern": pname}
    segs = respgen.segment(wire_bytes, spec.seg, rng)
    srv = respgen.OneShotServer(segs, close_after=dmg.server_closes)
    with netsim.Net(srv) as net:
        pool = urllib3.HTTPConnectionPool("r.test", 80, maxsize=1, block=True, retries=False)
        resp = None
        exc: BaseException | None = None
        problem = None
        try:
            resp = pool.urlopen("GET", "/r", preload_content=(pname == "preload"), decode_content=spec.decode, retries=False, pool_timeout=0.01)
            if pname == "preload":
                _ = resp.data
            else:
                # the caller stops at the first empty result, as `while chunk := resp.read(n)` does: an end of
                # body reported once is an end of body, whatever a further call would have raised
                pieces, exc, problem = respgen.run_ops(resp, ops, spec.decode, eof_at_first_empty=True)
        except BaseException as e:  # noqa: BLE001
            if isinstance(e, (KeyboardInterrupt, SystemExit)):
                raise
            exc = e
        rec.mon("damaged_response")
        rec.count("verdict_" + dmg.verdict)
        content_len = len(wire_bytes) - (wire_bytes.index(b"\r\n\r\n") + 4)
        try:
            raw_fully_read = bool(resp is not None and spec.framing == "cl" and resp.tell() >= content_len) or bool(resp is not None and spec.framing == "chunked" and resp.tell() > 0 and resp.isclosed() and not isinstance(exc, ProtocolError) and pname not in ("read_chunked-none", "read_chunked-5"))
        except Exception:  # noqa: BLE001
            raw_fully_read = False
        obs = {"damage": dmg.kind, "pattern": pname, "coding": spec.coding, "framing": spec.framing, "decode": spec.decode, "verdict": dmg.verdict, "raw_body_fully_read_before_error": raw_fully_read}
        if problem:
            rec.fail(case, "read-did-not-terminate", obs, problem)
        elif exc is None:
            if dmg.verdict == MUST:
                rec.mon("must_detect")
                rec.fail(case, "damage-accepted-as-complete", obs, f"{dmg.kind} at {dmg.pos} ({dmg.detail}) read with {pname}: normal end of body, no exception")
            else:
                rec.count("either_accepted")
        else:
            if dmg.verdict == MUST:
                rec.mon("must_detect")
            if not isinstance(exc, (ProtocolError, DecodeError)):
                kind = "wrong-exception-class" if isinstance(exc, HTTPError) else "non-urllib3-exception"
                rec.fail(case, kind, dict(obs, exc=type(exc).__name__), f"{dmg.kind} at {dmg.pos} read with {pname}: raised {type(exc).__name__}: {exc!s:.120}")
        # --- the carrying connection is closed and never serves another request ---
        first_states = list(net.states)
        try:
            if resp is not None:
                resp.release_conn()
        except Exception as e:  # noqa: BLE001
            rec.fail(case, "release-raised", dict(obs, exc=type(e).__name__), repr(e))
        if exc is not None or dmg.verdict == MUST:
            rec.mon("second_request")
            try:
                r2 = pool.urlopen("GET", "/second", retries=False, pool_timeout=0.01)
                body2 = r2.data
            except BaseException as e:  # noqa: BLE001
                if isinstance(e, (KeyboardInterrupt, SystemExit)):
                    raise
                rec.fail(case, "second-request-failed", dict(obs, exc=type(e).__name__, first_raised=type(exc).__name__ if exc else None), f"request after the damaged response failed: {e!r}")
                body2 = None
            if body2 is not None:
                where = [st.index for st in net.states for r in st.server.requests if r.target == b"/second"]
                if body2 != b"second:/second":
                    rec.fail(case, "second-request-wrong-body", dict(obs, body=body2[:40]), f"second request got {body2[:60]!r}")
                elif exc is not None and where and where[0] == first_states[0].index:
                    rec.fail(case, "damaged-connection-reused", dict(obs, first_raised=type(exc).__name__), f"after {type(exc).__name__} the same connection answered the next request")
            if exc is not None and first_states and not first_states[0].really_closed:
                rec.fail(case, "damaged-connection-left-open", dict(obs, first_raised=type(exc).__name__), f"socket of the damaged response still open after {type(exc).__name__} and release")
        pool.close()


def small_specs() -> list[Spec]:
    out = []
    for size in (5, 100):
        for coding in ("identity", "gzip", "gzip2", "deflate", "rawdeflate", "zstd", "zstdmb", "zstd2", "gzip+deflate", "gzip+zstd", "deflate+zstdmb"):
            for framing, sizes in (("cl", []), ("chunked", [3, 1, 7]), ("chunked", [])):
                for decode in (True, False):
                    if not decode and coding not in ("identity", "gzip"):
                        continue
                    out.append(Spec(size, coding, framing, sizes, "", "whole" if (size + len(coding) + len(framing)) % 2 else 7, decode))
    return out


def run_huge_announced(ctx: Ctx, rec: Recorder) -> None:
    """Large downloads that die early: a Content-Length around urllib3's internal size thresholds (2**28: the piece size
    of its assembling loop, 2**31: the C int limit that selects that loop on some TLS backends), a few bytes of body, then
    EOF.  Only the announced number is large; every read pattern must still report the short body, with the stdlib ssl
    backend and with pyOpenSSL injected (the flag is global and switches the reading strategy of plain http too)."""
    rng = ctx.rng
    backends = ["stdlib", "pyopenssl"]
    for backend in backends:
        pyo = None
        if backend == "pyopenssl":
            try:
                import urllib3.contrib.pyopenssl as pyo  # type: ignore[no-redef]

                pyo.inject_into_urllib3()
            except Exception:  # noqa: BLE001
                rec.count("pyopenssl_not_available")
                continue
        try:
            for announced in (2**28, 2**28 + 1, 2**31 - 1, 2**31, 2**31 + 11, 3 * 2**30):  # (1 TiB makes CPython itself raise MemoryError for whole-body reads)
                for sent in (0, 10, 5000):
                    spec = Spec(sent, "identity", "cl", [], "", "whole" if sent != 5000 else 7, True)
                    body = respgen.payload(sent)
                    wb = b"HTTP/1.1 200 OK\r\nContent-Length: %d\r\nContent-Type: application/octet-stream\r\n\r\n" % announced + body
                    dmg = Damage("cut-huge-announced", sent, MUST, True, f"announced={announced};backend={backend}")
                    for pname, ops in patterns(spec) + [("readn-then-read", [["readn", 1000], ["read"]])]:
                        if pname in ("readn-1", "stream-1", "stream-2") and sent == 5000:
                            continue
                        rec.case(["huge", backend, announced, sent, pname])
                        rec.mon("huge_announced")
                        run_case(rec, spec, dmg, wb, pname, ops, rng)
        finally:
            if pyo is not None:
                pyo.extract_from_urllib3()


def run_cl_list(ctx: Ctx, rec: Recorder) -> None:
    """Content-Length in list form ('5, 5': duplicate header lines folded by an intermediary), which urllib3 accepts as a
    length: a body that ends short of it must be reported by every read pattern like any other short body."""
    rng = ctx.rng
    for K in (5, 100):
        for form in ("%d, %d", "%d,%d", "%d, %d, %d"):
            cl = form % ((K,) * form.count("%d"))
            for sent in (0, 1, K - 2, K - 1):
                spec = Spec(sent, "identity", "cl", [], "", "whole" if sent % 2 else 7, True)
                wb = b"HTTP/1.1 200 OK\r\nContent-Length: " + cl.encode() + b"\r\n\r\n" + respgen.payload(K)[:sent]
                dmg = Damage("cut-under-list-content-length", sent, MUST, True, f"content-length={cl!r}")
                for pname, ops in patterns(spec) + [("readn-then-read", [["readn", 2], ["read"]])]:
                    rec.case(["cl-list", cl, sent, pname])
                    rec.mon("content_length_list")
                    run_case(rec, spec, dmg, wb, pname, ops, rng)


def run_zero_padded_chunks(ctx: Ctx, rec: Recorder) -> None:
    """Chunk sizes written with leading zeros (legal: chunk-size = 1*HEXDIG; fixed-width sizes are common): a stream that
    dies inside such a size line, after one or more of its zeros, has not reached the terminating chunk."""
    rng = ctx.rng
    head = b"HTTP/1.1 200 OK\r\nTransfer-Encoding: chunked\r\n\r\n"
    for width in (2, 4, 8):
        first = b"%0*x\r\nhello\r\n" % (width, 5)
        second = b"%0*x\r\n0123456789\r\n" % (width, 10)
        for cut in range(1, width):  # 1 .. width-1 zeros of the second size line have arrived
            wb = head + first + second[:cut]
            spec = Spec(15, "identity", "chunked", [5, 10], "", "whole", True)
            dmg = Damage("cut-inside-zero-padded-chunk-size", len(first) + cut, MUST, True, f"width={width};zeros={cut}")
            for pname, ops in patterns(spec):
                rec.case(["zero-padded", width, cut, pname])
                rec.mon("zero_padded_chunk_size")
                run_case(rec, spec, dmg, wb, pname, ops, rng)


def run_shard(ctx: Ctx, rec: Recorder) -> None:
    rng = ctx.rng
    idx = 0
    if ctx.shard == 2 % ctx.nshards:
        run_zero_padded_chunks(ctx, rec)
    if ctx.shard == 0:
        run_huge_announced(ctx, rec)
    if ctx.shard == 1 % ctx.nshards:
        run_cl_list(ctx, rec)
    specs = small_specs()
    stride = ctx.pick(6, 1)
    for spec in specs:
        head, body, enc, expected = respgen.build(spec)
        dmgs = damages_for(spec, head, body, enc, rng, dense=True)
        pats = patterns(spec)
        for dmg, wb in dmgs:
            for pname, ops in pats:
                idx += 1
                if not ctx.mine(idx) or ctx.skip(idx, stride):
                    continue
                rec.case(["small", list(spec), list(dmg), pname])
                run_case(rec, spec, dmg, wb, pname, ops, rng)
    rec.exhaustive_parts.append(f"every truncation point / chunk-size corruption / sampled content damage x every read pattern for {len(specs)} small specs (strided 1/{stride})")
    n = ctx.pick(250, 9000)
    from vf.props.c12 import random_spec

    for i in range(n):
        if ctx.out_of_time(0.9):
            rec.count("random_cut_short_by_budget")
            break
        spec = random_spec(rng)
        if spec.framing == "close" or spec.coding == "unknown":
            continue
        head, body, enc, expected = respgen.build(spec)
        dmgs = damages_for(spec, head, body, enc, rng, dense=False)
        pats = patterns(spec)
        for dmg, wb in rng.sample(dmgs, min(len(dmgs), 6)):
            pname, ops = rng.choice(pats)
            if spec.size > 3000 and pname in ("readn-1", "readn-7", "read1n-7", "stream-7", "read_chunked-5"):
                pname, ops = "readn-1000", [["readn", 1000]]
            rec.case(["rand", list(spec), list(dmg), pname])
            if i < 3:
                rec.sample({"spec": spec._asdict(), "damage": dmg._asdict(), "pattern": pname})
            run_case(rec, spec, dmg, wb, pname, ops, rng)


def replay(case: dict[str, typing.Any], ctx: Ctx, rec: Recorder) -> None:
    s = case["spec"]
    spec = Spec(s[0], s[1], s[2], s[3], s[4], s[5], s[6], s[7] if len(s) > 7 else False)
    d = case["damage"]
    dmg = Damage(d[0], d[1], d[2], d[3], d[4] if len(d) > 4 else "")
    head, body, enc, expected = respgen.build(spec)
    import random

    for dd, wb in damages_for(spec, head, body, enc, random.Random(0), dense=True):
        if dd[:2] == dmg[:2] and dd.detail == dmg.detail:
            ops = dict(patterns(spec))[case["pattern"]]
            rec.case(case)
            run_case(rec, spec, dd, wb, case["pattern"], ops, ctx.rng)
            return
    rec.note_inconclusive("damage point not regenerated (random position): re-run the check with the recorded seed")
