"""C20 — multipart form encoding is structurally sound for any field content.

Monitor: the bytes produced by encode_multipart_formdata / request_encode_body (also as they arrive on
the in-memory wire) are parsed back with a strict independent multipart parser and compared part by part
with what the field list specifies (forward WHATWG escaping computed independently)."""
from __future__ import annotations

import itertools
import typing

from vf import wire
from vf.core import Ctx, Recorder

SYMS = ['"', "'", "\\", ";", "\r", "\n", "\r\n", "=", "é", "😀", " ", "--", "a"]
BOUNDARIES = [None, "B0undary", "xYz--", "----WebKitFormBoundary7MA4YWxkTrZu0gW", "a", "gc0pJq0M:08jU534c0p", "simple boundary", "a=b", "(x)", "a/b,c?d"]


def esc(s: str) -> bytes:
    return s.replace('"', "%22").replace("\r", "%0D").replace("\n", "%0A").encode("utf-8")


def expected_parts(fields: list[dict[str, typing.Any]]) -> list[tuple[list[tuple[bytes, bytes]], bytes]]:
    out = []
    for f in fields:
        disp = b'form-data; name="' + esc(f["name"]) + b'"'
        if f.get("filename") is not None:
            disp += b'; filename="' + esc(f["filename"]) + b'"'
        headers = [(b"Content-Disposition", disp)]
        if f.get("ctype"):
            headers.append((b"Content-Type", f["ctype"].encode("utf-8")))
        for k, v in f.get("extra", []):
            headers.append((k.encode("utf-8"), v.encode("utf-8")))
        data = f["data"]
        out.append((headers, data.encode("utf-8") if isinstance(data, str) else bytes(data)))
    return out


def build_input(fields: list[dict[str, typing.Any]], container: str) -> typing.Any:
    from urllib3.fields import RequestField

    items = []
    for f in fields:
        form = f["form"]
        if form == "plain":
            items.append((f["name"], f["data"]))
        elif form == "tuple2":
            items.append((f["name"], (f["filename"], f["data"])))
        elif form == "tuple3":
            items.append((f["name"], (f["filename"], f["data"], f["ctype"])))
        else:  # RequestField
            rf = RequestField(f["name"], f["data"], filename=f.get("filename"), headers=dict(f.get("extra", [])) or None)
            rf.make_multipart(content_type=f.get("ctype"))
            items.append(rf)
    if container == "dict":
        return dict(items)
    return items


def normalise_fields(fields: list[dict[str, typing.Any]], container: str) -> list[dict[str, typing.Any]]:
    """Fill in what the tuple forms imply, drop duplicate names for dict containers (later wins, position of first)."""
    out = []
    for f in fields:
        f = dict(f)
        if f["form"] == "plain":
            f["filename"] = None
            f["ctype"] = None
        elif f["form"] == "tuple2":
            import mimetypes

            f["ctype"] = (mimetypes.guess_type(f["filename"])[0] if f["filename"] else None) or "application/octet-stream"
        out.append(f)
    if container == "dict":
        merged: dict[str, dict[str, typing.Any]] = {}
        for f in out:
            merged[f["name"]] = f if f["name"] not in merged else f
        # dict(items): insertion position of the first occurrence, value of the last
        order: list[str] = []
        for f in out:
            if f["name"] not in order:
                order.append(f["name"])
        out = [merged[n] for n in order]
    return out


def check(rec: Recorder, fields: list[dict[str, typing.Any]], container: str, boundary: str | None, via: str) -> None:
    from urllib3.filepost import encode_multipart_formdata

    case = {"fields": fields, "container": container, "boundary": boundary, "via": via}
    spec = normalise_fields(fields, container)
    if container == "dict" and any(f["form"] == "rf" for f in fields):
        return
    # premise of the statement: the boundary delimiter does not occur in the data
    if boundary is not None:
        for f in spec:
            d = f["data"].encode("utf-8") if isinstance(f["data"], str) else f["data"]
            if (b"--" + boundary.encode()) in d:
                rec.count("skipped_boundary_in_data")
                return
    try:
        inp = build_input(fields, container)
        if via == "encode":
            body, ctype = encode_multipart_formdata(inp, boundary=boundary)
        elif via == "request_methods":
            from urllib3._request_methods import RequestMethods

            class Capture(RequestMethods):
                def urlopen(self, method: str, url: str, body: typing.Any = None, headers: typing.Any = None, **kw: typing.Any) -> typing.Any:  # type: ignore[override]
                    self.seen = (method, url, body, dict(headers))
                    return None

            c = Capture()
            c.request_encode_body("POST", "/upload", fields=inp, multipart_boundary=boundary, headers={"X-Keep": "1"})
            body, ctype = c.seen[2], c.seen[3]["Content-Type"]
            if c.seen[3].get("X-Keep") != "1":
                rec.fail(case, "caller-header-lost", {}, "request_encode_body dropped the caller's header")
        else:  # on the wire through the in-memory network
            import urllib3
            from vf import netsim

            class Srv:
                def on_request(self, net: typing.Any, sc: typing.Any, req: typing.Any) -> None:
                    sc.write(wire.build_response(200, body=b"ok"))

            with netsim.Net(Srv()) as net:
                pool = urllib3.HTTPConnectionPool("up.test", 80)
                pool.request("POST", "/upload", fields=inp, multipart_boundary=boundary)
                pool.close()
                reqs = net.all_requests()
            if len(reqs) != 1:
                rec.fail(case, "wire-request-count", {"n": len(reqs)}, f"{len(reqs)} requests on the wire")
                return
            req = reqs[0][1]
            body = req.body
            cts = wire.header_get(req.headers, b"content-type")
            if len(cts) != 1:
                rec.fail(case, "wire-content-type-count", {"n": len(cts)}, f"{len(cts)} Content-Type headers on the wire")
                return
            ctype = cts[0].decode("latin-1")
    except Exception as e:  # noqa: BLE001
        unrepresentable = any(("\r" in str(v) or "\n" in str(v)) for f in spec for v in [f.get("ctype")] + [x for kv in f.get("extra", []) for x in kv])
        if isinstance(e, ValueError) and unrepresentable:
            # a header value with CR / LF (a MIME type taken from an upload, say) cannot be written as one header line:
            # refusing it is the only way to keep "no field content can add a header or open a part"
            rec.count("rejected_unrepresentable_header_value")
            return
        rec.fail(case, "encoder-exception", {"exc": type(e).__name__}, f"encoding raised {e!r}")
        return
    rec.mon("parse_back")
    prefix = "multipart/form-data; boundary="
    if not isinstance(ctype, str) or not ctype.startswith(prefix):
        rec.fail(case, "content-type-shape", {"ctype": str(ctype)[:80]}, f"content type {ctype!r}")
        return
    b = ctype[len(prefix) :]
    # RFC 2045 5.1: a parameter value is a token or a quoted-string; a boundary with tspecials or a space (RFC 2046's own
    # examples 'gc0pJq0M:08jU534c0p' and 'simple boundary') is only named by the header when it is quoted
    TOKEN = set("!#$%&'*+-.^_`|~0123456789abcdefghijklmnopqrstuvwxyzABCDEFGHIJKLMNOPQRSTUVWXYZ")
    if len(b) >= 2 and b[0] == '"' and b[-1] == '"':
        inner, out, i = b[1:-1], "", 0
        while i < len(inner):
            if inner[i] == "\\" and i + 1 < len(inner):
                i += 1
            elif inner[i] == '"':
                rec.fail(case, "content-type-shape", {"ctype": ctype[:80], "why": "bare quote inside quoted boundary"}, f"content type {ctype!r}")
                return
            out += inner[i]
            i += 1
        b = out
    elif not b or any(c not in TOKEN for c in b):
        rec.fail(case, "content-type-shape", {"ctype": ctype[:80], "why": "boundary parameter is neither a token nor a quoted-string", "asked": boundary}, f"content type {ctype!r} does not name the boundary for a strict parameter parser")
        # (the body is still judged against the boundary as a lenient reader of the header would take it)
    if boundary is not None and b != boundary:
        rec.fail(case, "boundary-not-used", {"named": b, "asked": boundary}, "content type names a different boundary than requested")
        return
    try:
        parts = wire.parse_multipart(bytes(body), b.encode("latin-1"))
    except wire.WireError as e:
        rec.fail(case, "strict-parse-failed", {"why": str(e)[:80]}, f"strict multipart parser: {e}")
        return
    want = expected_parts(spec)
    if len(parts) != len(want):
        rec.fail(case, "part-count", {"got": len(parts), "want": len(want)}, f"{len(parts)} parts parsed, {len(want)} fields given")
        return
    for i, (p, (wh, wd)) in enumerate(zip(parts, want)):
        rec.mon("part_compare")
        if p.headers != wh:
            rec.fail(case, "part-headers", {"part": i, "got": [list(x) for x in p.headers], "want": [list(x) for x in wh]}, f"part {i} headers {p.headers!r} != specified {wh!r}")
            return
        # the disposition must also lex into exactly the specified parameters
        try:
            typ, params = wire.parse_disposition(p.headers[0][1])
        except wire.WireError as e:
            rec.fail(case, "disposition-lex", {"part": i, "why": str(e)}, f"part {i}: {e}")
            return
        nparams = 1 + (spec[i].get("filename") is not None)
        if typ != b"form-data" or len(params) != nparams or params[0][0] != b"name":
            rec.fail(case, "disposition-params", {"part": i, "params": [list(x) for x in params]}, f"part {i}: disposition lexes to {typ!r} {params!r}")
            return
        if p.data != wd:
            rec.fail(case, "part-data", {"part": i, "got_len": len(p.data), "want_len": len(wd)}, f"part {i} data differs")
            return


def hostile_names(maxlen: int) -> list[str]:
    out = [""]
    for n in range(1, maxlen + 1):
        for t in itertools.product(SYMS, repeat=n):
            out.append("".join(t))
    return out


VALUES: list[typing.Any] = ["v", "", "line1\r\nline2", "--", "------", "\r\n--OtherBoundary\r\nContent-Disposition: form-data; name=\"x\"\r\n\r\nevil\r\n--OtherBoundary--\r\n", "é😀", b"", b"\x00\xff\xfe bytes \r\n", b"--\r\n--", b"\r\n\r\n", "tail\r\n", b"\r"]
VALUES += ["a\nb", "a\rb", "\n", "\r", "x\n\ry", "\r\r\n\n", b"a\nb", b"a\rb", " lead", "trail ", "\t", "a\x00b", "\x0b\x0c", "é\n"]
VALUE_SYMS = ["a", "\r", "\n", "\r\n", "-", "--", "é", '"', " ", "\x00", ":", ";"]


def random_value(rng: typing.Any) -> typing.Any:
    s = "".join(rng.choice(VALUE_SYMS) for _ in range(rng.randint(0, 10)))
    return s if rng.random() < 0.6 else s.encode("utf-8")


REAL_FILENAMES = ["site.tar.gz", "dump.gz", "access.txt.gz", "report.csv.bz2", "x.bz2", "data:text/html,hi", "README", "Makefile", "a.tgz", "photo.JPG", "photo.jpg", "archive.tar.xz", "notes.txt.xz",
                  "page.html", "page.HTML.gz", "f.svgz", "a.b.c", ".hidden", "noext.", "weird.unknownext", "http://h.test/p.png?x=1.txt", "dir/inner.txt", "t.tar", "script.py.Z"]
CTYPES = ["text/plain", "application/octet-stream", "image/png; charset=x", "text/plain", "application/octet-stream", "text/plain\r\nX-Evil: 1", "text/pl\nain", "a/b\r\n\r\nsmuggled-data\r\n--B0undary\r\nContent-Disposition: form-data; name=\"is_admin\"\r\n\r\n1", "x/y\rz"]


def random_field(rng: typing.Any, names: list[str]) -> dict[str, typing.Any]:
    form = rng.choice(["plain", "plain", "tuple2", "tuple3", "rf"])
    f: dict[str, typing.Any] = {"form": form, "name": rng.choice(names) if rng.random() < 0.7 else "".join(rng.choice(SYMS) for _ in range(rng.randint(1, 8))), "data": rng.choice(VALUES) if rng.random() < 0.5 else random_value(rng)}
    if form != "plain":
        f["filename"] = rng.choice(REAL_FILENAMES) if rng.random() < 0.1 else rng.choice(names) if rng.random() < 0.7 else "".join(rng.choice(SYMS + [".txt", ".png", "f"]) for _ in range(rng.randint(0, 8)))
    if form == "tuple3":
        f["ctype"] = rng.choice(CTYPES)
    if form == "rf":
        if rng.random() < 0.3:
            f["filename"] = None
        f["ctype"] = rng.choice(CTYPES + [None])
        if rng.random() < 0.3:
            f["extra"] = [["X-Part-Id", "7"]]
    return f


def check_sequence(rec: Recorder, n: int, default_kind: str, percall_kind: str, fixed_boundary: bool) -> None:
    """Several multipart requests through ONE RequestMethods object whose default headers (or a header object the
    caller reuses for every call) are a dict / an HTTPHeaderDict: each request's Content-Type must name the boundary
    its own body uses, and neither the defaults nor the caller's object may change."""
    import re

    from urllib3._collections import HTTPHeaderDict
    from urllib3._request_methods import RequestMethods

    case = {"sequence": n, "default_headers": default_kind, "percall_headers": percall_kind, "fixed_boundary": fixed_boundary}
    seen: list[tuple[typing.Any, dict[str, str]]] = []

    class Capture(RequestMethods):
        def urlopen(self, method: str, url: str, body: typing.Any = None, headers: typing.Any = None, **kw: typing.Any) -> typing.Any:  # type: ignore[override]
            seen.append((body, {k: v for k, v in headers.items()}))
            return None

    def mk(kind: str) -> typing.Any:
        return None if kind == "none" else ({"X-Default": "d"} if kind == "dict" else HTTPHeaderDict({"X-Default": "d"}))

    defaults = mk(default_kind)
    percall = mk(percall_kind)
    c = Capture(headers=defaults)
    rec.mon("multipart_sequence")
    for i in range(n):
        kw: dict[str, typing.Any] = {}
        if percall is not None:
            kw["headers"] = percall
        if fixed_boundary:
            kw["multipart_boundary"] = f"fixed{i}"
        c.request_encode_body("POST", "/upload", fields={"n": str(i), "f": ("a.txt", b"data%d" % i)}, **kw)
    for i, (body, hdrs) in enumerate(seen):
        ct = hdrs.get("Content-Type", "")
        m = re.search(r'boundary=("?)([^";]+)\1', ct)
        if not m:
            rec.fail(case, "content-type-without-boundary", {"request": i, "content_type": ct}, f"request {i}: Content-Type {ct!r}")
            return
        b = m.group(2).encode()
        if not bytes(body).startswith(b"--" + b + b"\r\n") or not bytes(body).endswith(b"--" + b + b"--\r\n"):
            rec.fail(case, "content-type-names-another-boundary", {"request": i, "content_type": ct, "body_starts": bytes(body)[:40]}, f"request {i}: Content-Type names boundary {b!r} but the body starts with {bytes(body)[:30]!r}")
            return
        if (defaults is not None or percall is not None) and hdrs.get("X-Default") != "d":
            rec.fail(case, "caller-header-lost", {"request": i}, "default / per-call header X-Default missing")
            return
    for name, obj in (("default headers", defaults), ("per-call headers", percall)):
        if obj is not None and dict(obj.items()) != {"X-Default": "d"}:
            rec.fail(case, "caller-headers-mutated", {"which": name, "after": dict(obj.items())}, f"the {name} object was changed to {dict(obj.items())!r}")
            return


def failed_encode(rng: typing.Any) -> None:
    """An encode that fails part-way through its field list (and is caught by the caller): whatever it left behind must
    not show up in the next body produced on this thread."""
    from urllib3.filepost import encode_multipart_formdata

    bad = rng.choice([
        [("first", "leftover-of-a-failed-call"), ("b", 3.5)],
        [("first", "leftover-of-a-failed-call"), ("f", ("only-a-name",))],
        [("first", "leftover-of-a-failed-call"), ("s", "lone-surrogate-\ud800")],
        [("first", b"leftover-of-a-failed-call"), ("n", None)],
    ])
    try:
        encode_multipart_formdata(bad, boundary=rng.choice([None, "B0undary"]))
    except Exception:  # noqa: BLE001
        pass


def run_shard(ctx: Ctx, rec: Recorder) -> None:
    names = hostile_names(ctx.pick(3, 4))
    if ctx.shard == 0:
        for n in (1, 2, 3):
            for dk in ("none", "dict", "hd"):
                for pk in ("none", "dict", "hd"):
                    for fixed in (False, True):
                        rec.case(["sequence", n, dk, pk, fixed])
                        check_sequence(rec, n, dk, pk, fixed)
    # (i) every hostile name/filename (exhaustive up to the length bound) as name, as filename, as both
    idx = 0
    for nm in names:
        idx += 1
        if not ctx.mine(idx):
            continue
        for form, fld in (
            ("plain", {"form": "plain", "name": nm, "data": "v"}),
            ("tuple2", {"form": "tuple2", "name": "f", "filename": nm, "data": b"\x00data"}),
            ("tuple3", {"form": "tuple3", "name": nm, "filename": nm, "data": "d\r\n", "ctype": "text/plain"}),
            ("rf", {"form": "rf", "name": nm, "filename": nm or None, "data": b"x", "ctype": None}),
        ):
            rec.case(["name", form, nm], nontrivial=nm not in ("", "a"))
            check(rec, [fld], "list", "B0undary", "encode")
        # sandwich between two benign fields so that part-splitting is visible
        fields = [{"form": "plain", "name": "first", "data": "1"}, {"form": "tuple2", "name": nm, "filename": nm, "data": "mid"}, {"form": "plain", "name": "last", "data": "3"}]
        rec.case(["sandwich", nm])
        check(rec, fields, "list", None, "encode")
        if idx % 97 == 0:
            check(rec, fields, "list", "B0undary", "request_methods")
        if idx % 389 == 0:
            check(rec, fields, "list", "B0undary", "wire")
            rec.mon("wire_roundtrip")
    # (i-a) characters that Python's str.splitlines() treats as line boundaries but HTTP / MIME do not (VT, FF, FS, GS, RS,
    # NEL, LS, PS) - and other C0/C1 controls - in names, filenames and extra header values: legal content, must round-trip
    if ctx.shard == 0:
        for ch in ("\x0b", "\x0c", "\x1c", "\x1d", "\x1e", "\x85", "\u2028", "\u2029", "\x00", "\x7f", "\x1a", "\t"):
            for nm in (ch, "a" + ch + "b", ch + "x", "x" + ch, ch + ch):
                for fld in (
                    {"form": "plain", "name": nm, "data": "v"},
                    {"form": "tuple2", "name": "f", "filename": nm, "data": b"\x00data"},
                    {"form": "tuple3", "name": nm, "filename": nm, "data": "d" + ch, "ctype": "text/plain"},
                    {"form": "rf", "name": nm, "filename": nm, "data": b"x", "ctype": None, "extra": [["X-Part-Id", "7" + (ch if ch not in ("\x00",) else "")]]},
                ):
                    rec.case(["line-boundary-char", repr(ch), fld["form"], nm])
                    rec.mon("unicode_line_boundary")
                    check(rec, [fld], "list", "B0undary", "encode")
    # (i-b) realistic file names whose guessed type depends on more than the last extension (compression suffixes, suffix
    # aliases, URL-looking names, case), in every order of two: the type a part carries is the one its own name specifies
    if ctx.shard == 0:
        for a, b in itertools.permutations(REAL_FILENAMES, 2):
            fields = [{"form": "tuple2", "name": "f1", "filename": a, "data": b"one"}, {"form": "tuple2", "name": "f2", "filename": b, "data": b"two"}, {"form": "rf", "name": "f3", "filename": a, "data": b"three", "ctype": None}]
            rec.case(["real-filenames", a, b])
            rec.mon("filename_pair")
            check(rec, fields, "list", "B0undary", "encode")
    rec.exhaustive_parts.append(f"every name/filename of length<={ctx.pick(3, 4)} over the {len(SYMS)}-symbol hostile alphabet ({len(names)} strings), in 4 input forms + a 3-field sandwich")
    # (ii) random field lists up to 4 fields, all containers, boundaries and values
    short = hostile_names(2)
    n = ctx.pick(30000, 400000)
    for i in range(n):
        if ctx.out_of_time(0.9):
            rec.count("random_cut_short_by_budget")
            break
        k = ctx.rng.randint(1, 4)
        fields = [random_field(ctx.rng, short) for _ in range(k)]
        container = ctx.rng.choice(["list", "list", "dict"])
        boundary = ctx.rng.choice(BOUNDARIES)
        via = "encode" if ctx.rng.random() < 0.9 else "request_methods"
        rec.case(["rand", fields, container, boundary, via])
        if i % 7 == 3:
            failed_encode(ctx.rng)
            rec.mon("encode_after_failed_encode")
        check(rec, fields, container, boundary, via)
        if i < 2:
            rec.sample({"fields": fields, "container": container, "boundary": boundary, "via": via})
        if i % 2500 == 0:
            check(rec, fields, container, boundary or "B0undary", "wire")
            rec.mon("wire_roundtrip")


def replay(case: dict[str, typing.Any], ctx: Ctx, rec: Recorder) -> None:
    rec.case(case)
    if "sequence" in case:
        check_sequence(rec, case["sequence"], case["default_headers"], case["percall_headers"], case["fixed_boundary"])
        return
    check(rec, case["fields"], case["container"], case["boundary"], case["via"])
