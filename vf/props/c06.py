"""C06 — credentials are never forwarded to a different origin on redirect.

Monitor: the per-origin request log of the multi-origin in-memory network; for every request of a redirect
chain the headers named by the policy's remove_headers_on_redirect must be absent from the first
cross-origin hop on, every other header must be present and unaltered, and a bare pool must send nothing to
another host."""
from __future__ import annotations

import typing

from vf import netsim, redirnet
from vf.core import Ctx, Recorder
from vf.props import c05

DEFAULT_STRIP = {"authorization", "cookie", "proxy-authorization"}
SENSITIVE_SPELLINGS = ["Authorization", "authorization", "AUTHORIZATION", "aUtHoRiZaTiOn", "Cookie", "cookie", "COOKIE", "Proxy-Authorization", "proxy-authorization"]
CUSTOM = ["X-Api-Key", "x-api-key", "X-API-KEY"]


def same_origin(a: str | None, b: str | None) -> bool:
    return a is not None and a == b


def make_headers(spec: dict[str, typing.Any]) -> typing.Any:
    from urllib3 import HTTPHeaderDict

    pairs = [tuple(p) for p in spec["pairs"]]
    if spec["container"] == "dict":
        return dict(pairs)
    if spec["container"] == "chainmap":
        # a layered mapping (request-specific entries over an application-wide base): pop() on it only sees the first layer
        import collections

        seen: set[str] = set()
        uniq = [p for p in pairs if not (p[0].lower() in seen or seen.add(p[0].lower()))]
        return collections.ChainMap(dict(uniq[:1]), dict(uniq[1:]))
    hd = HTTPHeaderDict()
    for k, v in pairs:
        hd.add(k, v)
    return hd


def run_case(rec: Recorder, case: dict[str, typing.Any]) -> None:
    import urllib3
    from urllib3.exceptions import HostChangedError, HTTPError
    from urllib3.util import Retry

    graph_case = {"hops": case["hops"], "loop": False, "method": case["method"], "client": case["client"], "policy_req": None, "policy_lvl2": None, "start_origin": case.get("start_origin", "A")}
    start, routes, walk = c05.build_graph(graph_case)
    server = redirnet.RedirServer(routes, fail_first=int(case.get("fail_first", 0)))
    strip_cfg = case.get("strip")  # None = default set
    strip = DEFAULT_STRIP if strip_cfg is None else {h.lower() for h in strip_cfg}
    policy = Retry(total=8, **({} if strip_cfg is None else {"remove_headers_on_redirect": list(strip_cfg)}))
    hspec = case["headers"]
    exc: BaseException | None = None
    result: typing.Any = None
    with netsim.Net(server) as net:
        try:
            kw: dict[str, typing.Any] = {}
            lvl: dict[str, typing.Any] = {}
            if case["policy_at"] == "request":
                kw["retries"] = policy
            elif case["policy_at"] == "manager":
                lvl["retries"] = policy
            body = b"b" if case["method"] == "POST" else None
            if case["client"] == "pool":
                client: typing.Any = urllib3.HTTPConnectionPool("a.test", 80, **lvl)
                result = client.urlopen(case["method"], "/d0/h0", body=body, headers=make_headers(hspec), **kw)
            else:
                if case["headers_at"] == "manager":
                    lvl["headers"] = make_headers(hspec)
                elif case["headers_at"] == "request-over-sensitive-defaults":
                    # the manager has sensitive defaults of its own; the request brings its own (sensitive-only) headers
                    lvl["headers"] = {"Authorization": "manager-default-secret", "Cookie": "default=1"}
                if case["client"] == "manager":
                    client = urllib3.PoolManager(**lvl)
                else:
                    client = urllib3.ProxyManager("http://proxy.test:3128", proxy_headers={"Proxy-Authorization": "Basic cHJveHk="}, **lvl)
                if case.get("prior"):
                    # an earlier request on the same manager with credentials of its own: nothing of it may show up in
                    # the judged chain (state kept by the manager, its pools or a shared header object)
                    prior_headers = make_headers({"container": case["prior"], "pairs": [["Authorization", "prior-request-secret"], ["X-Prior", "prior-marker"]]})
                    try:
                        client.urlopen("GET", start, headers=prior_headers, retries=Retry(total=8)).drain_conn()
                    except HTTPError:
                        pass
                    server.log.clear()
                    server.failed.clear()
                if case["headers_at"] == "manager":
                    result = client.urlopen(case["method"], start, body=body, **kw)
                else:
                    result = client.urlopen(case["method"], start, body=body, headers=make_headers(hspec), **kw)
        except BaseException as e:  # noqa: BLE001
            if isinstance(e, (KeyboardInterrupt, SystemExit)):
                raise
            exc = e
        log = list(server.log)
        dials = [(d["host"], d["port"]) for d in net.dials]
    rec.mon("case")
    obs: dict[str, typing.Any] = {"client": case["client"], "policy_at": case["policy_at"], "headers_at": case["headers_at"], "container": hspec["container"], "custom_strip": strip_cfg is not None, "exc": type(exc).__name__ if exc else None, "requests": len(log)}
    if isinstance(exc, Exception) and not isinstance(exc, HTTPError):
        rec.fail(case, "non-urllib3-exception", dict(obs, msg=str(exc)[:100]), f"{type(exc).__name__}: {exc!s:.120}")
        return
    if case["client"] == "pool":
        # a single-host pool must refuse a cross-host redirect before sending anything to the new host
        rec.mon("pool_host_guard")
        foreign = [d for d in dials if d != ("a.test", 80)]
        first_foreign = next((j for j, w in enumerate(walk) if w["origin"] != "A"), None)
        crosses = first_foreign is not None and first_foreign <= 3  # within the default redirect budget
        if foreign or any(e["origin"] != "A" for e in log):
            rec.fail(case, "bare-pool-contacted-foreign-host", dict(obs, dials=foreign), f"bare pool dialled {foreign}")
            return
        if crosses and not isinstance(exc, HostChangedError):
            rec.fail(case, "bare-pool-no-hostchangederror", obs, f"cross-host redirect on a bare pool ended with {exc!r} / status {getattr(result, 'status', None)}")
        return
    # PoolManager / ProxyManager: judge every request of the chain
    if case.get("prior"):
        rec.mon("prior_request_isolation")
        for j, entry in enumerate(log):
            for k, v in entry["headers"]:
                if "prior-request-secret" in v or "prior-marker" in v:
                    rec.fail(case, "header-of-an-earlier-request-sent", dict(obs, hop=j, header=k), f"request #{j} of the chain carries {k}: {v!r}, which belonged to an earlier request on the same manager")
                    return
    supplied = [(k, v) for k, v in hspec["pairs"]]
    crossed = False
    for j, entry in enumerate(log):
        if j >= len(walk):
            break
        if j > 0 and not same_origin(walk[j - 1]["origin"], walk[j]["origin"]):
            crossed = True
        if entry["origin"] != walk[j]["origin"]:
            rec.count("chain_diverged_from_reference")  # C05's business
            break
        seen: dict[str, list[str]] = {}
        for k, v in entry["headers"]:
            if case["client"] == "proxy" and entry.get("via_proxy") is not None and k.lower() == "proxy-authorization" and v == "Basic cHJveHk=":
                continue  # the manager's own proxy_headers, in a message addressed to the proxy: legitimate
            seen.setdefault(k.lower(), []).append(v)
        rec.mon("request_headers")
        method_changed = walk[j]["method"] != case["method"]
        for name in {k.lower() for k, _ in supplied}:
            vals = [v for k, v in supplied if k.lower() == name]
            joined = ", ".join(vals)
            got = ", ".join(x.strip() for v in seen.get(name, []) for x in v.split(","))
            want = ", ".join(x.strip() for x in joined.split(","))
            if name in strip:
                if crossed and name in seen:
                    rec.fail(case, "sensitive-header-forwarded", dict(obs, header=name, hop=j, to=entry["origin"], spelled=[k for k, _ in supplied if k.lower() == name][0], form=case["hops"][min(j - 1, len(case["hops"]) - 1)]["form"] if j else None), f"request #{j} to {entry['origin']} carries {name}: {seen[name]!r} after a cross-origin redirect")
                    return
                if not crossed and name not in seen:
                    rec.count("sensitive_header_dropped_on_same_origin_hop")
            else:
                if case["client"] == "proxy" and name == "proxy-authorization":
                    continue  # the ProxyManager's own proxy_headers define this field for messages to the proxy
                if method_changed and name in ("content-type", "content-length", "content-encoding", "content-language", "content-location", "digest", "last-modified"):
                    continue
                if got != want:
                    rec.fail(case, "other-header-lost-or-altered", dict(obs, header=name, hop=j, got=seen.get(name)), f"request #{j}: header {name} is {seen.get(name)!r}, caller supplied {vals!r}")
                    return
        if crossed and case["headers_at"] == "request-over-sensitive-defaults":
            # the manager's own sensitive defaults were never part of this request: they must not appear on it either
            for k, vs in seen.items():
                if any("manager-default-secret" in v or "default=1" in v for v in vs):
                    rec.fail(case, "sensitive-header-forwarded", dict(obs, header=k, hop=j, to=entry["origin"], manager_default=True), f"request #{j} to {entry['origin']} carries the manager's default {k}: {vs!r} after a cross-origin redirect")
                    return
        if case["client"] == "proxy" and entry.get("via_proxy") is None and "proxy-authorization" in seen and not any(k.lower() == "proxy-authorization" for k, _ in supplied):
            rec.fail(case, "proxy-header-inside-tunnel", dict(obs, hop=j), "proxy_headers reached the origin inside the tunnel")
            return
    if rec.evaluations % 997 == 0:
        rec.sample({"case": case, "log": [(e["origin"], e["method"], e["target"], [k for k, _ in e["headers"]]) for e in log]})


class SchemelessServer:
    def __init__(self, location: str):
        self.location = location

    def on_request(self, net: typing.Any, sc: typing.Any, req: typing.Any) -> None:
        from vf import wire

        if b"/start" in req.target:
            sc.write(wire.build_response(302, "Found", headers=[("Location", self.location)], body=b""))
        else:
            sc.write(wire.build_response(200, body=b"ok"))


def judge_schemeless(rec: Recorder, start: str, location: str, other_host: str) -> None:
    """A URL without a scheme is still accepted (deprecated) and fetched as http: a redirect that leaves its origin must
    strip the sensitive headers all the same."""
    import warnings

    import urllib3

    from vf import netsim

    case = {"schemeless_start": start, "location": location}
    rec.mon("schemeless_start")
    with netsim.Net(SchemelessServer(location)) as net, warnings.catch_warnings():
        warnings.simplefilter("ignore")
        pm = urllib3.PoolManager()
        try:
            pm.request("GET", start, headers={"Authorization": "secret", "Cookie": "a=b", "X-Keep": "k"}, retries=urllib3.Retry(3))
        except urllib3.exceptions.HTTPError:
            rec.count("schemeless_request_failed")
        except Exception as e:  # noqa: BLE001
            rec.count("schemeless_rejected_" + type(e).__name__)
        for st in net.states:
            if st.dial["host"].lower().rstrip(".") != other_host:
                continue
            for r in st.server.requests:
                names = {k.decode("latin-1").lower() for k, _ in r.headers}
                leaked = sorted(names & {"authorization", "cookie"})
                if leaked:
                    rec.fail(case, "sensitive-header-forwarded", {"client": "manager", "header": leaked[0], "to": other_host, "schemeless": True, "form": "scheme-relative"}, f"request to {other_host} after a redirect from {start!r} carries {leaked}")
                    pm.clear()
                    return
        pm.clear()


def judge_redirect_to_proxy_origin(rec: Recorder, location: str) -> None:
    """Through a forwarding proxy: a.test redirects to the proxy's own origin.  The target differs from a.test in host and
    port, so the sensitive headers must not travel on it."""
    import urllib3

    from vf import netsim

    case = {"forwarding_proxy_redirect_to": location}
    rec.mon("redirect_to_proxy_origin")
    with netsim.Net(SchemelessServer(location)) as net:
        pm = urllib3.ProxyManager("http://proxy.test:3128")
        try:
            pm.request("GET", "http://a.test/start", headers={"Authorization": "secret", "Cookie": "a=b", "X-Keep": "k"}, retries=urllib3.Retry(3))
        except urllib3.exceptions.HTTPError:
            rec.count("proxy_origin_redirect_request_failed")
        reqs = [r for st in net.states for r in st.server.requests]
        pm.clear()
    for r in reqs[1:]:
        names = {k.decode("latin-1").lower() for k, _ in r.headers}
        leaked = sorted(names & {"authorization", "cookie"})
        if leaked:
            rec.fail(case, "sensitive-header-forwarded", {"client": "proxy", "header": leaked[0], "to": "the proxy's own origin", "from": "http://a.test", "location": location, "redirect_target_is_proxy_origin": True}, f"request for {r.target!r} after a redirect from http://a.test carries {leaked}")
            return


def random_case(rng: typing.Any) -> dict[str, typing.Any]:
    client = rng.choice(["manager", "manager", "proxy", "pool"])
    nh = rng.choice([1, 2, 2, 3, 4])
    hops = []
    for i in range(nh):
        if client == "pool":
            to = rng.choice(["A", "A", "B", "A2"])
            form = rng.choice(["path", "absolute", "absolute-default-port", "upper-host", "query"]) if to == "A" else rng.choice(["absolute", "absolute", "scheme-relative"])
        else:
            to = rng.choice(["A", "B", "C", "A", "A2", "E", "D"])
            form = rng.choice(c05.FORMS)
        hops.append({"code": rng.choice(c05.CODES), "to": to, "form": form})
    pairs = [["X-Keep", "keep-me"], ["Accept", "text/plain, */*"]]
    for _ in range(rng.randint(1, 3)):
        pairs.insert(rng.randrange(len(pairs) + 1), [rng.choice(SENSITIVE_SPELLINGS), rng.choice(["secret", "a=b; c=d", "Basic dXNlcjpwdw=="])])
    strip = None
    if rng.random() < 0.35:
        strip = rng.choice([["X-Api-Key"], ["x-api-key", "Authorization"], ["X-API-KEY"], []])
        pairs.append([rng.choice(CUSTOM), "key-123"])
    container = rng.choice(["dict", "hd", "hd-repeated", "chainmap"])
    if container in ("dict", "chainmap"):
        seen = set()
        pairs = [p for p in pairs if not (p[0].lower() in seen or seen.add(p[0].lower()))]
    elif container == "hd-repeated":
        pairs.append([rng.choice(["Cookie", "cookie"]), "second=1"])
        container = "hd"
    return {
        "client": client, "hops": hops, "method": rng.choice(["GET", "POST"]), "headers": {"container": container, "pairs": pairs},
        "headers_at": rng.choice(["request", "request", "manager"]) if client != "pool" else "request",
        "strip": strip, "policy_at": rng.choice(["request", "manager", "manager"]) if strip is not None else rng.choice(["none", "request", "manager"]),
        "fail_first": 1 if (rng.random() < 0.15 and client != "pool") else 0,
        "prior": rng.choice([None, None, None, "dict", "hd"]) if client != "pool" else None,
    }


def run_shard(ctx: Ctx, rec: Recorder) -> None:
    if ctx.shard == 0:
        for loc in ("http://proxy.test:3128/landing", "http://PROXY.test:3128/landing?x=1", "//proxy.test:3128/landing"):
            rec.case(["redirect-to-proxy-origin", loc])
            judge_redirect_to_proxy_origin(rec, loc)
    rng = ctx.rng
    idx = 0
    # (i) systematic: chain shapes x codes x spellings x containers
    shapes = {
        "A>B": [("B", "absolute")], "A>B>A": [("B", "absolute"), ("A", "absolute")], "A>B>rel": [("B", "absolute"), ("B", "relative")], "A>A:80>B": [("A", "absolute-default-port"), ("B", "absolute")],
        "A>UPPER-A>B": [("A", "upper-host"), ("B", "scheme-relative")], "A>A2": [("A2", "absolute")], "A>E(scheme-only)": [("E", "absolute")], "A>D(https-same-host)": [("D", "absolute")], "A>E>A": [("E", "absolute"), ("A", "absolute")], "A>C": [("C", "absolute")], "A>rel>//B": [("A", "relative"), ("B", "scheme-relative")],
        "A>path>B>path": [("A", "path"), ("B", "absolute"), ("B", "path")], "A>//B": [("B", "scheme-relative")], "A>A>A": [("A", "path"), ("A", "query")],
    }
    for shape, hopspec in shapes.items():
        for code in c05.CODES:
            for spelling in SENSITIVE_SPELLINGS:
                for container in ("dict", "hd"):
                    for client in ("manager", "proxy"):
                        idx += 1
                        if not ctx.mine(idx):
                            continue
                        hops = [{"code": code, "to": to, "form": form} for to, form in hopspec]
                        case = {"client": client, "hops": hops, "method": "POST" if idx % 4 == 0 else "GET", "headers": {"container": container, "pairs": [["X-Keep", "keep-me"], [spelling, "secret"]]}, "headers_at": "manager" if idx % 5 == 0 else "request", "strip": None, "policy_at": ["none", "request", "manager"][idx % 3], "fail_first": 0}
                        rec.case(["sys", shape, code, spelling, container, client, case["headers_at"], case["policy_at"]])
                        run_case(rec, case)
    rec.exhaustive_parts.append(f"{len(shapes)} chain shapes x 5 codes x {len(SENSITIVE_SPELLINGS)} header spellings x 2 containers x PoolManager/ProxyManager")
    # custom strip sets at request and manager level
    for strip in (["X-Api-Key"], ["x-api-key", "authorization"], []):
        for at in ("request", "manager"):
            for shape in ("A>B", "A>B>A", "A>A>A", "A>path>B>path"):
                for key in CUSTOM:
                    for prefix_same_origin_hop in (False, True):
                        idx += 1
                        if not ctx.mine(idx):
                            continue
                        hopspec = ([("A", "path")] if prefix_same_origin_hop else []) + shapes[shape]
                        hops = [{"code": 302, "to": to, "form": form} for to, form in hopspec]
                        case = {"client": "manager", "hops": hops, "method": "GET", "headers": {"container": "dict", "pairs": [[key, "key-123"], ["Authorization", "secret"], ["X-Keep", "keep-me"]]}, "headers_at": "request", "strip": strip, "policy_at": at, "fail_first": 0}
                        rec.case(["custom", strip, at, shape, key, prefix_same_origin_hop])
                        run_case(rec, case)
    # bare pool
    for to, form in (("B", "absolute"), ("A2", "absolute"), ("C", "absolute"), ("A", "absolute"), ("A", "absolute-default-port"), ("B", "scheme-relative"), ("A2", "scheme-relative"), ("A", "scheme-relative")):  # scheme-relative: '//host:port/path' names a host of its own
        for code in c05.CODES:
            idx += 1
            if not ctx.mine(idx):
                continue
            case = {"client": "pool", "hops": [{"code": code, "to": to, "form": form}], "method": "GET", "headers": {"container": "dict", "pairs": [["Authorization", "secret"]]}, "headers_at": "request", "strip": None, "policy_at": "none", "fail_first": 0}
            rec.case(["pool", to, form, code])
            run_case(rec, case)
    # (ii) random
    if ctx.shard == 0:
        for start in ("a.test/start", "a.test:80/start", "A.test/start?x=1"):
            for loc in ("//b.test/landing", "//b.test:8080/landing", "//B.TEST/landing", "http://b.test/landing", "//a.test:8080/other-port"):
                other = "b.test" if "b.test" in loc.lower() else "a.test"
                rec.case(["schemeless", start, loc])
                if other == "b.test":
                    judge_schemeless(rec, start, loc, "b.test")
    # sensitive-only per-request headers over a manager that has sensitive default headers: after a cross-origin
    # strip nothing is left, and "nothing" must not turn into the manager's defaults
    for client in ("manager", "proxy"):
        for code in (301, 302, 303, 307, 308):
            for pairs in ([["Authorization", "secret"]], [["authorization", "secret"], ["Cookie", "a=b"]], [["Cookie", "a=b"]], [["Proxy-Authorization", "x"], ["Authorization", "secret"]]):
                for container in ("dict", "hd"):
                    # (chains that pass through an https origin - a CONNECT tunnel behind the proxy - and come back to http)
                    for start_origin, hops_to in (("A", ["B"]), ("A", ["A", "B"]), ("A", ["B", "C"]), ("A", ["C", "B"]), ("C", ["B"]), ("D", ["A"]), ("D", ["B", "C"]), ("C", ["C", "A2"])):
                        for headers_at in ("request-over-sensitive-defaults", "manager"):
                            idx += 1
                            if not ctx.mine(idx):
                                continue
                            hops = [{"code": code, "to": t, "form": "absolute"} for t in hops_to]
                            case = {"client": client, "hops": hops, "method": "GET", "headers": {"container": container, "pairs": pairs}, "headers_at": headers_at, "strip": None, "policy_at": "none", "fail_first": 0, "start_origin": start_origin}
                            rec.case(["sens-defaults", client, code, pairs, container, start_origin, hops_to, headers_at])
                            rec.mon("sensitive_only_over_defaults")
                            run_case(rec, case)
    n = ctx.pick(5000, 150000)
    for i in range(n):
        if ctx.out_of_time(0.9):
            rec.count("random_cut_short_by_budget")
            break
        case = random_case(rng)
        rec.case(["rand", case])
        run_case(rec, case)


def replay(case: dict[str, typing.Any], ctx: Ctx, rec: Recorder) -> None:
    rec.case(case)
    run_case(rec, case)
