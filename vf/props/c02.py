"""C02 — concurrent requests never share a connection, exceed maxsize, or deadlock.

Monitor: real worker threads run the real pool code one at a time under the controlled scheduler (vf.sched);
socket-level ownership (who may touch which connection), the open-socket bound, response/request id
equality, termination of every schedule, the exception whitelist under a concurrent close() and the
post-mortem socket sweep are checked on every executed interleaving.  A real-scheduler stress mode covers
the stdlib queue."""
from __future__ import annotations

import gc
import typing

from vf import netsim, sched, wire
from vf.core import Ctx, Recorder


class EchoServer:
    """body = the id in the path; optionally the first k requests die with a reset / get a 503."""

    def __init__(self, fail_first: int = 0, fail_kind: str = "reset"):
        self.fail_first = fail_first
        self.fail_kind = fail_kind
        self.n = 0

    def on_request(self, net: netsim.Net, sc: netsim.ServerConn, req: wire.Request) -> None:
        self.n += 1
        if self.n <= self.fail_first:
            if self.fail_kind == "reset":
                sc.reset()
            elif self.fail_kind == "503-empty":
                sc.write(wire.build_response(503, body=b""))
            elif self.fail_kind == "302-empty":
                sc.write(wire.build_response(302, "Found", headers=[("Location", req.target.decode("latin-1") + "?again")], body=b""))
            else:
                sc.write(wire.build_response(503, body=b"busy"))
            return
        rid = req.target.decode("latin-1").split("?")[0].strip("/")
        if rid.endswith("corrupt"):
            # announced as gzip, is not: a reader that decodes in pieces gets DecodeError with body bytes still unread
            sc.write(wire.build_response(200, headers=[("Content-Encoding", "gzip")], body=("id=" + rid + ";" + "not-gzip-at-all" * 4).encode()))
            return
        sc.write(wire.build_response(200, body=("id=" + rid + ";" + "x" * 20).encode()))


_instrumented = False
SHARED_FUNCS = ("_get_conn", "_put_conn", "HTTPConnectionPool.close", "_close_pool_connections", "release_conn", "HTTPConnectionPool.urlopen", "_new_conn")


def setup_instrumentation() -> None:
    global _instrumented
    if _instrumented:
        return
    import urllib3.connection
    import urllib3.connectionpool
    import urllib3.response

    codes = sched.code_objects_of(urllib3.connectionpool) + sched.code_objects_of(urllib3.response) + sched.code_objects_of(urllib3.connection, ["HTTPConnection.close", "HTTPConnection.is_connected", "HTTPConnection.connect", "HTTPConnection.request", "HTTPConnection.getresponse"])
    sched.instrument(codes)
    _instrumented = True


def systematic_filter(code: typing.Any) -> bool:
    q = code.co_qualname
    return any(q.endswith(n) for n in SHARED_FUNCS)


def run_schedule(cfg: dict[str, typing.Any], policy: tuple[typing.Any, ...]) -> dict[str, typing.Any]:
    """Executes one schedule; returns everything the monitors observed."""
    import urllib3
    from urllib3.connectionpool import HTTPConnectionPool

    setup_instrumentation()
    out: dict[str, typing.Any] = {"violations": [], "results": []}
    S = sched.Scheduler(policy, systematic_filter=systematic_filter, step_limit=cfg.get("step_limit", 60000))
    owner: dict[int, typing.Any] = {}  # socket index -> thread index that may use it (None = idle in the pool)
    queues: list[typing.Any] = []

    def who() -> typing.Any:
        st = sched.current_state()
        return st.index if st is not None else "main"

    def hook(op: str, q: typing.Any, item: typing.Any) -> None:
        if item is None:
            return
        sock = getattr(item, "sock", None)
        idx = getattr(getattr(sock, "vf", None), "index", None)
        if op == "get":
            if getattr(item, "_vf_leased_by", None) is not None:
                out["violations"].append(("connection-leased-twice", {"conn": id(item) % 10000, "first": item._vf_leased_by, "second": who()}))
            item._vf_leased_by = who()
            if idx is not None:
                owner[idx] = who()
        else:
            # returned to the pool: nobody owns it; the same object must not be queued twice
            if sum(1 for x in q.queue if x is item) > 1:
                out["violations"].append(("connection-twice-in-queue", {"conn": id(item) % 10000, "by": who()}))
            item._vf_leased_by = None
            if idx is not None:
                owner[idx] = None

    server = EchoServer(cfg.get("fail_first", 0), cfg.get("fail_kind", "reset"))
    old_q = HTTPConnectionPool.QueueCls
    HTTPConnectionPool.QueueCls = sched.SchedLifoQueue  # type: ignore[assignment]
    sched.SchedLifoQueue.hook = hook
    sched.SchedLifoQueue.instances.clear()
    net = netsim.Net(server)
    net.__enter__()
    try:
        def on_event(ev: tuple[typing.Any, ...]) -> None:
            kind = ev[1]
            if kind == "dial":
                pass
            elif kind in ("send", "recv"):
                s_idx = ev[2]
                t = who()
                o = owner.get(s_idx, "unset")
                if o == "unset":
                    owner[s_idx] = t  # first use after the dial: the dialling thread owns it
                elif o != t:
                    out["violations"].append(("socket-used-by-non-owner", {"socket": s_idx, "owner": o, "user": t, "event": kind}))
            elif kind == "shutdown":
                # a response that has given its connection back has no say over it any more: a (late) shutdown() reaching
                # a socket that another request has checked out breaks that request
                s_idx = ev[2]
                t = who()
                o = owner.get(s_idx, "unset")
                if o not in ("unset", None) and o != t:
                    out["violations"].append(("socket-used-by-non-owner", {"socket": s_idx, "owner": o, "user": t, "event": "shutdown"}))

        net.on_event = on_event

        def before_dial(dial: dict[str, typing.Any]) -> None:
            if cfg["block"] and dial["open_before"] >= cfg["maxsize"]:
                out["violations"].append(("more-than-maxsize-open", {"open": dial["open_before"] + 1, "maxsize": cfg["maxsize"]}))

        net.before_dial_hook = before_dial
        from urllib3.util import Retry

        box: dict[str, typing.Any] = {"pool": HTTPConnectionPool("c.test", 80, maxsize=cfg["maxsize"], block=cfg["block"], retries=Retry(3, status_forcelist=[503]))}

        def worker(i: int) -> typing.Callable[[], typing.Any]:
            def fn() -> typing.Any:
                res = []
                for k in range(cfg["reqs"]):
                    rid = f"w{i}r{k}"
                    try:
                        p = box["pool"]
                        if cfg.get("corrupt_first") and k == 0:
                            # the first answer each worker gets is undecodable: it reads a piece, handles the DecodeError
                            # and disposes of the response the way `with response:` does; the slot must come back
                            r = p.urlopen("GET", "/" + rid + "corrupt", preload_content=False)
                            try:
                                r.read(5)
                            except urllib3.exceptions.DecodeError:
                                pass
                            r.close()
                            body = ("id=" + rid + ";").encode()  # (content is not judged for this one)
                        elif cfg.get("watchdog"):
                            # a watchdog that fires late: shutdown() ("unblock a read from another thread") of a response
                            # that was read and released a moment ago
                            r = p.urlopen("GET", "/" + rid, preload_content=False)
                            body = r.read()
                            r.release_conn()
                            try:
                                r.shutdown()
                            except ValueError:
                                pass
                        elif cfg.get("explicit_release"):
                            # the caller keeps the connection (release_conn=False) although the body is preloaded, and
                            # hands it back itself
                            r = p.urlopen("GET", "/" + rid, release_conn=False)
                            body = r.data
                            r.release_conn()
                        elif cfg.get("preload", True):
                            r = p.urlopen("GET", "/" + rid)
                            body = r.data
                        else:
                            r = p.urlopen("GET", "/" + rid, preload_content=False)
                            body = r.read()
                            r.release_conn()
                        res.append((rid, "ok", body.decode("latin-1")))
                        del r
                    except sched.SchedDeadlock:
                        res.append((rid, "deadlock", ""))
                        break
                    except BaseException as e:  # noqa: BLE001
                        res.append((rid, "exc", type(e).__name__ + ":" + str(e)[:80]))
                        if isinstance(e, sched.StepLimit):
                            break
                return res

            return fn

        def closer() -> typing.Any:
            try:
                box["pool"].close()
                return [("close", "ok", "")]
            except sched.SchedDeadlock:
                return [("close", "deadlock", "")]
            except BaseException as e:  # noqa: BLE001
                return [("close", "exc", type(e).__name__ + ":" + str(e)[:80])]

        for i in range(cfg["workers"]):
            S.spawn(f"w{i}", worker(i))
        if cfg.get("closer"):
            S.spawn("closer", closer)
        finished = S.run(watchdog_s=30.0)
        out["watchdog"] = not finished
        out["aborted"] = S.aborted
        out["deadlocked"] = list(S.deadlocked)
        out["results"] = [(t.name, t.result, type(t.exc).__name__ if t.exc else None) for t in S.threads]
        out["points"] = S.points
        out["all_points"] = S.all_points
        out["point_info"] = S.point_info
        out["trace"] = list(S.trace)
        out["switches"] = list(S.switches)
        out["sites"] = S.point_sites
        # who was waiting in the queue when close() swapped it (for the finding's precondition)
        out["waiting_in_get_at_close"] = []
        for q in sched.SchedLifoQueue.instances:
            waits = [e for e in q.log if e[0] in ("get-wait", "get-deadlock")]
            if any(e[0] == "get-deadlock" for e in q.log):
                out["waiting_in_get_at_close"] += [e[1] for e in q.log if e[0] == "get-deadlock"]
        out["queue_log_tail"] = [list(q.log[-12:]) for q in sched.SchedLifoQueue.instances][:2]
        # post-mortem: drop the pool, every socket must be closed
        for t in S.threads:
            t.fn = None  # type: ignore[assignment]
            t.result_keep = t.result
        for e in net.raised:  # the monitor's own record of injected exceptions must not keep frames (and the pool) alive
            e.__traceback__ = None
        net.raised.clear()
        pool = box.pop("pool")
        closed_pool = pool.pool is None
        del pool
        gc.collect()
        out["open_after_drop"] = [st.index for st in net.open_states()]
        out["pool_was_closed"] = closed_pool
        out["dials"] = len(net.dials)
    finally:
        net.__exit__(None, None, None)
        HTTPConnectionPool.QueueCls = old_q  # type: ignore[assignment]
        sched.SchedLifoQueue.hook = None
    return out


def judge(rec: Recorder, cfg: dict[str, typing.Any], policy_desc: typing.Any, o: dict[str, typing.Any]) -> None:
    case = {"cfg": cfg, "policy": policy_desc}
    rec.mon("schedule")
    sw = tuple((a, b) for a, b, _, _ in o["switches"])
    rec.seen("interleavings", str(hash(tuple((b, c, d) for _, b, c, d in o["switches"])) & 0xFFFFFFFFFF))
    for site in o["sites"]:
        rec.seen("preemption_sites", f"{site[0]}:{site[1]}")
    if any(c in ("_get_conn", "_put_conn", "close", "_close_pool_connections") or c.endswith("._get_conn") or c.endswith("._put_conn") or c.endswith(".close") for _, _, c, _ in o["switches"]):
        rec.count("schedules_switching_inside_get_put_close")
    if o.get("watchdog") or o.get("aborted") == "steps":
        rec.note_inconclusive(f"schedule hit the {'watchdog' if o.get('watchdog') else 'step limit'}")
        return
    for kind, detail in o["violations"]:
        rec.fail(case, kind, dict(detail, closer=bool(cfg.get("closer")), block=cfg["block"]), f"{kind}: {detail}")
        return
    # termination
    rec.mon("termination")
    if o["deadlocked"]:
        names = [o["results"][i][0] for i in o["deadlocked"]]
        others_done = all(r[1] is not None or r[2] is not None for j, r in enumerate(o["results"]) if j not in o["deadlocked"])
        rec.fail(case, "thread-never-finishes", {"stranded": names, "n_stranded": len(names), "closer": bool(cfg.get("closer")), "block": cfg["block"], "stranded_in_queue_get": sorted(o["waiting_in_get_at_close"]) == sorted(o["deadlocked"]), "pool_was_closed": o["pool_was_closed"], "others_finished": others_done}, f"threads {names} can never proceed (deadlock / lost wake-up); queue log tail {o['queue_log_tail']}")
        return
    # results
    rec.mon("results")
    for name, result, exc in o["results"]:
        if exc is not None and exc not in ("SchedDeadlock",):
            rec.fail(case, "thread-died", {"thread": name, "exc": exc}, f"thread {name} died with {exc}")
            return
        for rid, status, detail in result or []:
            if status == "ok":
                if rid == "close":
                    continue
                if not detail.startswith("id=" + rid + ";"):
                    rec.fail(case, "response-for-another-request", {"rid": rid, "got": detail[:40]}, f"request {rid} received {detail[:40]!r}")
                    return
            elif status == "exc":
                ename = detail.split(":", 1)[0]
                allowed = {"ClosedPoolError"} if cfg.get("closer") else set()
                if cfg.get("closer") and ename in ("ProtocolError", "MaxRetryError", "NewConnectionError"):
                    allowed.add(ename) if False else None
                if ename not in allowed:
                    rec.fail(case, "unexpected-exception", {"rid": rid, "exc": ename, "closer": bool(cfg.get("closer"))}, f"request {rid}: {detail}")
                    return
    rec.mon("post_mortem_sweep")
    if o["open_after_drop"]:
        rec.fail(case, "socket-open-after-pool-dropped", {"sockets": o["open_after_drop"], "pool_was_closed": o["pool_was_closed"], "closer": bool(cfg.get("closer"))}, f"sockets {o['open_after_drop']} still open after the pool object was dropped")


def run_stress(cfg: dict[str, typing.Any], seed: int) -> dict[str, typing.Any]:
    """Mode (b): the same monitors with the real queue.LifoQueue, real GIL hand-offs (tiny switch interval) and
    seeded yield injection from LINE callbacks between critical sections."""
    import queue
    import random
    import sys
    import threading
    import time

    from urllib3.connectionpool import HTTPConnectionPool
    from urllib3.util import Retry

    setup_instrumentation()
    out: dict[str, typing.Any] = {"violations": [], "results": [], "events": 0}
    owner: dict[int, typing.Any] = {}
    mon_lock = threading.Lock()

    class MonLifoQueue(queue.LifoQueue):  # type: ignore[type-arg]
        # _get/_put run under the queue's own mutex: the monitor state changes atomically with the queue
        def _get(self) -> typing.Any:
            item = super()._get()
            if item is not None:
                if getattr(item, "_vf_leased_by", None) is not None:
                    out["violations"].append(("connection-leased-twice", {"first": item._vf_leased_by, "second": threading.get_ident() % 1000}))
                item._vf_leased_by = threading.get_ident()
                idx = getattr(getattr(getattr(item, "sock", None), "vf", None), "index", None)
                if idx is not None:
                    owner[idx] = threading.get_ident()
            return item

        def _put(self, item: typing.Any) -> None:
            if item is not None:
                if any(x is item for x in self.queue):
                    out["violations"].append(("connection-twice-in-queue", {"by": threading.get_ident() % 1000}))
                item._vf_leased_by = None
                idx = getattr(getattr(getattr(item, "sock", None), "vf", None), "index", None)
                if idx is not None:
                    owner[idx] = None
            super()._put(item)

    rng = random.Random(seed)
    yield_p = cfg.get("yield_p", 0.02)
    tls = threading.local()

    def on_line(code: typing.Any, line: int) -> typing.Any:
        r = getattr(tls, "rng", None)
        if r is not None and r.random() < yield_p:
            time.sleep(0 if r.random() < 0.8 else 0.0002)
        return None

    server = EchoServer(0)
    old_q = HTTPConnectionPool.QueueCls
    HTTPConnectionPool.QueueCls = MonLifoQueue  # type: ignore[assignment]
    old_si = sys.getswitchinterval()
    sys.setswitchinterval(1e-6)
    mon = sys.monitoring
    mon.register_callback(sched.TOOL_ID, mon.events.LINE, on_line)
    net = netsim.Net(server)
    net.__enter__()
    try:
        def on_event(ev: tuple[typing.Any, ...]) -> None:
            if ev[1] in ("send", "recv"):
                out["events"] += 1
                me = threading.get_ident()
                o = owner.get(ev[2], "unset")
                if o == "unset":
                    owner[ev[2]] = me
                elif o != me:
                    out["violations"].append(("socket-used-by-non-owner", {"socket": ev[2], "event": ev[1]}))

        net.on_event = on_event
        open_now = [0]

        def before_dial(dial: dict[str, typing.Any]) -> None:
            if cfg["block"] and dial["open_before"] >= cfg["maxsize"]:
                out["violations"].append(("more-than-maxsize-open", {"open": dial["open_before"] + 1, "maxsize": cfg["maxsize"]}))

        net.before_dial_hook = before_dial
        pool = HTTPConnectionPool("c.test", 80, maxsize=cfg["maxsize"], block=cfg["block"], retries=Retry(3))
        results: list[list[typing.Any]] = [[] for _ in range(cfg["workers"])]

        def worker(i: int) -> None:
            tls.rng = random.Random(seed * 1000 + i)
            for k in range(cfg["reqs"]):
                rid = f"w{i}r{k}"
                try:
                    if (i + k) % 3:
                        body = pool.urlopen("GET", "/" + rid).data
                    else:
                        r = pool.urlopen("GET", "/" + rid, preload_content=False)
                        body = r.read()
                        r.release_conn()
                    results[i].append((rid, "ok", body.decode("latin-1")))
                except BaseException as e:  # noqa: BLE001
                    results[i].append((rid, "exc", type(e).__name__ + ":" + str(e)[:80]))
            tls.rng = None

        threads = [threading.Thread(target=worker, args=(i,), daemon=True) for i in range(cfg["workers"])]
        t0 = time.monotonic()
        for t in threads:
            t.start()
        closer_result = None
        if cfg.get("closer"):
            time.sleep(rng.random() * 0.01)
            try:
                pool.close()
                closer_result = "ok"
            except BaseException as e:  # noqa: BLE001
                closer_result = type(e).__name__
        for t in threads:
            t.join(max(0.1, 40 - (time.monotonic() - t0)))
        out["hung"] = [i for i, t in enumerate(threads) if t.is_alive()]
        out["results"] = results
        out["closer_result"] = closer_result
        out["dials"] = len(net.dials)
        out["max_open"] = net.max_open
        for e in net.raised:
            e.__traceback__ = None
        net.raised.clear()
        if not out["hung"]:
            del pool
            gc.collect()
            out["open_after_drop"] = [st.index for st in net.open_states()]
        else:
            out["open_after_drop"] = []
    finally:
        mon.register_callback(sched.TOOL_ID, mon.events.LINE, sched._on_line)
        sys.setswitchinterval(old_si)
        net.__exit__(None, None, None)
        HTTPConnectionPool.QueueCls = old_q  # type: ignore[assignment]
    return out


def judge_stress(rec: Recorder, cfg: dict[str, typing.Any], seed: int, o: dict[str, typing.Any]) -> None:
    case = {"cfg": cfg, "policy": ["stress", seed]}
    rec.mon("stress_run")
    rec.count("stress_socket_events", o["events"])
    for kind, detail in o["violations"][:1]:
        rec.fail(case, kind, dict(detail, mode="stress", block=cfg["block"], closer=bool(cfg.get("closer"))), f"stress: {kind} {detail}")
        return
    if o["hung"]:
        if cfg.get("closer") and cfg["block"]:
            rec.count("stress_hang_with_closer_on_blocking_pool")  # the recorded finding; not judged in the uncontrolled mode
        else:
            rec.note_inconclusive(f"stress run: threads {o['hung']} did not finish before the wall-clock watchdog")
        return
    for i, res in enumerate(o["results"]):
        for rid, status, detail in res:
            if status == "ok" and not detail.startswith("id=" + rid + ";"):
                rec.fail(case, "response-for-another-request", {"rid": rid, "got": detail[:40], "mode": "stress"}, f"stress: {rid} received {detail[:40]!r}")
                return
            if status == "exc":
                ename = detail.split(":", 1)[0]
                if not (cfg.get("closer") and ename == "ClosedPoolError"):
                    rec.fail(case, "unexpected-exception", {"rid": rid, "exc": ename, "mode": "stress", "closer": bool(cfg.get("closer"))}, f"stress: {rid}: {detail}")
                    return
    if o["open_after_drop"]:
        rec.fail(case, "socket-open-after-pool-dropped", {"sockets": o["open_after_drop"], "mode": "stress"}, f"stress: sockets {o['open_after_drop']} open after the pool was dropped")


def configs(ctx: Ctx) -> list[dict[str, typing.Any]]:
    out = []
    for workers in (2, 3):
        for reqs in (1, 2):
            for maxsize in (1, 2):
                for block in (True, False):
                    for closer in (False, True):
                        for fail in (0, 1):
                            if workers == 3 and reqs == 2 and ctx.quick:
                                continue
                            out.append({"workers": workers, "reqs": reqs, "maxsize": maxsize, "block": block, "closer": closer, "fail_first": fail, "fail_kind": "reset" if (workers + reqs + maxsize) % 2 else "503", "preload": (workers + maxsize + fail) % 3 != 0})
    for maxsize in (1, 2):
        for block in (True, False):
            out.append({"workers": 2, "reqs": 2, "maxsize": maxsize, "block": block, "closer": False, "fail_first": 0, "fail_kind": "503", "preload": True, "explicit_release": True})
    for maxsize in (1, 2):
        for block in (True, False):
            out.append({"workers": 2, "reqs": 2, "maxsize": maxsize, "block": block, "closer": False, "fail_first": 0, "fail_kind": "503", "preload": False, "watchdog": True})
    for workers, maxsize in ((2, 1), (3, 2)):
        out.append({"workers": workers, "reqs": 2, "maxsize": maxsize, "block": True, "closer": False, "fail_first": 0, "fail_kind": "503", "preload": False, "corrupt_first": True})
    # a body-less retry status / redirect as the first answer(s): the follow-up attempt needs the slot the first one used
    for workers in (2,):
        for maxsize in (1, 2):
            for kind in ("503-empty", "302-empty"):
                for preload in (True, False):
                    out.append({"workers": workers, "reqs": 1, "maxsize": maxsize, "block": True, "closer": False, "fail_first": maxsize, "fail_kind": kind, "preload": preload})
    return out


def run_shard(ctx: Ctx, rec: Recorder) -> None:
    cfgs = configs(ctx)
    mine = [c for i, c in enumerate(cfgs) if ctx.mine(i)]
    # (a1') directed family for close() - run first, so that a loaded machine cannot starve it: one worker is preempted inside urlopen (so that both hold a connection, or one
    # waits) and then close() runs, to completion, at every later statement of the shared-state functions
    for cfg in mine:
        if not cfg["closer"] or cfg["workers"] != 2 or (ctx.quick and cfg["reqs"] != 1):
            continue
        if ctx.out_of_time(0.3):
            rec.count("directed_cut_short_by_budget")
            break
        closer_idx = cfg["workers"]

        def expand(decisions: list[tuple[int, int]], p: int, t: int, o: typing.Any, closer_idx: int = closer_idx, narrow: bool = ctx.quick) -> bool:
            tr = o["trace"]
            if not decisions:
                if t == closer_idx:
                    return True
                if not tr[p][1].endswith("HTTPConnectionPool.urlopen"):
                    return False
                if not narrow:
                    return True
                # quick tier: only the lease boundary (the statement right after this thread's _get_conn returned)
                return p > 0 and tr[p - 1][0] == tr[p][0] and tr[p - 1][1].endswith("_get_conn")
            return t == closer_idx and decisions[0][1] != closer_idx

        def run_one2(policy: tuple[typing.Any, ...], cfg: dict[str, typing.Any] = cfg) -> tuple[list[tuple[int, list[int]]], typing.Any]:
            o = run_schedule(cfg, policy)
            return o["point_info"], o

        for decisions, o in sched.explore(run_one2, bound=2, max_runs=ctx.pick(700, 6000), expand=expand):
            if ctx.out_of_time(0.3):
                rec.count("directed_cut_short_by_budget")
                break
            rec.case(["close-directed", cfg, decisions], nontrivial=len(decisions) > 0)
            rec.mon("close_directed_schedule")
            judge(rec, cfg, ["replay", decisions], o)
    # (a1) systematic: preemption-bounded enumeration at line granularity over the shared-state functions
    bound = 1 if ctx.quick else 2
    per_cfg = ctx.pick(200, 2500)
    for cfg in mine:
        if ctx.out_of_time(0.65):
            rec.count("systematic_cut_short_by_budget")
            break
        n = 0

        def run_one(policy: tuple[typing.Any, ...], cfg: dict[str, typing.Any] = cfg) -> tuple[list[tuple[int, list[int]]], typing.Any]:
            o = run_schedule(cfg, policy)
            return o["point_info"], o

        for decisions, o in sched.explore(run_one, bound=bound, max_runs=per_cfg):
            if ctx.out_of_time(0.65):
                rec.count("systematic_cut_short_by_budget")
                break
            rec.case(["sys", cfg, decisions], nontrivial=len(decisions) > 0)
            judge(rec, cfg, ["replay", decisions], o)
            n += 1
            if n == 2:
                rec.sample({"cfg": cfg, "decisions": decisions, "switch_sites": [(c, l) for _, _, c, l in o["switches"]], "results": o["results"]})
    rec.exhaustive_parts.append(f"all schedules with <= {bound} preemption(s) at line granularity inside {SHARED_FUNCS} (capped at {per_cfg} per configuration)")
    # (b) real-scheduler stress with the stdlib queue
    for k in range(ctx.pick(1, 4)):
        scfg = {"workers": ctx.pick(6, 12), "reqs": ctx.pick(40, 150), "maxsize": [1, 2, 3][(ctx.shard + k) % 3], "block": (ctx.shard + k) % 2 == 0, "closer": (ctx.shard + k) % 4 == 1, "yield_p": 0.02}  # (closer only on non-blocking pools: the blocking case is the recorded hang)
        seed = ctx.seed * 100 + ctx.shard * 10 + k
        o = run_stress(scfg, seed)
        rec.case(["stress", scfg, seed])
        judge_stress(rec, scfg, seed, o)
    # (a2) randomized: random-walk and PCT schedules over all instrumented lines
    import random

    n_rand = ctx.pick(400, 6000)
    for i in range(n_rand):
        if ctx.out_of_time(0.9):
            rec.count("random_cut_short_by_budget")
            break
        cfg = mine[i % len(mine)] if mine else cfgs[i % len(cfgs)]
        seed = ctx.rng.randrange(1 << 30)
        if i % 3 == 2:
            policy: tuple[typing.Any, ...] = ("pct", random.Random(seed), 3)
            desc: typing.Any = ["pct", seed, 3]
        else:
            p = [0.02, 0.1, 0.3][i % 3 if i % 3 < 2 else 0]
            policy = ("random", random.Random(seed), p)
            desc = ["random", seed, p]
        o = run_schedule(cfg, policy)
        rec.case(["rand", cfg, desc])
        judge(rec, cfg, desc, o)


def replay(case: dict[str, typing.Any], ctx: Ctx, rec: Recorder) -> None:
    import random

    pol = case["policy"]
    if pol[0] == "stress":
        o = run_stress(case["cfg"], pol[1])
        rec.case(case)
        judge_stress(rec, case["cfg"], pol[1], o)
        return
    if pol[0] == "replay":
        policy: tuple[typing.Any, ...] = ("replay", [tuple(d) for d in pol[1]])
    elif pol[0] == "pct":
        policy = ("pct", random.Random(pol[1]), pol[2])
    else:
        policy = ("random", random.Random(pol[1]), pol[2])
    o = run_schedule(case["cfg"], policy)
    rec.case(case)
    judge(rec, case["cfg"], pol, o)
