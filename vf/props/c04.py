"""C04 — retries respect every budget, spare non-idempotent requests, and terminate.

Monitor: the closed retry loop is driven over the in-memory network by per-attempt outcome scripts; an
independent accountant classifies every attempt by what the harness injected (not by urllib3's exception
classes) and checks budgets, the non-idempotent rule, retries=False, the caller's Retry object, the
recorded sleeps and the way exhaustion surfaces."""
from __future__ import annotations

import email.utils
import typing

from vf import netsim
from vf.core import Ctx, Recorder

DEFAULT_ALLOWED = {"HEAD", "GET", "PUT", "DELETE", "OPTIONS", "TRACE"}
RA_STATUSES = {413, 429, 503}

OUTCOMES = ["refused", "ctimeout", "rtimeout", "reset", "eof", "garbage", "ssl", "200", "503", "429ra", "503date", "500", "413ra", "500ra"]


def outcome_spec(name: str, now: float) -> dict[str, typing.Any]:
    if name == "refused":
        return {"k": "connect", "err": "ECONNREFUSED"}
    if name == "ctimeout":
        return {"k": "connect", "err": "timeout"}
    if name == "rtimeout":
        return {"k": "recv", "err": "timeout"}
    if name in ("reset", "eof", "garbage", "ssl"):
        return {"k": "recv", "err": name}
    if name == "200":
        return {"k": "resp", "status": 200, "body": "ok"}
    if name == "503":
        return {"k": "resp", "status": 503, "body": "busy"}
    if name == "500":
        return {"k": "resp", "status": 500, "body": "err"}
    if name == "429ra":
        return {"k": "resp", "status": 429, "headers": [["Retry-After", "1"]], "body": "slow"}
    if name == "413ra":
        return {"k": "resp", "status": 413, "headers": [["Retry-After", "7"]], "body": "big"}
    if name == "503date":
        return {"k": "resp", "status": 503, "headers": [["Retry-After", email.utils.formatdate(now + 300, usegmt=True)]], "body": "later", "ra_date_delta": 300}
    if name == "500ra":
        return {"k": "resp", "status": 500, "headers": [["Retry-After", "3600"]], "body": "err"}
    raise ValueError(name)


def category(o: dict[str, typing.Any]) -> str:
    if o["k"] == "connect":
        return "connect"
    if o["k"] == "recv":
        # whatever fails while the response is awaited fails after the request may have reached the server: a read error,
        # also when it is the TLS layer that reports it
        return "read"
    if o["k"] == "tls":
        return "other"
    return "status"


def build_retry(cfg: typing.Any) -> typing.Any:
    from urllib3.util import Retry

    if cfg is None or isinstance(cfg, (bool, int)):
        return cfg
    kw = dict(cfg)
    if "allowed_methods" in kw and kw["allowed_methods"] not in (None,):
        kw["allowed_methods"] = None if kw["allowed_methods"] == "none" else (Retry.DEFAULT_ALLOWED_METHODS if kw["allowed_methods"] == "default" else frozenset(kw["allowed_methods"]))
    if "status_forcelist" in kw:
        kw["status_forcelist"] = list(kw["status_forcelist"])
    return Retry(**kw)


def snapshot(r: typing.Any) -> typing.Any:
    from urllib3.util import Retry

    if not isinstance(r, Retry):
        return repr(r)
    names = ["total", "connect", "read", "redirect", "status", "other", "allowed_methods", "status_forcelist", "backoff_factor", "backoff_max", "raise_on_redirect", "raise_on_status", "history", "respect_retry_after_header", "remove_headers_on_redirect", "backoff_jitter"]
    out = []
    for n in names:
        v = getattr(r, n, "<missing>")
        out.append((n, sorted(map(str, v)) if isinstance(v, (set, frozenset)) else repr(v)))
    return out


def effective(req_level: typing.Any, pool_level: typing.Any) -> dict[str, typing.Any]:
    """Reference resolution of the policy in effect and its budgets."""
    chosen = req_level if req_level is not None else pool_level
    if chosen is None:
        chosen = 3  # Retry.DEFAULT = Retry(3)
    if isinstance(chosen, bool) or isinstance(chosen, int):
        return {"total": chosen, "connect": None, "read": None, "status": None, "other": None, "allowed": DEFAULT_ALLOWED, "forcelist": set(), "raise_on_status": True, "respect_ra": True, "backoff_max": 120, "disabled": chosen is False}
    d = dict(chosen)
    am = d.get("allowed_methods", "default")
    allowed = None if am == "none" else (DEFAULT_ALLOWED if am == "default" else set(am))
    return {
        "total": d.get("total", 10), "connect": d.get("connect"), "read": d.get("read"), "status": d.get("status"), "other": d.get("other"),
        "allowed": allowed, "forcelist": set(d.get("status_forcelist", [])), "raise_on_status": d.get("raise_on_status", True),
        "respect_ra": d.get("respect_retry_after_header", True), "backoff_max": d.get("backoff_max", 120), "disabled": d.get("total", 10) is False,
    }


def run_case(rec: Recorder, pooltype: str, method: str, req_cfg: typing.Any, pool_cfg: typing.Any, seq: list[str], warmup: list[typing.Any] | None = None) -> None:
    import urllib3
    from urllib3.exceptions import HTTPError, MaxRetryError

    case = {"pool": pooltype, "method": method, "request_retries": req_cfg, "pool_retries": pool_cfg, "seq": seq}
    if warmup:
        case["warmup"] = warmup
    req_r, pool_r = build_retry(req_cfg), build_retry(pool_cfg)
    snap_req, snap_pool = snapshot(req_r), snapshot(pool_r)
    clock0 = 0.0
    net = netsim.Net(None)
    script = netsim.AttemptScript([outcome_spec("200", 0.0) for _ in (warmup or [])] + [outcome_spec(s, 1_700_000_000.0 + net.clock.now) for s in seq])
    net.script = script
    result: typing.Any = None
    exc: BaseException | None = None
    with net:
        try:
            kw: dict[str, typing.Any] = {}
            if req_cfg is not None:
                kw["retries"] = req_r
            body = b"payload" if method.upper() in ("POST", "PUT") else None
            if pooltype == "direct":
                client: typing.Any = urllib3.HTTPConnectionPool("o.test", 80, **({"retries": pool_r} if pool_cfg is not None else {}))
                url = "/x"
            else:
                client = urllib3.ProxyManager("http://proxy.test:3128", **({"retries": pool_r} if pool_cfg is not None else {}))
                url = "http://o.test/x" if pooltype == "forward" else "https://o.test/x"
            # earlier, successful requests on the same client with other per-request policies (0, False, True, 1 ... compare
            # and hash alike): the policy in effect for the judged request must be its own
            for w in warmup or []:
                rec.mon("warmup_request")
                client.urlopen("GET", url, redirect=False, **({} if w == "unset" else {"retries": build_retry(w)})).drain_conn()
            if warmup:
                script.log.clear()
                net.clock.sleeps.clear()
                net.clock.sleep_at.clear()
            n_warm_requests = len([1 for st in net.states for _ in st.server.requests])
            result = client.urlopen(method, url, body=body, redirect=False, **kw)
        except BaseException as e:  # noqa: BLE001
            if isinstance(e, (KeyboardInterrupt, SystemExit)):
                raise
            exc = e
        sleeps = list(net.clock.sleeps)
        sleep_at = list(net.clock.sleep_at)
        t_start = 1000.0
        log = [dict(l) for l in script.log]
        wire_requests = len([1 for st in net.states for _ in st.server.requests]) - (n_warm_requests if warmup else 0)
    rec.mon("case")
    eff = effective(req_cfg, pool_cfg)
    # effective per-attempt outcomes (an outcome that could not apply, e.g. a dial failure on a reused connection, became a 200)
    attempts = []
    for l in log:
        o = l["outcome"]
        if l.get("not_applicable"):
            o = {"k": "resp", "status": 200}
        attempts.append(o)
    n = len(attempts)
    obs: dict[str, typing.Any] = {"pool": pooltype, "method": method.upper(), "attempts": n, "cats": [category(o) + (":" + str(o.get("status")) if o["k"] == "resp" else ":" + str(o.get("err"))) for o in attempts], "exc": type(exc).__name__ if exc else None, "allowed": None if eff["allowed"] is None else method.upper() in eff["allowed"]}
    if n > 40:
        rec.fail(case, "does-not-terminate", obs, f"{n} attempts")
        return
    # R6 caller's objects unchanged
    rec.mon("retry_object_unchanged")
    if snapshot(req_r) != snap_req or snapshot(pool_r) != snap_pool:
        rec.fail(case, "caller-retry-mutated", obs, "the caller's Retry object changed")
    # R1-R3 budgets
    rec.mon("budgets")
    tot = eff["total"]
    if eff["disabled"]:
        if n > 1:
            rec.fail(case, "retries-false-retried", dict(obs), f"retries=False but {n} attempts were made")
            return
        if isinstance(exc, MaxRetryError) and attempts and category(attempts[-1]) != "status":
            # (a forcelisted status with a zero budget is exhaustion and legitimately surfaces as MaxRetryError)
            rec.fail(case, "retries-false-wrapped", dict(obs), "retries=False but the error surfaced as MaxRetryError")
            return
    elif isinstance(tot, int) and not isinstance(tot, bool) and n > 1 + tot:
        rec.fail(case, "total-budget-exceeded", dict(obs, total=tot), f"{n} attempts with total={tot}")
        return
    def misfiled(o: dict[str, typing.Any]) -> bool:
        """behind a proxy, a reset/EOF while awaiting the response makes http.client close the connection, which
        resets urllib3's 'connected to proxy' flag: the error is then labelled ProxyError and filed under 'other'"""
        return pooltype != "direct" and o["k"] == "recv" and o["err"] in ("reset", "eof")

    def misfiled_tls(o: dict[str, typing.Any]) -> bool:
        """a TLS-level failure while the response is awaited is turned into urllib3's SSLError before the read-error test
        and lands in the 'other' category as well"""
        return o["k"] == "recv" and o["err"] == "ssl"

    followed = {"connect": 0, "read": 0, "status": 0, "other": 0}
    alt = {"connect": 0, "read": 0, "status": 0, "other": 0}
    for i in range(n - 1):
        followed[category(attempts[i])] += 1
        alt["other" if (misfiled(attempts[i]) or misfiled_tls(attempts[i])) else category(attempts[i])] += 1
    for cat in ("connect", "read", "status", "other"):
        b = eff[cat]
        if isinstance(b, int) and not isinstance(b, bool) and followed[cat] > b:
            holds_alt = all(not (isinstance(eff[c2], int) and not isinstance(eff[c2], bool)) or alt[c2] <= eff[c2] for c2 in alt)
            rec.fail(case, "category-budget-exceeded", dict(obs, category=cat, budget=b, retried=followed[cat], explained_by_proxy_misfiled_reads=holds_alt and cat == "read" and any(misfiled(a) for a in attempts[:-1]), explained_by_tls_misfiled_reads=holds_alt and cat == "read" and any(misfiled_tls(a) for a in attempts[:-1])), f"{followed[cat]} retries after {cat} events with {cat}={b}")
            return
    # R4 non-idempotent rule
    rec.mon("non_idempotent_rule")
    if eff["allowed"] is not None and method.upper() not in eff["allowed"]:
        for i in range(n - 1):
            o = attempts[i]
            c = category(o)
            if c == "read" or (c == "status" and int(o.get("status", 200)) >= 400):
                rec.fail(case, "non-idempotent-resent", dict(obs, after=c, after_detail=o.get("err") or o.get("status"), index=i, explained_by_proxy_misfiled_reads=misfiled(o), explained_by_tls_misfiled_reads=misfiled_tls(o)), f"{method} (not in allowed_methods) re-sent after a {c} event ({o.get('err') or o.get('status')}) on attempt {i+1}")
                return
    # R10 a response is only followed by another attempt when it is force-listed or a 413/429/503 carrying Retry-After
    rec.mon("status_retry_cause")
    for i in range(n - 1):
        o = attempts[i]
        if o["k"] != "resp":
            continue
        st_ = int(o.get("status", 200))
        has_ra = any(k.lower() == "retry-after" for k, _ in o.get("headers", []))
        if st_ in eff["forcelist"] or (st_ in RA_STATUSES and has_ra and eff["respect_ra"]):
            continue
        rec.fail(case, "status-retried-without-cause", dict(obs, status=st_, has_retry_after=has_ra, index=i), f"attempt {i+1} got {st_} (not force-listed{', with Retry-After' if has_ra else ''}) and the request was sent again")
        return
    # R7 sleeps
    rec.mon("sleeps")
    for si, s in enumerate(sleeps):
        if s != s or s < 0:
            rec.fail(case, "negative-or-nan-sleep", dict(obs, sleep=s), f"sleep({s})")
            return
        if s > eff["backoff_max"] + 1e-9:
            ok_ra = False
            culprit = None
            for o in attempts:
                if o["k"] != "resp":
                    continue
                ra = dict((k.lower(), v) for k, v in o.get("headers", [])).get("retry-after")
                if ra is None:
                    continue
                # an HTTP-date is absolute: the expected sleep is what is left of it at the moment of sleeping
                val = float(ra) if ra.strip().isdigit() else float(o.get("ra_date_delta", -1)) - (sleep_at[si] - t_start)
                if abs(val - s) <= 2.0:
                    culprit = int(o["status"])
                    if int(o["status"]) in RA_STATUSES and eff["respect_ra"]:
                        ok_ra = True
            if not ok_ra:
                rec.fail(case, "sleep-out-of-bounds", dict(obs, sleep=s, backoff_max=eff["backoff_max"], retry_after_status=culprit, respect=eff["respect_ra"], retry_after_status_forcelisted=culprit in eff["forcelist"]), f"sleep({s}) > backoff_max={eff['backoff_max']} and not a Retry-After of a 413/429/503 (status {culprit})")
                return
    # R8 how the end surfaces
    rec.mon("outcome_shape")
    last = attempts[-1] if attempts else None
    if exc is None:
        if result is None or last is None or last["k"] != "resp" or int(result.status) != int(last["status"]):
            rec.fail(case, "returned-response-not-last", dict(obs, returned=getattr(result, "status", None)), f"returned status {getattr(result, 'status', None)} but the last attempt was {last}")
    else:
        if not isinstance(exc, HTTPError):
            rec.fail(case, "non-urllib3-exception", dict(obs, msg=str(exc)[:80]), f"{type(exc).__name__}: {exc!s:.120}")
        elif isinstance(exc, MaxRetryError) and last is not None:
            reason = exc.reason
            c = category(last)
            from urllib3.exceptions import ConnectTimeoutError, NewConnectionError, ProtocolError, ProxyError, ReadTimeoutError, ResponseError, SSLError

            want: tuple[type, ...]
            if c == "connect":
                want = (NewConnectionError, ConnectTimeoutError, ProxyError)
            elif c == "read":
                want = (ReadTimeoutError, ProtocolError, ProxyError, SSLError)
            elif c == "other":
                want = (SSLError, ProxyError)
            else:
                want = (ResponseError,)
            if not isinstance(reason, want):
                rec.fail(case, "maxretry-reason-not-last-cause", dict(obs, reason=type(reason).__name__, last=c), f"MaxRetryError.reason is {type(reason).__name__}, last attempt was a {c} event")
    if rec.evaluations % 1499 == 0:
        rec.sample({"case": case, "attempt_categories": obs["cats"], "sleeps": sleeps, "exception": obs["exc"]})


def run_redirect_budgets(ctx: Ctx, rec: Recorder) -> None:
    """Outcome sequences that contain redirects, through the pool (which follows them itself) and through a PoolManager /
    forwarding ProxyManager (which take the 3xx back from the pool and follow it themselves): what was spent on errors
    before a redirect stays spent - the attempts on the wire never exceed 1 + total, nor 1 + any category budget."""
    import itertools

    import urllib3
    from urllib3.exceptions import HTTPError
    from urllib3.util import Retry

    alpha = ["eof", "refused", "503", "302", "200"]
    cfgs = [{"total": 1}, {"total": 2}, {"total": 3}, {"total": 6, "read": 1}, {"total": 6, "connect": 1}, {"total": 6, "redirect": 1}, {"total": 6, "status": 1}, {"total": 2, "redirect": 5}, {"total": 6, "read": 0, "redirect": 2}]
    L = ctx.pick(4, 6)
    stride = ctx.pick(3, 1)
    idx = 0
    for entry in ("pool", "manager", "proxy"):
        for cfg in cfgs:
            for n in range(2, L + 1):
                for seq in itertools.product(alpha, repeat=n):
                    idx += 1
                    if "302" not in seq[:-1] or seq[0] == "200" or not ctx.mine(idx) or ctx.skip(idx, stride):
                        continue
                    case = {"mode": "redirect-budgets", "entry": entry, "retries": cfg, "seq": list(seq)}
                    rec.case(["redirect-budgets", entry, cfg, seq])
                    net = netsim.Net(None)
                    specs = [{"k": "resp", "status": 302, "headers": [["Location", "/next"]], "body": ""} if x == "302" else ({"k": "recv", "err": "eof"} if x == "eof" else outcome_spec(x, 0.0)) for x in seq]
                    script = netsim.AttemptScript(specs)
                    net.script = script
                    exc: BaseException | None = None
                    with net:
                        r = Retry(status_forcelist=[503], backoff_factor=0, **cfg)
                        try:
                            if entry == "pool":
                                cl: typing.Any = urllib3.HTTPConnectionPool("o.test", 80)
                                cl.urlopen("GET", "/x", retries=r)
                            elif entry == "manager":
                                cl = urllib3.PoolManager()
                                cl.urlopen("GET", "http://o.test/x", retries=r)
                            else:
                                cl = urllib3.ProxyManager("http://proxy.test:3128")
                                cl.urlopen("GET", "http://o.test/x", retries=r)
                        except HTTPError as e:
                            exc = e
                        except Exception as e:  # noqa: BLE001
                            rec.fail(case, "non-urllib3-exception", {"msg": str(e)[:80], "entry": entry}, f"{type(e).__name__}: {e!s:.100}")
                            continue
                        log = [dict(l) for l in script.log]
                    rec.mon("redirect_budget_case")
                    cats = []
                    for l in log:
                        o = l["outcome"]
                        if l.get("not_applicable"):
                            cats.append("ok")
                        elif o["k"] == "connect":
                            cats.append("connect")
                        elif o["k"] == "recv":
                            cats.append("read")
                        else:
                            cats.append({302: "redirect", 503: "status"}.get(int(o["status"]), "ok"))
                    followed = {c: cats[:-1].count(c) for c in ("connect", "read", "status", "redirect")}
                    obs = {"entry": entry, "attempts": len(cats), "cats": cats, "exc": type(exc).__name__ if exc else None, "retries": cfg}
                    if len(cats) > 1 + cfg["total"]:
                        rec.fail(case, "total-budget-exceeded", dict(obs, total=cfg["total"], with_redirects=True), f"{entry}: {len(cats)} attempts ({cats}) with total={cfg['total']}")
                        continue
                    for c, k in followed.items():
                        if entry == "proxy" and c == "read":
                            continue  # behind a proxy read errors are filed under 'other' (recorded finding, judged by run_case)
                        if c in cfg and k > cfg[c]:
                            rec.fail(case, "category-budget-exceeded", dict(obs, category=c, budget=cfg[c], retried=k, with_redirects=True), f"{entry}: {k} attempts followed a {c} event with {c}={cfg[c]} ({cats})")
                            break


INTS = [None, 0, 1, 2]


def random_cfg(rng: typing.Any, stratum: str) -> typing.Any:
    r = rng.random()
    if r < 0.12:
        return False
    if r < 0.30:
        return rng.choice([0, 1, 2, 3])
    cfg: dict[str, typing.Any] = {"total": rng.choice([None, 0, 1, 2, 3, 3, False])}
    for k in ("connect", "read", "status", "other"):
        if rng.random() < 0.5:
            cfg[k] = rng.choice(INTS)
    cfg["allowed_methods"] = rng.choice(["default", "default", "none", ["POST"], ["GET", "POST"], [], []])  # []: an explicit empty set = retry no method after it may have reached the server
    cfg["status_forcelist"] = rng.choice([[], [503], [503], [500, 503]])
    if rng.random() < 0.3:
        cfg["raise_on_status"] = False
    if rng.random() < 0.2:
        cfg["respect_retry_after_header"] = False
    cfg["backoff_factor"] = rng.choice([0, 0, 0.5, 100])
    if rng.random() < 0.5:
        cfg["backoff_max"] = rng.choice([1, 1, 0, 0.0, 0.3, 7])  # 0: "never sleep between attempts" is a legal cap
    if rng.random() < 0.3:
        cfg["backoff_jitter"] = rng.choice([0.3, 5.0])
    return cfg


def run_shard(ctx: Ctx, rec: Recorder) -> None:
    rng = ctx.rng
    # (i) small-integer lattice, exhaustive over short sequences for the direct pool
    base_alpha = ["refused", "rtimeout", "reset", "ssl", "503", "200", "429ra"]
    idx = 0
    import itertools

    L = ctx.pick(3, 4)
    lattice = []
    for total in (None, 0, 1, 2, False):
        for cat, val in ((None, None), ("connect", 0), ("connect", 1), ("read", 0), ("read", 1), ("status", 0), ("status", 1), ("other", 0), ("other", 1)):
            cfg: dict[str, typing.Any] = {"total": total, "status_forcelist": [503], "allowed_methods": "default"}
            if cat:
                cfg[cat] = val
            lattice.append(cfg)
    stride = ctx.pick(9, 1)
    for cfg in lattice:
        for n in range(1, L + 1):
            for seq in itertools.product(base_alpha, repeat=n):
                idx += 1
                if not ctx.mine(idx) or ctx.skip(idx, stride):
                    continue
                if cfg["total"] is None and all(s != "200" for s in seq) and cfg.get("connect") is None and cfg.get("read") is None:
                    pass  # unbounded by design; the script ends with a default 200 anyway
                for method in ("GET", "POST"):
                    rec.case(["lat", cfg, list(seq), method])
                    run_case(rec, "direct", method, cfg, None, list(seq))
    rec.exhaustive_parts.append(f"Retry lattice ({len(lattice)} configs: total in None/0/1/2/False x one category budget in 0/1) x outcome sequences of length<={L} over {base_alpha} x GET/POST on the direct pool, strided 1/{stride}")
    # (i-b) the same client used before with another plain per-request policy, then a request that hits an error
    wi = 0
    for pooltype in ("direct", "forward"):
        for w in (0, False, 1, True, 2, "unset"):
            for pol in (0, False, 1, True, 3):
                for seq in (["reset"], ["refused"], ["reset", "200"], ["503"], ["rtimeout", "rtimeout", "200"]):
                    for method in ("GET", "POST"):
                        wi += 1
                        if not ctx.mine(wi) or repr(w) == repr(pol):
                            continue
                        rec.case(["warm", pooltype, w, pol, seq, method])
                        run_case(rec, pooltype, method, pol, None, list(seq), warmup=[w])
    run_redirect_budgets(ctx, rec)
    # (ii) random configurations, placements, pool types, longer sequences
    n_rand = ctx.pick(9000, 250000)
    for i in range(n_rand):
        if ctx.out_of_time(0.9):
            rec.count("random_cut_short_by_budget")
            break
        stratum = "ra500" if rng.random() < 0.03 else "main"
        alpha = OUTCOMES  # '500ra' (Retry-After on a status that is not 413/429/503) appears everywhere
        seq = [rng.choice(alpha) for _ in range(rng.randint(1, 5))]
        if stratum == "ra500":
            seq[rng.randrange(len(seq))] = "500ra"
        placement = rng.choice(["request", "pool", "both", "neither"])
        req_cfg = random_cfg(rng, stratum) if placement in ("request", "both") else None
        pool_cfg = random_cfg(rng, stratum) if placement in ("pool", "both") else None
        if stratum == "ra500":
            c = {"total": 3, "status_forcelist": [500, 503], "backoff_factor": 0.5, "backoff_max": 1, "allowed_methods": "none"}
            req_cfg, pool_cfg = c, None
        pooltype = rng.choice(["direct", "direct", "forward", "tunnel"])
        method = rng.choice(["GET", "GET", "POST", "PUT", "get", "DELETE", "post"])
        rec.case(["rand", pooltype, method, req_cfg, pool_cfg, seq])
        run_case(rec, pooltype, method, req_cfg, pool_cfg, seq)


def replay(case: dict[str, typing.Any], ctx: Ctx, rec: Recorder) -> None:
    rec.case(case)
    run_case(rec, case["pool"], case["method"], case["request_retries"], case["pool_retries"], case["seq"], case.get("warmup"))
