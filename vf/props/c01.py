"""C01 — a pool never loses, duplicates or leaks connection slots, whatever the outcome.

Monitor: histories of requests with per-attempt scripted outcomes (faults at connect / send / receive,
BaseException injection, statuses) and every way of disposing of the response run on a real pool over the
in-memory network; at each quiescent point a sequential slot model is compared with the pool's queue and
with the life-cycle of every socket ever created."""
from __future__ import annotations

import typing

from vf import netsim
from vf.core import Ctx, Recorder

CONNECT_F = [{"k": "connect", "err": e} for e in ("ECONNREFUSED", "timeout", "EHOSTUNREACH", "KeyboardInterrupt", "base")]
SEND_F = [{"k": "send", "err": e, "at": at} for e in ("EPIPE", "ECONNRESET", "EIO", "KeyboardInterrupt", "base") for at in (0, 1)]
CHECKOUT_F = [{"k": "checkout", "err": e} for e in ("KeyboardInterrupt", "base", "EIO")]
RECV_F = [{"k": "recv", "err": e} for e in ("timeout", "reset", "eof", "garbage", "ssl", "KeyboardInterrupt", "SystemExit", "base")]
RESP = [
    {"k": "resp", "status": 200, "body": "hello-body-0123456789"},
    {"k": "resp", "status": 200, "body": "closing", "keepalive": False},
    {"k": "resp", "status": 200, "body": "chunked-body-abcdefgh", "framing": "chunked", "chunk_sizes": [5, 3]},
    {"k": "resp", "status": 200, "body": "until-close", "framing": "close"},
    {"k": "resp", "status": 200, "body": "short-body-xxxxxxxxxxxx", "short": 4},
    {"k": "resp", "status": 200, "body": "fault-in-body-yyyyyyyy", "body_fault": [5, "ECONNRESET"]},
    {"k": "resp", "status": 200, "body": "fault-in-body-zzzzzzzz", "body_fault": [5, "KeyboardInterrupt"]},
    {"k": "resp", "status": 200, "body": "fault-in-body-wwwwwwww", "body_fault": [5, "timeout"]},
    {"k": "resp", "status": 200, "body": "fault-in-body-vvvvvvvv", "body_fault": [3, "base"]},
    {"k": "resp", "status": 200, "body": "fault-in-closing-body-1", "keepalive": False, "body_fault": [5, "ECONNRESET"]},
    {"k": "resp", "status": 200, "body": "fault-in-closing-body-2", "keepalive": False, "body_fault": [5, "timeout"]},
    {"k": "resp", "status": 200, "body": "fault-until-close-body-3", "framing": "close", "body_fault": [5, "timeout"]},
    {"k": "resp", "status": 200, "body": "fault-until-close-body-4", "framing": "close", "body_fault": [4, "ssl"]},
    {"k": "resp", "status": 200, "body": "fault-in-chunked-body-5", "framing": "chunked", "chunk_sizes": [4, 4], "body_fault": [6, "timeout"]},
    {"k": "resp", "status": 204, "body": ""},
    {"k": "resp", "status": 200, "headers": [["Content-Encoding", "gzip"]], "body": "announced-gzip-but-plain-text-0123456789"},
    {"k": "resp", "status": 200, "headers": [["Content-Encoding", "deflate"]], "body": "announced-deflate-but-plain-text-012345", "keepalive": False},
    {"k": "resp", "status": 302, "headers": [["Location", "/next"]], "body": "moved"},
    {"k": "resp", "status": 303, "headers": [["Location", "/next"]], "body": "moved", "keepalive": False},
    {"k": "resp", "status": 307, "headers": [["Location", "/next"]], "body": "moved"},
    {"k": "resp", "status": 302, "headers": [["Location", "/next"]], "body": ""},
    {"k": "resp", "status": 307, "headers": [["Location", "/next"]], "body": "", "keepalive": False},
    {"k": "resp", "status": 503, "body": ""},
    {"k": "resp", "status": 503, "body": "busy"},
    {"k": "resp", "status": 503, "body": "busy-close", "keepalive": False},
    {"k": "resp", "status": 429, "headers": [["Retry-After", "1"]], "body": "slow"},
    {"k": "resp", "status": 500, "body": "err"},
]
ALL_OUTCOMES = CONNECT_F + SEND_F + RECV_F + RESP + CHECKOUT_F
DISPOSALS = ["read", "read-part-release", "release-unread", "drain", "close", "stream", "read1-loop", "context", "data", "read-part-close", "drain-release", "read1-exact", "readinto-exact"]
RETRIES = [False, 0, 1, 3, {"total": 3, "status_forcelist": [503]}, {"total": None, "connect": 1, "read": 1, "status": 1, "other": 1, "redirect": 2, "status_forcelist": [503]}]
BASE_NAMES = ("KeyboardInterrupt", "SystemExit", "InjectedBase", "GeneratorExit")


def make_body(kind: str | None, method: str) -> typing.Any:
    """Request bodies: None / bytes, or a file-like object whose position cannot be recorded or cannot be restored (a pipe,
    a socket file): its second hop must fail with UnrewindableBodyError *and leave the pool alone*."""
    import io

    if kind is None:
        return b"data" if method == "POST" else None

    class TellFails(io.BytesIO):
        def tell(self) -> int:
            raise OSError("underlying stream is not seekable")

    class SeekFails(io.BytesIO):
        def seek(self, *a: typing.Any) -> int:
            raise OSError("Illegal seek")

    return {"tell-fails": TellFails, "seek-fails": SeekFails}[kind](b"file-body-0123456789")


def build_retries(r: typing.Any) -> typing.Any:
    from urllib3.util import Retry

    return Retry(**r) if isinstance(r, dict) else r


CLOSING = ("close", "read-part-close")


def dispose(resp: typing.Any, how: str, owner_must_release: bool = False) -> None:
    # (owner_must_release is kept for replay files of earlier runs; a response that was read, released or closed is
    # disposed of - also a preloaded one handed out with release_conn=False, as urlopen()'s docstring says)
    _dispose(resp, how)


def _dispose(resp: typing.Any, how: str) -> None:
    if how == "read":
        resp.read()
    elif how == "data":
        _ = resp.data  # read to the end: nothing else is needed, also for a preloaded body with release_conn=False
    elif how == "read-part-release":
        resp.read(3)
        resp.release_conn()
    elif how == "release-unread":
        resp.release_conn()
    elif how == "drain":
        resp.drain_conn()
    elif how == "drain-release":
        resp.drain_conn()
        resp.release_conn()
    elif how == "close":
        resp.close()
    elif how == "read-part-close":
        resp.read(2)
        resp.close()
    elif how == "stream":
        for _ in resp.stream(4):
            pass
    elif how == "read1-loop":
        while resp.read1(5):
            pass
    elif how == "read1-exact":
        # read1() until exactly the announced length has arrived, then stop: no further (empty) read, no release_conn()
        # (at least one call: a response is only known to be empty once it was read)
        if resp.length_remaining is None:
            while resp.read1(5):
                pass
        else:
            resp.read1(5)
            while resp.length_remaining:
                if not resp.read1(5):
                    break
    elif how == "readinto-exact":
        buf = bytearray(7)
        if resp.length_remaining is None:
            while resp.readinto(buf):
                pass
        else:
            resp.readinto(buf)
            while resp.length_remaining:
                if not resp.readinto(buf):
                    break
    elif how == "context":
        if resp.closed:  # io semantics: entering a closed file object raises ValueError (body-less responses are born closed)
            resp.release_conn()
        else:
            with resp:
                resp.read(1)
    else:
        raise ValueError(how)


def queue_items(pool: typing.Any) -> list[typing.Any] | None:
    q = pool.pool
    if q is None:
        return None
    return list(getattr(q, "queue", []))


def run_case(rec: Recorder, case: dict[str, typing.Any]) -> None:
    import urllib3
    from urllib3.exceptions import EmptyPoolError, HTTPError

    cfg = case["cfg"]
    script = netsim.AttemptScript([o for req in case["requests"] for o in req["attempts"]])
    injected_bases: list[BaseException] = []
    # make injected BaseExceptions identifiable: netsim.make_exc creates fresh objects, so wrap it
    real_make = netsim.make_exc

    def tracking_make(name: str) -> BaseException:
        e = real_make(name)
        if not isinstance(e, Exception):
            injected_bases.append(e)
        return e

    netsim.make_exc = tracking_make  # type: ignore[assignment]
    held: list[tuple[typing.Any, str]] = []  # undisposed responses
    try:
        with netsim.Net(script, deep_dial=bool(cfg.get("deep")), addresses_per_name=cfg.get("deep") or 1) as net:
            kw = dict(maxsize=cfg["maxsize"], block=cfg["block"], retries=build_retries(cfg["retries"]))
            if cfg["kind"] == "direct":
                pool: typing.Any = urllib3.HTTPConnectionPool("o.test", 80, **kw)
                url = "/x"
                opener = pool
            else:
                pm = urllib3.ProxyManager("http://proxy.test:3128", **kw)
                url = "http://o.test/x" if cfg["kind"] == "forward" else "https://o.test/x"
                pool = pm.connection_from_url(url)
                opener = pm
            N = cfg["maxsize"]
            served_by: dict[int, int] = {}
            # release_conn=True with preload_content=False: the caller hands the connection back before reading the
            # body; sockets still feeding such responses are outside the pool's control (documented caller contract)
            disposed_refs: list[typing.Any] = []  # disposed response objects the "caller" still references
            disposed_info: dict[int, dict[str, typing.Any]] = {}
            early_release = (cfg["release_conn"] is True) and not cfg["preload"]
            held_ever_streaming = True

            def note_disposed(r: typing.Any, how: str) -> None:
                disposed_refs.append(r)
                idx = served_by.get(id(r))
                if idx is not None:
                    orig = getattr(r, "_original_response", None)
                    disposed_info[idx] = {"disposal": how, "will_close": bool(getattr(orig, "will_close", False)), "status": getattr(r, "status", None)}

            def quiescent_checks(where: str) -> bool:
                rec.mon("quiescent_point")
                items = queue_items(pool)
                if items is None:
                    rec.fail(case, "pool-became-none", {"where": where}, "pool.pool is None")
                    return False
                live = [c for c in items if c is not None]
                n_held = sum(1 for r, _ in held if getattr(r, "_connection", None) is not None)
                obs = {"where": where, "qsize": len(items), "maxsize": N, "held": len(held), "block": cfg["block"], "kind": cfg["kind"], "preload": cfg["preload"], "release_conn": cfg["release_conn"], "history": case["shape"]}
                if len(set(map(id, live))) != len(live):
                    rec.fail(case, "connection-twice-in-pool", obs, "the same connection object is queued twice")
                    return False
                if len(items) > N:
                    rec.fail(case, "more-slots-than-maxsize", obs, f"qsize {len(items)} > maxsize {N}")
                    return False
                if not held and len(items) != N:
                    rec.fail(case, "slot-count-wrong-at-quiescence", dict(obs, missing=N - len(items)), f"all responses disposed but the pool offers {len(items)} of {N} slots")
                    return False
                if cfg["block"] and len(items) + n_held > N:
                    rec.fail(case, "more-slots-than-maxsize", dict(obs, leased=n_held, phantom=len(items) + n_held - N), f"{len(items)} queued + {n_held} leased > maxsize {N} on a block=True pool")
                    return False
                if cfg["block"] and held and len(items) + len(held) < N:
                    rec.fail(case, "slot-lost-while-leased", dict(obs, missing=N - len(items) - len(held)), f"{len(items)} queued + {len(held)} leased < {N}")
                    return False
                # every open socket is idle in the pool or owned by an undisposed response
                owned = {id(getattr(c, "sock", None)) for c in live}
                for r, _ in held:
                    c = getattr(r, "_connection", None)
                    if c is not None:
                        owned.add(id(getattr(c, "sock", None)))
                    # a 'Connection: close' response keeps its socket through the response's file object only
                    if id(r) in served_by:
                        owned.add(id(net.socks[served_by[id(r)]]))
                strays = [st.index for st in net.open_states() if id(net.socks[st.index]) not in owned]
                if any(i in net.checkout_fault_socks for i in strays):
                    # a fault inside the pool's checkout (outside the connect/send/receive steps of the quantifier) drops
                    # the connection object it was probing; only slot conservation is judged for those
                    rec.count("socket_dropped_by_fault_inside_checkout")
                    strays = [i for i in strays if i not in net.checkout_fault_socks]
                if strays and early_release and held_ever_streaming:
                    rec.count("stray_socket_skipped_caller_released_early")
                    strays = []
                if strays:
                    # does the socket only live through a disposed response object that is still referenced?
                    info = [dict(disposed_info.get(i, {})) for i in strays]
                    disposed_refs.clear()
                    still = [st.index for st in net.open_states() if st.index in strays]
                    rec.fail(case, "socket-open-outside-pool", dict(obs, sockets=strays, closed_when_response_object_dropped=not still, served=info), f"socket(s) {strays} are open but neither idle in the pool nor leased (closed once the disposed response objects are dropped: {not still})")
                    return False
                return True

            marks = {"raised": 0}
            for ri, req in enumerate(case["requests"]):
                resp = None
                exc: BaseException | None = None
                nbase = len(injected_bases)
                try:
                    if req.get("bad_arg"):
                        # a call that is rejected for its arguments before anything is checked out must leave the pool alone
                        rec.mon("rejected_call")
                        try:
                            opener.urlopen(req["method"], url, **{"timeout": {"timeout": 0}, "pool_timeout": {"pool_timeout": -1}, "timeout-bool": {"timeout": True}}[req["bad_arg"]])
                            rec.count("bad_argument_accepted")
                        except (ValueError, HTTPError):
                            pass
                        if not quiescent_checks(f"after rejected call {ri}"):
                            return
                        continue
                    if req.get("body") == "nested-call":
                        # the upload's body iterator fetches something through the same pool (piping a download into an
                        # upload): on a blocking pool without a free slot the inner call fails with EmptyPoolError, which
                        # then passes through the outer call - that call did check a connection out
                        def piping_body(opener: typing.Any = opener, url: str = url) -> typing.Iterator[bytes]:
                            yield b"first part"
                            inner = opener.urlopen("GET", url, pool_timeout=0.001, retries=False)
                            yield bytes(inner.data)

                        body_obj: typing.Any = piping_body()
                    else:
                        body_obj = make_body(req.get("body"), req["method"])
                    resp = opener.urlopen(req["method"], url, body=body_obj, preload_content=cfg["preload"] and not req.get("stream"), release_conn=cfg["release_conn"], pool_timeout=0.001, **({"retries": build_retries(req["retries"])} if "retries" in req else {}))
                except BaseException as e:  # noqa: BLE001
                    exc = e
                rec.mon("request")
                shape = {"request": ri, "exc": type(exc).__name__ if exc else None}
                if not interrupts_ok(rec, case, net, marks, exc, f"urlopen #{ri}"):
                    return
                if exc is not None:
                    if isinstance(exc, Exception):
                        if not isinstance(exc, HTTPError):
                            rec.fail(case, "non-urllib3-exception", dict(shape, msg=str(exc)[:100], during="urlopen"), f"urlopen raised {type(exc).__name__}: {exc!s:.120}")
                            return
                        rec.mon("starvation")
                        leased = sum(1 for r, _ in held if getattr(r, "_connection", None) is not None)
                        if isinstance(exc, EmptyPoolError) and cfg["block"] and leased < N and req.get("body") != "nested-call":
                            # single-threaded history: a request can only find the pool empty when every slot is leased to a
                            # response the caller still holds; otherwise the call starved itself (held a slot and asked again)
                            rec.fail(case, "request-starved-although-slots-free", dict(shape, leased=leased, maxsize=N, preload=cfg["preload"], release_conn=cfg["release_conn"]), f"EmptyPoolError with {leased} of {N} slots leased to the caller")
                            return
                    else:
                        rec.mon("interrupt_identity")
                        if not any(exc is b for b in injected_bases[nbase:] + injected_bases):
                            rec.fail(case, "interrupt-not-propagated-unchanged", dict(shape, during="urlopen"), f"urlopen raised {type(exc).__name__} which is not the injected object")
                            return
                else:
                    if len(injected_bases) > nbase and not any(True for _ in ()):
                        # an interrupt was injected during this call and the call returned normally: swallowed
                        # (only if it was raised at all: an outcome consumed as not applicable never raises)
                        raised = [ev for ev in net.events if ev[1] in ("recv-fault", "send-fault") and ev[-1] in BASE_NAMES]
                        dial_base = [d for d in net.dials if d.get("outcome") in BASE_NAMES]
                        if (raised or dial_base) and req.get("_expect_propagation", True):
                            # the interrupt may legitimately surface later (while the body is read); remember
                            pass
                if resp is not None:
                    held.append((resp, req["disposal"]))
                    last_req = next((ev for ev in reversed(net.events) if ev[1] == "request"), None)
                    if last_req is not None:
                        served_by[id(resp)] = last_req[2]
                if not quiescent_checks(f"after request {ri}"):
                    return
                if req["dispose_when"] == "now" and resp is not None:
                    note_disposed(resp, req["disposal"])
                    if not dispose_and_check(rec, case, net, held, resp, req["disposal"], injected_bases, ri, marks):
                        return
                    if not quiescent_checks(f"after disposing response {ri}"):
                        return
            # late disposals, in reverse order of acquisition
            for resp, how in list(reversed(held)):
                note_disposed(resp, how)
                if not dispose_and_check(rec, case, net, held, resp, how, injected_bases, -1, marks):
                    return
            resp = None
            if not quiescent_checks("final"):
                return
            # with block=True never more than maxsize sockets were open at once
            rec.mon("open_socket_bound")
            if cfg["block"] and not early_release:
                worst = max([d["open_before"] + 1 for d in net.dials if d.get("outcome") == "ok"] or [0])
                if worst > N:
                    rec.fail(case, "more-than-maxsize-open", {"max_open": worst, "maxsize": N, "kind": cfg["kind"]}, f"{worst} sockets open at once on a block=True pool of {N}")
                    return
            # public-behaviour form of the slot count
            if cfg["block"] and cfg["kind"] == "direct" and case.get("lease_probe"):
                script.outcomes = script.outcomes[: script.ai]  # whatever was not consumed must not hit the probe
                try:
                    lease_probe(rec, case, pool, N)
                except Exception as e:  # noqa: BLE001
                    rec.fail(case, "lease-probe-exception", {"exc": type(e).__name__}, repr(e))
    finally:
        netsim.make_exc = real_make  # type: ignore[assignment]


def interrupts_ok(rec: Recorder, case: dict[str, typing.Any], net: netsim.Net, marks: dict[str, int], exc: BaseException | None, where: str) -> bool:
    """Every non-Exception BaseException the network raised into urllib3 during this call must come out of the call
    as the identical object (the first one raised, since it aborts the call)."""
    new = net.raised[marks["raised"] :]
    marks["raised"] = len(net.raised)
    bases = [e for e in new if not isinstance(e, Exception)]
    if not bases:
        return True
    rec.mon("interrupt_identity")
    if exc is not bases[0] and not any(exc is b for b in bases):
        rec.fail(case, "interrupt-swallowed-or-changed", {"where": where.split(" ")[0], "injected": type(bases[0]).__name__, "surfaced": type(exc).__name__ if exc else None}, f"{where}: {type(bases[0]).__name__} was raised into urllib3 but the call {'raised ' + type(exc).__name__ if exc else 'returned normally'}")
        return False
    return True


def dispose_and_check(rec: Recorder, case: dict[str, typing.Any], net: netsim.Net, held: list[tuple[typing.Any, str]], resp: typing.Any, how: str, injected: list[BaseException], ri: int, marks: dict[str, int] | None = None) -> bool:
    from urllib3.exceptions import HTTPError

    exc = None
    try:
        dispose(resp, how, owner_must_release=bool(case["cfg"]["preload"] and case["cfg"]["release_conn"] is False))
    except BaseException as e:  # noqa: BLE001
        exc = e
    if marks is not None and not interrupts_ok(rec, case, net, marks, exc, f"disposal {how}"):
        return False
    rec.mon("disposal")
    rec.seen("disposals", how)
    held[:] = [(r, h) for r, h in held if r is not resp]
    if exc is not None:
        if isinstance(exc, Exception):
            if not isinstance(exc, HTTPError):
                rec.fail(case, "non-urllib3-exception", {"request": ri, "exc": type(exc).__name__, "during": "disposal:" + how, "msg": str(exc)[:100]}, f"{how} raised {type(exc).__name__}: {exc!s:.120}")
                return False
        elif not any(exc is b for b in injected):
            rec.fail(case, "interrupt-not-propagated-unchanged", {"request": ri, "during": "disposal:" + how}, f"{how} raised {type(exc).__name__} which is not the injected object")
            return False
        # after a failed read the caller still disposes of the response (as any careful caller does): by
        # release_conn() or by close(), alternating with the request index and the disposal
        after = case.get("after_error") or ("close" if (ri + len(how)) % 2 else "release")
        rec.seen("after_error_disposals", after)
        try:
            resp.close() if after == "close" else resp.release_conn()
        except Exception as e2:  # noqa: BLE001
            rec.fail(case, "release-after-error-raised", {"request": ri, "exc": type(e2).__name__}, repr(e2))
            return False
    return True


def lease_probe(rec: Recorder, case: dict[str, typing.Any], pool: typing.Any, N: int) -> None:
    """N streaming leases succeed, lease N+1 raises EmptyPoolError; after disposing one, exactly one more succeeds."""
    from urllib3.exceptions import EmptyPoolError

    rec.mon("lease_probe")
    leases = []
    try:
        for i in range(N):
            leases.append(pool.urlopen("GET", "/lease", preload_content=False, retries=2, pool_timeout=0.001))
    except EmptyPoolError:
        rec.fail(case, "fewer-than-maxsize-leases", {"got": len(leases), "maxsize": N}, f"only {len(leases)} of {N} leases could be taken after quiescence")
        return
    except Exception as e:  # noqa: BLE001
        rec.fail(case, "lease-probe-exception", {"exc": type(e).__name__}, repr(e))
        return
    try:
        extra = pool.urlopen("GET", "/lease", preload_content=False, retries=2, pool_timeout=0.001)
        rec.fail(case, "more-than-maxsize-leases", {"maxsize": N}, f"lease {N+1} succeeded on a block=True pool of {N}")
        extra.release_conn()
    except EmptyPoolError:
        pass
    leases[0].read()
    leases[0].release_conn()
    try:
        again = pool.urlopen("GET", "/lease", preload_content=False, retries=2, pool_timeout=0.001)
        again.read()
        again.release_conn()
    except EmptyPoolError:
        rec.fail(case, "slot-not-returned-after-release", {"maxsize": N}, "after disposing one lease no slot was available")
    for r in leases[1:]:
        r.read()
        r.release_conn()


def random_request(rng: typing.Any, first_fault_only: bool = False) -> dict[str, typing.Any]:
    n_att = rng.choice([1, 1, 2, 2, 3])
    attempts = []
    for i in range(n_att):
        r = rng.random()
        if r < 0.05:
            attempts.append(dict(rng.choice(CHECKOUT_F)))
        elif r < 0.15:
            attempts.append(dict(rng.choice(CONNECT_F)))
        elif r < 0.3:
            attempts.append(dict(rng.choice(SEND_F)))
        elif r < 0.5:
            attempts.append(dict(rng.choice(RECV_F)))
        else:
            attempts.append(dict(rng.choice(RESP)))
    req = {"method": rng.choice(["GET", "GET", "POST"]), "attempts": attempts, "disposal": rng.choice(DISPOSALS), "dispose_when": rng.choice(["now", "now", "late"])}
    if rng.random() < 0.08:
        req.update(method="PUT", body=rng.choice(["tell-fails", "seek-fails"]))
    if rng.random() < 0.06:
        return {"method": "GET", "attempts": [], "disposal": "read", "dispose_when": "now", "bad_arg": rng.choice(["timeout", "pool_timeout", "timeout-bool"])}
    if rng.random() < 0.2:
        req["retries"] = rng.choice(RETRIES)
    return req


def random_case(rng: typing.Any) -> dict[str, typing.Any]:
    cfg = {"kind": rng.choice(["direct", "direct", "forward", "tunnel"]), "maxsize": rng.choice([1, 1, 2, 3]), "block": rng.random() < 0.6, "retries": rng.choice(RETRIES), "preload": rng.random() < 0.5, "release_conn": rng.choice([None, None, True, False])}
    if rng.random() < 0.3:
        # urllib3's own create_connection runs (scripted getaddrinfo / socket constructor), the name has 1-3 addresses
        cfg["deep"] = rng.choice([1, 2, 2, 3])
    reqs = [random_request(rng) for _ in range(rng.choice([1, 2, 2, 3]))]
    return {"cfg": cfg, "requests": reqs, "shape": "random", "lease_probe": rng.random() < 0.3}


def run_shard(ctx: Ctx, rec: Recorder) -> None:
    rng = ctx.rng
    idx = 0
    # (i) single-fault enumeration: every outcome as the first attempt x configuration x disposal
    stride = ctx.pick(5, 1)
    for kind in ("direct", "forward", "tunnel"):
        for maxsize in (1, 2):
            for block in (True, False):
                for retries in (False, 0, 1, {"total": 3, "status_forcelist": [503]}):
                    for preload in (True, False):
                        for release in (None, True, False):
                            for oi, o in enumerate(ALL_OUTCOMES):
                                for disposal in DISPOSALS if not preload else ("data", "close", "release-unread"):
                                    idx += 1
                                    if not ctx.mine(idx) or ctx.skip(idx, stride):
                                        continue
                                    cfg = {"kind": kind, "maxsize": maxsize, "block": block, "retries": retries, "preload": preload, "release_conn": release}
                                    case = {"cfg": cfg, "requests": [{"method": "POST" if oi % 3 == 0 else "GET", "attempts": [dict(o)], "disposal": disposal, "dispose_when": "now"}, {"method": "GET", "attempts": [], "disposal": "read", "dispose_when": "now"}], "shape": "single-fault", "lease_probe": (not ctx.skip(idx, 4))}
                                    rec.case(["single", cfg, oi, disposal])
                                    run_case(rec, case)
                                    rec.seen("fault_points", f"{o['k']}:{o.get('err', o.get('status'))}:{o.get('at', '')}:{'bodyfault' if 'body_fault' in o else ''}")
    # (i-b) connect-step outcomes through urllib3's own create_connection with 1 and 2 addresses per name
    for kind in ("direct", "forward"):
        for deep in (1, 2):
            for block in (True, False):
                for retries in (False, 1):
                    for preload in (True, False):
                        for oi, o in enumerate(CONNECT_F):
                            for second in (None, {"k": "connect", "err": "ECONNREFUSED"}, {"k": "connect", "err": "KeyboardInterrupt"}):
                                idx += 1
                                if not ctx.mine(idx):
                                    continue
                                cfg = {"kind": kind, "maxsize": 1, "block": block, "retries": retries, "preload": preload, "release_conn": None, "deep": deep}
                                attempts = [dict(o)] + ([dict(second)] if second else [])
                                case = {"cfg": cfg, "requests": [{"method": "GET", "attempts": attempts, "disposal": "data" if preload else "read", "dispose_when": "now"}, {"method": "GET", "attempts": [], "disposal": "data" if preload else "read", "dispose_when": "now"}], "shape": "deep-dial", "lease_probe": False}
                                rec.case(["deep", cfg, oi, second])
                                rec.mon("deep_dial_case")
                                run_case(rec, case)
    # (i-c) a call rejected for its arguments while another response is still leased
    for kind in ("direct", "forward"):
        for maxsize in (1, 2):
            for block in (True, False):
                for bad in ("timeout", "pool_timeout", "timeout-bool"):
                    for nleased in (0, 1, 2):
                        idx += 1
                        if not ctx.mine(idx):
                            continue
                        cfg = {"kind": kind, "maxsize": maxsize, "block": block, "retries": False, "preload": False, "release_conn": None}
                        reqs = [{"method": "GET", "attempts": [{"k": "resp", "status": 200, "body": "leased-body-0123456789"}], "disposal": "read", "dispose_when": "late"} for _ in range(min(nleased, maxsize))]
                        reqs += [{"method": "GET", "attempts": [], "disposal": "read", "dispose_when": "now", "bad_arg": bad}, {"method": "GET", "attempts": [], "disposal": "read", "dispose_when": "now"}] if nleased < maxsize or not block else [{"method": "GET", "attempts": [], "disposal": "read", "dispose_when": "now", "bad_arg": bad}]
                        case = {"cfg": cfg, "requests": reqs, "shape": "rejected-call", "lease_probe": False}
                        rec.case(["rejected-call", cfg, bad, nleased])
                        run_case(rec, case)
    # (i-d) a file-like body that cannot be rewound takes a second hop (redirect, status retry, connection-error retry)
    # while other responses are still leased: the refusal of the second hop must not touch the pool's slots
    second_hops = [[{"k": "resp", "status": 307, "headers": [["Location", "/next"]], "body": ""}], [{"k": "resp", "status": 503, "body": "busy"}], [{"k": "recv", "err": "reset"}], [{"k": "send", "err": "EPIPE", "at": 0}], [{"k": "connect", "err": "ECONNREFUSED"}]]
    for kind in ("direct", "forward"):
        for maxsize in (1, 2):
            for block in (True, False):
                for bodykind in ("tell-fails", "seek-fails"):
                    for hi, hop in enumerate(second_hops):
                        for nleased in (0, 1, 2):
                            idx += 1
                            if not ctx.mine(idx) or (block and nleased >= maxsize) or nleased > maxsize:
                                continue
                            cfg = {"kind": kind, "maxsize": maxsize, "block": block, "retries": {"total": 3, "status_forcelist": [503], "allowed_methods": None}, "preload": False, "release_conn": None}
                            reqs = [{"method": "GET", "attempts": [{"k": "resp", "status": 200, "body": "leased-body-0123456789"}], "disposal": "read", "dispose_when": "late"} for _ in range(nleased)]
                            reqs += [{"method": "PUT", "body": bodykind, "attempts": [dict(o) for o in hop], "disposal": "read", "dispose_when": "now"}, {"method": "GET", "attempts": [], "disposal": "read", "dispose_when": "now"}]
                            case = {"cfg": cfg, "requests": reqs, "shape": "unrewindable-second-hop", "lease_probe": False}
                            rec.case(["unrewindable-second-hop", cfg, bodykind, hi, nleased])
                            rec.mon("unrewindable_second_hop")
                            run_case(rec, case)
    # (i-e) a body iterator that makes a request of its own through the same pool
    for kind in ("direct", "forward"):
        for maxsize in (1, 2):
            for block in (True, False):
                for nleased in (0, 1):
                    for retries in (False, 1):
                        idx += 1
                        if not ctx.mine(idx) or (block and nleased >= maxsize):
                            continue
                        cfg = {"kind": kind, "maxsize": maxsize, "block": block, "retries": retries, "preload": True, "release_conn": None}
                        reqs = [{"method": "GET", "attempts": [{"k": "resp", "status": 200, "body": "leased-body-0123456789"}], "disposal": "read", "dispose_when": "late", "stream": True} for _ in range(nleased)]
                        reqs += [{"method": "PUT", "body": "nested-call", "attempts": [], "disposal": "data", "dispose_when": "now"}, {"method": "GET", "attempts": [], "disposal": "data", "dispose_when": "now"}]
                        case = {"cfg": cfg, "requests": reqs, "shape": "nested-call-in-body", "lease_probe": False}
                        rec.case(["nested-call", cfg, nleased])
                        rec.mon("nested_call_in_body")
                        run_case(rec, case)
    rec.exhaustive_parts.append(f"single-outcome histories: {len(ALL_OUTCOMES)} outcomes x 3 pool kinds x maxsize 1/2 x block x 4 retry policies x preload x release_conn x disposals, strided 1/{stride}")
    # (ii) random histories of 1-3 requests with 1-3 attempts each, overlapping leases
    n = ctx.pick(6000, 250000)
    for i in range(n):
        if ctx.out_of_time(0.9):
            rec.count("random_cut_short_by_budget")
            break
        case = random_case(rng)
        rec.case(["rand", case])
        if i < 2:
            rec.sample(case)
        run_case(rec, case)


def replay(case: dict[str, typing.Any], ctx: Ctx, rec: Recorder) -> None:
    rec.case(case)
    run_case(rec, case)
