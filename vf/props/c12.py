"""C12 — every way of reading a response yields the same bytes.

Monitor: real HTTPResponse objects (from HTTPConnection.getresponse() over the in-memory network with
controlled segmentation) are read with generated call sequences; the concatenation of the returned
pieces and the per-call size rules are compared with the payload the generator encoded."""
from __future__ import annotations

import itertools
import typing

from vf import respgen, wire
from vf.core import Ctx, Recorder
from vf.respgen import Spec

NS = [1, 2, 3, 7, 64, 1000]
FAMILY_HTTPLIB = {"read", "readn", "read1n", "read1", "readinto", "read0"}
FAMILY_CHUNKPARSER = {"stream", "read_chunked", "iter"}


def op_alphabet(chunked: bool, small: bool) -> list[list[typing.Any]]:
    ns = [1, 3, 7, 64] if small else NS
    ops: list[list[typing.Any]] = [["read"], ["read1"], ["read0"]]
    ops += [["readn", n] for n in ns] + [["read1n", n] for n in ns] + [["readinto", k] for k in ([1, 7, 64] if not small else [2, 64])]
    ops += [["stream", a, t] for a in ([1, 7, 64] if not small else [3, 64]) for t in (1, None)] + [["stream", None, 1]]
    ops += [["iter", None, 1], ["iter"]]
    if chunked:
        ops += [["read_chunked", a, t] for a in ([None, 1, 7, 64] if not small else [None, 5]) for t in (1, None)]
    return ops


def expected_family_mix(spec: Spec, ops: list[list[typing.Any]]) -> bool:
    if spec.framing != "chunked":
        return False
    fams = []
    for o in ops:
        f = "A" if o[0] in FAMILY_HTTPLIB and o[0] != "read0" else ("B" if o[0] in FAMILY_CHUNKPARSER else None)
        if f and (not fams or fams[-1] != f):
            fams.append(f)
    return len(fams) > 1


def run_case(rec: Recorder, spec: Spec, ops: list[list[typing.Any]], rng: typing.Any, preload: bool = False) -> None:
    head, body, enc, expected = respgen.build(spec)
    segs = respgen.segment(head + body, spec.seg, rng)
    case = {"spec": list(spec), "ops": ops, "preload": preload}
    net, conn, resp, err = respgen.open_response(spec, segs, close_after=(spec.framing == "close"), preload=preload)
    try:
        rec.mon("response")
        if err is not None:
            rec.fail(case, "exception-on-wellformed-response", {"exc": type(err).__name__, "during": "getresponse/preload", "mixed_families": False, "coding": spec.coding}, f"getresponse raised {err!r}")
            return
        if preload:
            rec.mon("preload_data")
            data = resp.data
            if data != expected:
                rec.fail(case, "preloaded-data-differs", {"got_len": len(data or b""), "want_len": len(expected), "coding": spec.coding}, f".data has {len(data or b'')} bytes, expected {len(expected)}")
            again = resp.data
            if again != data:
                rec.fail(case, "preloaded-data-unstable", {}, ".data changed between two accesses")
            tail = resp.read()
            if tail:
                rec.fail(case, "data-after-end", {"n": len(tail)}, "read() after preload returned data")
            return
        if not spec.decode:
            # __iter__ has no decode_content parameter (it always decodes): not usable in a decode_content=False sequence
            ops = [o for o in ops if o[0] != "iter"] or [["readn", 64]]
            case["ops"] = ops
        if spec.framing == "chunked":
            # one live chunk-parser generator per response: an interleaving resumes the SAME generator; opening a
            # second read_chunked()/stream()/iteration while one is suspended is two consumers of one parser state
            first = next((o for o in ops if o[0] in FAMILY_CHUNKPARSER), None)
            if first is not None:
                ops = [o if o[0] not in FAMILY_CHUNKPARSER else [first[0], first[1] if len(first) > 1 else None] + ([o[2]] if len(o) > 2 else []) for o in ops]
                case["ops"] = ops
        pieces, exc, problem = respgen.run_ops(resp, ops, spec.decode)
        mixed = expected_family_mix(spec, ops)
        obs_base = {"mixed_families": mixed, "coding": spec.coding, "framing": spec.framing, "decode": spec.decode, "ops": [o[0] for o in ops]}
        if exc is not None:
            rec.fail(case, "exception-on-wellformed-response", dict(obs_base, exc=type(exc).__name__, msg=str(exc)[:120], delivered=sum(len(p[2]) for p in pieces)), f"{type(exc).__name__}: {exc!s:.160} after {len(pieces)} pieces")
            return
        if problem:
            rec.fail(case, "drain-not-terminating", obs_base, problem)
            return
        got = b"".join(p[2] for p in pieces)
        rec.mon("concatenation")
        if got != expected:
            # describe the difference: loss / duplication / reordering
            first = next((i for i, (a, b) in enumerate(zip(got, expected)) if a != b), min(len(got), len(expected)))
            # which op preceded the first deviation
            acc, culprit, prev = 0, None, None
            for p in pieces:
                if acc + len(p[2]) > first or (acc == first and p[2] == b"" and False):
                    culprit = p[0]
                    break
                acc += len(p[2])
                if p[2]:
                    prev = p[0]
            rec.fail(case, "bytes-differ", dict(obs_base, got_len=len(got), want_len=len(expected), first_diff=first, at_op=culprit, prev_op=prev, missing=len(expected) - len(got)), f"delivered {len(got)} bytes, expected {len(expected)}; first difference at offset {first} (op {culprit}, previous data op {prev})")
            return
        # per-call rules
        rec.mon("size_rules")
        total = len(expected)
        acc = 0
        for i, (name, arg, data) in enumerate(pieces):
            acc += len(data)
            if name in ("readn", "read1n", "readinto") and arg is not None and len(data) > arg:
                rec.fail(case, "more-than-requested", dict(obs_base, op=name, n=arg, got=len(data)), f"{name}({arg}) returned {len(data)} bytes")
                return
            if name == "readn" and arg and len(data) < arg and acc < total:
                rec.fail(case, "short-read-before-end", dict(obs_base, op=name, n=arg, got=len(data), remaining=total - acc), f"read({arg}) returned {len(data)} bytes with {total - acc} still to come")
                return
            if name in ("stream", "read_chunked", "iter") and data == b"":
                rec.fail(case, "empty-piece-from-stream", dict(obs_base, op=name), f"{name} yielded an empty piece")
                return
            if name == "read0" and data != b"":
                rec.fail(case, "read0-returned-data", obs_base, "read(0) returned data")
                return
    finally:
        try:
            conn.close()
        except Exception:  # noqa: BLE001
            pass
        net.__exit__(None, None, None)


class PairServer:
    """Serves the response whose wire bytes are registered for the request path."""

    def __init__(self, by_path: dict[str, bytes]):
        self.by_path = by_path

    def on_request(self, net: typing.Any, sc: typing.Any, req: typing.Any) -> None:
        data = self.by_path[req.target.decode("latin-1")]
        n = max(1, len(data) // 5)
        sc.write_segmented([data[i : i + n] for i in range(0, len(data), n)])


def run_pair(rec: Recorder, spec_a: Spec, spec_b: Spec, amt_a: int, amt_b: int, b_preloaded: bool) -> None:
    """Two responses alive at once on one pool (two connections): reads alternate between them.  What one response
    delivers must not depend on another response being decoded in the meantime (shared decoder state)."""
    import urllib3

    from vf import netsim

    case = {"pair": [list(spec_a), list(spec_b)], "amts": [amt_a, amt_b], "b_preloaded": b_preloaded}
    ha, ba, _, exp_a = respgen.build(spec_a)
    hb, bb, _, exp_b = respgen.build(spec_b)
    rec.mon("interleaved_pair")
    with netsim.Net(PairServer({"/a": ha + ba, "/b": hb + bb})):
        pool = urllib3.HTTPConnectionPool("pair.test", 80, maxsize=2, retries=False)
        got_a, got_b = bytearray(), bytearray()
        try:
            ra = pool.urlopen("GET", "/a", preload_content=False, decode_content=spec_a.decode)
            got_a += ra.read(amt_a)
            if b_preloaded:
                rb = pool.urlopen("GET", "/b", decode_content=spec_b.decode)
                got_b += rb.data
            else:
                rb = pool.urlopen("GET", "/b", preload_content=False, decode_content=spec_b.decode)
            for _ in range(100000):
                pa = ra.read(amt_a)
                pb = b"" if b_preloaded else rb.read(amt_b)
                got_a += pa
                got_b += pb
                if not pa and not pb:
                    break
            ra.release_conn()
            rb.release_conn()
        except Exception as e:  # noqa: BLE001
            rec.fail(case, "exception-on-wellformed-response", {"exc": type(e).__name__, "msg": str(e)[:100], "mixed_families": False, "coding": [spec_a.coding, spec_b.coding], "pair": True, "framing": [spec_a.framing, spec_b.framing]}, f"interleaved reads of two responses: {type(e).__name__}: {e!s:.120}")
            pool.close()
            return
        pool.close()
    if bytes(got_a) != exp_a or bytes(got_b) != exp_b:
        which = "first" if bytes(got_a) != exp_a else "second"
        rec.fail(case, "bytes-differ", {"pair": True, "which": which, "mixed_families": False, "coding": [spec_a.coding, spec_b.coding], "framing": [spec_a.framing, spec_b.framing], "got_len": [len(got_a), len(got_b)], "want_len": [len(exp_a), len(exp_b)]}, f"interleaved reads: the {which} response's bytes differ from what the server sent")


class RetriedServer:
    """The first answer(s) are a dropped connection / a 503 / a 307 to the same path; then the prepared response."""

    def __init__(self, wire_bytes: bytes, first: list[str]):
        self.wire_bytes = wire_bytes
        self.first = list(first)

    def on_request(self, net: typing.Any, sc: typing.Any, req: typing.Any) -> None:
        if self.first:
            what = self.first.pop(0)
            if what == "drop":
                sc.reset()
            elif what == "503":
                sc.write(wire.build_response(503, "Busy", [("Retry-After", "0")], b"busy"))
            else:
                sc.write(wire.build_response(307, "Again", [("Location", req.target.decode("latin-1"))], b""))
            return
        n = max(1, len(self.wire_bytes) // 4)
        sc.write_segmented([self.wire_bytes[i : i + n] for i in range(0, len(self.wire_bytes), n)])


def run_through_pool(rec: Recorder, spec: Spec, first: list[str], way: str) -> None:
    """The response reaches the caller through a pool that first had to re-send the request (dropped connection, retried
    status, same-host redirect): the caller's decode_content flag and every way of reading still apply to it."""
    import urllib3

    from vf import netsim

    head, body, enc, expected = respgen.build(spec)
    case = {"through_pool": list(spec), "first": first, "way": way}
    rec.mon("through_pool")
    got = bytearray()
    with netsim.Net(RetriedServer(head + body, first)):
        pool = urllib3.HTTPConnectionPool("retry.test", 80, maxsize=1, retries=urllib3.Retry(5, status_forcelist=[503], backoff_factor=0))
        try:
            if way == "preload":
                r = pool.urlopen("GET", "/r", decode_content=spec.decode)
                got += r.data
            else:
                r = pool.urlopen("GET", "/r", preload_content=False, decode_content=spec.decode)
                if way == "data":
                    got += r.data
                elif way == "readinto":
                    buf = bytearray(64)
                    while True:
                        k = r.readinto(buf)
                        if not k:
                            break
                        got += buf[:k]
                elif way == "readn-then-data":
                    got += r.read(7, decode_content=spec.decode)
                    got += r.data if False else r.read(decode_content=spec.decode)
                elif way == "read1":
                    while True:
                        piece = r.read1(50, decode_content=spec.decode)
                        if not piece:
                            break
                        got += piece
                else:
                    for piece in r.stream(33, decode_content=spec.decode):
                        got += piece
                r.release_conn()
        except Exception as e:  # noqa: BLE001
            rec.fail(case, "exception-on-wellformed-response", {"exc": type(e).__name__, "msg": str(e)[:100], "mixed_families": False, "coding": spec.coding, "through_pool": True, "first": first, "decode": spec.decode}, f"{way} after {first}: {type(e).__name__}: {e!s:.120}")
            pool.close()
            return
        pool.close()
    if bytes(got) != expected:
        rec.fail(case, "bytes-differ", {"through_pool": True, "way": way, "first": first, "mixed_families": False, "coding": spec.coding, "framing": spec.framing, "decode": spec.decode, "got_len": len(got), "want_len": len(expected)}, f"{way} after {first} with decode_content={spec.decode}: {len(got)} bytes, expected {len(expected)}")


class BodylessServer:
    def __init__(self, coding: str):
        self.coding = coding

    def on_request(self, net: typing.Any, sc: typing.Any, req: typing.Any) -> None:
        ce = b"Content-Encoding: " + self.coding.encode() + b"\r\n"
        if req.method == b"HEAD":
            sc.write(b"HTTP/1.1 200 OK\r\n" + ce + b"Content-Length: 20\r\n\r\n")
        elif b"204" in req.target:
            sc.write(b"HTTP/1.1 204 No Content\r\n" + ce + b"\r\n")
        elif b"304" in req.target:
            sc.write(b"HTTP/1.1 304 Not Modified\r\n" + ce + b"\r\n")
        else:
            sc.write(b"HTTP/1.1 200 OK\r\n" + ce + b"Content-Length: 0\r\n\r\n")


def run_bodyless(rec: Recorder) -> None:
    """Responses without a body that still announce a Content-Encoding (HEAD, 204, 304, Content-Length: 0): every way of
    reading gives the empty body, none raises."""
    import urllib3

    from vf import netsim

    for coding in ("gzip", "deflate", "zstd", "gzip, zstd", "br-unknown"):
        for method, target in (("HEAD", "/h"), ("GET", "/204"), ("GET", "/304"), ("GET", "/cl0")):
            for way in ("read", "read1", "read1n", "readn", "stream", "data", "readinto", "preload", "iter"):
                case = {"bodyless": [method, target], "coding": coding, "way": way}
                rec.case(["bodyless", coding, method, target, way])
                rec.mon("bodyless_response")
                with netsim.Net(BodylessServer(coding)):
                    pool = urllib3.HTTPConnectionPool("z.test", 80, retries=False)
                    try:
                        r = pool.urlopen(method, target, preload_content=(way == "preload"))
                        if way == "read":
                            out = r.read()
                        elif way == "read1":
                            out = r.read1()
                        elif way == "read1n":
                            out = r.read1(10)
                        elif way == "readn":
                            out = r.read(10)
                        elif way == "stream":
                            out = b"".join(r.stream(10))
                        elif way == "iter":
                            out = b"".join(r)
                        elif way == "readinto":
                            buf = bytearray(10)
                            out = bytes(buf[: r.readinto(buf)])
                        else:
                            out = r.data
                    except Exception as e:  # noqa: BLE001
                        rec.fail(case, "exception-on-wellformed-response", {"exc": type(e).__name__, "msg": str(e)[:100], "mixed_families": False, "coding": coding, "bodyless": True, "way": way}, f"{method} {target} ({coding}) read with {way}: {type(e).__name__}: {e!s:.100}")
                        pool.close()
                        continue
                    pool.close()
                if out != b"":
                    rec.fail(case, "bytes-differ", {"bodyless": True, "way": way, "mixed_families": False, "coding": coding, "got_len": len(out), "want_len": 0}, f"{method} {target} read with {way} returned {out[:40]!r}")


def random_spec(rng: typing.Any, small: bool = False) -> Spec:
    size = rng.choice([0, 1, 5, 100] if small else [0, 1, 5, 100, 100, 3000, 3000, 70000])
    coding = rng.choice(respgen.CODINGS)
    framing = rng.choice(["cl", "chunked", "chunked", "close"])
    sizes: list[int] = []
    if framing == "chunked":
        k = rng.choice([0, 1, 3, 10])
        sizes = [rng.choice([1, 2, 3, 7, 16, 64, 255, 1000, 8192]) for _ in range(k)]
    ext = rng.choice(["", "", ";ext=1", ";a;b=\"c\""]) if framing == "chunked" else ""
    seg = rng.choice([1, 2, 7, "random", "random", "whole", "whole"])
    if size > 3000 and seg in (1, 2):
        seg = "random"
    return Spec(size, coding, framing, sizes, ext, seg, rng.random() < 0.75)


def random_ops(rng: typing.Any, spec: Spec, allow_mix: bool) -> list[list[typing.Any]]:
    chunked = spec.framing == "chunked"
    fam = rng.choice(["A", "A", "B"]) if not allow_mix else "AB"
    k = rng.choice([1, 1, 2, 3, 4, 6])
    ops = []
    for _ in range(k):
        f = fam if fam != "AB" else rng.choice("AB")
        if f == "A":
            ops.append(rng.choice([["read"], ["readn", rng.choice(NS)], ["readn", rng.choice(NS)], ["read1n", rng.choice(NS)], ["read1"], ["readinto", rng.choice([1, 7, 64, 1000])], ["read0"]]))
        else:
            choices: list[list[typing.Any]] = [["stream", rng.choice([1, 7, 64, 1000, None]), rng.choice([1, 2, None])], ["iter", None, rng.choice([1, None])]]
            if chunked:
                choices.append(["read_chunked", rng.choice([None, 1, 7, 64, 1000]), rng.choice([1, 2, None])])
            ops.append(rng.choice(choices))
        if not chunked and fam != "AB" and rng.random() < 0.3:
            # on non-chunked bodies stream() is a wrapper around read(): mixing is always legitimate
            ops.append(rng.choice([["readn", rng.choice(NS)], ["stream", rng.choice([1, 7, 64]), 1], ["read1n", rng.choice(NS)]]))
    # keep the number of calls per case bounded: tiny amounts only on bodies they can traverse quickly
    floor = max(1, spec.size // 400)
    for o in ops:
        if len(o) > 1 and isinstance(o[1], int) and 0 < o[1] < floor:
            o[1] = floor
    return ops


def run_shard(ctx: Ctx, rec: Recorder) -> None:
    rng = ctx.rng
    # (i) exhaustive short sequences on small bodies
    depth = ctx.pick(2, 3)
    idx = 0
    small_specs = []
    for size in (0, 1, 5, 100):
        for coding in respgen.CODINGS:
            for framing, sizes in (("cl", []), ("chunked", [3, 1, 7]), ("chunked", []), ("close", [])):
                for decode in (True, False):
                    if not decode and coding not in ("identity", "gzip", "zstd2"):
                        continue
                    small_specs.append(Spec(size, coding, framing, sizes, "", "whole" if (size + len(coding)) % 2 else 7, decode))
    stride = ctx.pick(5, 1)
    for si, spec in enumerate(small_specs):
        alpha = op_alphabet(spec.framing == "chunked", small=True)
        for L in range(1, depth + 1):
            for seq in itertools.product(alpha, repeat=L):
                idx += 1
                if not ctx.mine(idx) or (L == depth and ctx.skip(idx, stride)):
                    continue
                ops = [list(o) for o in seq]
                if expected_family_mix(spec, ops) and ctx.skip(idx, 10):
                    continue  # keep the (separately classified) mixed-parser stratum small
                rec.case(["exh", list(spec), ops])
                run_case(rec, spec, ops, rng)
    rec.exhaustive_parts.append(f"call sequences of length<={depth} (length {depth} strided 1/{stride}; mixed http.client/chunk-parser sequences on chunked bodies sampled 1/10) over the reduced op alphabet for {len(small_specs)} small response specs")
    # (ii) preload for every small spec and a few large ones
    for si, spec in enumerate(small_specs):
        if ctx.mine(si):
            rec.case(["preload", list(spec)])
            run_case(rec, spec, [], rng, preload=True)
    # (ii-b) two responses alive at once, reads alternating
    pi = 0
    for ca in ("zstd", "zstdmb", "gzip", "deflate", "identity", "zstd2"):
        for cb in ("zstd", "gzip", "zstdmb", "identity"):
            for fa in ("cl", "chunked"):
                for pre in (False, True):
                    pi += 1
                    if not ctx.mine(pi):
                        continue
                    sa = Spec(3000, ca, fa, [64, 700] if fa == "chunked" else [], "", "whole", True)
                    sb = Spec(2000, cb, "cl", [], "", "whole", True)
                    rec.case(["pair", ca, cb, fa, pre])
                    run_pair(rec, sa, sb, 97, 131, pre)
    if ctx.shard == 0:
        run_bodyless(rec)
    # (ii-c) the response arrives through a pool after transparent re-sends; decoding on and off
    ti = 0
    for coding in ("gzip", "identity", "zstd", "deflate", "gzip+deflate"):
        for framing in ("cl", "chunked"):
            for decode in (True, False):
                for first in (["drop"], ["503"], ["307"], ["drop", "307"], []):
                    for way in ("preload", "data", "readinto", "readn-then-data", "read1", "stream"):
                        ti += 1
                        if not ctx.mine(ti):
                            continue
                        spec = Spec(300, coding, framing, [64, 7] if framing == "chunked" else [], "", "whole", decode)
                        rec.case(["through-pool", coding, framing, decode, first, way])
                        run_through_pool(rec, spec, list(first), way)
    # (iii) random responses x random call sequences
    n = ctx.pick(2500, 90000)
    for i in range(n):
        if ctx.out_of_time(0.9):
            rec.count("random_cut_short_by_budget")
            break
        spec = random_spec(rng)
        allow_mix = rng.random() < 0.08
        ops = random_ops(rng, spec, allow_mix)
        rec.case(["rand", list(spec), ops])
        if i < 2:
            rec.sample({"spec": spec._asdict(), "ops": ops})
        run_case(rec, spec, ops, rng)
        if i % 10 == 0:
            rec.case(["rand-preload", list(spec)])
            run_case(rec, spec, [], rng, preload=True)


def replay(case: dict[str, typing.Any], ctx: Ctx, rec: Recorder) -> None:
    if "pair" in case:
        rec.case(case)
        pa, pb = case["pair"]
        run_pair(rec, Spec(*pa), Spec(*pb), case["amts"][0], case["amts"][1], case["b_preloaded"])
        return
    s = case["spec"]
    spec = Spec(s[0], s[1], s[2], s[3], s[4], s[5], s[6], s[7] if len(s) > 7 else False)
    rec.case(case)
    run_case(rec, spec, case["ops"], ctx.rng, preload=case.get("preload", False))
