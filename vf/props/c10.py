"""C10 — no input can inject into or split the HTTP request on the wire.

Monitor: every byte urllib3 hands to sendall() on the in-memory socket is parsed by the strict request
parser; the call either raised with nothing written, or the bytes are exactly one request whose method,
target and header lines are the requested ones."""
from __future__ import annotations

import typing
from urllib.parse import unquote_to_bytes

from vf import netsim, wire
from vf.core import Ctx, Recorder

HOSTILE = ["\r", "\n", "\r\n", "\x00", "\x7f", " ", "\t", ":", "é", "€", "%0d%0a", "%zz", "#", "?", "\\", "\r\nX-Injected: 1", "\r\n\r\nGET /smuggled HTTP/1.1\r\nHost: evil\r\n\r\n", "\n ", "\r ", "\r\n ", "\r\n\t", "\n\n", "\x0b", "\x85", " ", "\x1f", "%00", "%20", "/../", ";", "\"", "<", "{", "^", "`", "|", "[", "]", "%", "%2"]
RFC3986 = set(b"ABCDEFGHIJKLMNOPQRSTUVWXYZabcdefghijklmnopqrstuvwxyz0123456789-._~:/?#[]@!$&'()*+,;=%")

AUTO = (b"host", b"accept-encoding", b"user-agent")
FRAMING = (b"content-length", b"transfer-encoding")


class OkServer:
    def on_request(self, net: typing.Any, sc: typing.Any, req: wire.Request) -> None:
        sc.write(wire.build_response(200, body=b"ok"))


def to_b(x: typing.Any, enc: str = "latin-1") -> bytes:
    return x if isinstance(x, bytes) else str(x).encode(enc)


def independent_path_normalise(path: str) -> str:
    """RFC 3986 5.2.4 remove_dot_segments, written from the RFC's loop (used for the PoolManager entry)."""
    inp, out = path, []
    while inp:
        if inp.startswith("../"):
            inp = inp[3:]
        elif inp.startswith("./"):
            inp = inp[2:]
        elif inp.startswith("/./"):
            inp = inp[2:]
        elif inp == "/.":
            inp = "/"
        elif inp.startswith("/../"):
            inp = inp[3:]
            if out:
                out.pop()
        elif inp == "/..":
            inp = "/"
            if out:
                out.pop()
        elif inp in (".", ".."):
            inp = ""
        else:
            nxt = inp.find("/", 1)
            seg = inp if nxt < 0 else inp[:nxt]
            out.append(seg)
            inp = "" if nxt < 0 else inp[nxt:]
    return "".join(out)


import re as _re

_HAS_AUTH = _re.compile(r"^[a-zA-Z][a-zA-Z0-9+\-]*://", _re.DOTALL)


def expected_targets(entry: str, url: str) -> tuple[list[bytes] | None, str]:
    """(acceptable raw forms of the target before percent-decoding, mode).  mode: 'verbatim' (HTTPConnection),
    'relation', or 'skip' (degenerate URL whose reading is C14/C15's business: only structure is judged)."""
    if entry == "conn":
        return None, "verbatim"
    u = url.split("#", 1)[0]
    if entry == "pool" and u.startswith("/"):
        return [u.encode("utf-8", "surrogatepass")], "relation"
    if not _HAS_AUTH.match(u):
        return None, "skip"
    scheme, rest = u.split("://", 1)
    cut = len(rest)
    for i, ch in enumerate(rest):
        if ch in "/?\\":
            cut = i
            break
    authority, pathq = rest[:cut], rest[cut:]
    path, q, query = pathq.partition("?")
    forms = []
    for p in {path, independent_path_normalise(path)}:
        for pp in {p or "/", "/" + p}:
            forms.append(pp + (q + query if q else ""))
    if entry in ("proxy", "pool"):
        # absolute-form: scheme://host[:port] + path; host case, userinfo and explicit default port are C15's matter
        return [f.encode("utf-8", "surrogatepass") for f in forms], "absolute"
    return [f.encode("utf-8", "surrogatepass") for f in forms], "relation"


def run_call(entry: str, method: typing.Any, url: typing.Any, headers: typing.Any, body: typing.Any) -> tuple[netsim.Net, BaseException | None]:
    import urllib3
    from urllib3.connection import HTTPConnection

    net = netsim.Net(OkServer())
    err: BaseException | None = None
    with net:
        try:
            if entry == "conn":
                c = HTTPConnection("h.test", 80)
                try:
                    c.request(method, url, body=body, headers=headers)
                    r = c.getresponse()
                    r.read()
                finally:
                    c.close()
            elif entry == "pool":
                p = urllib3.HTTPConnectionPool("h.test", 80, retries=False)
                try:
                    p.urlopen(method, url, body=body, headers=headers, retries=False, redirect=False, assert_same_host=False)
                finally:
                    p.close()
            elif entry == "manager":
                pm = urllib3.PoolManager(retries=False)
                try:
                    pm.request(method, url, body=body, headers=headers, retries=False, redirect=False)
                finally:
                    pm.clear()
            else:
                pm = urllib3.ProxyManager("http://proxy.test:3128", retries=False)
                try:
                    pm.request(method, url, body=body, headers=headers, retries=False, redirect=False)
                finally:
                    pm.clear()
        except Exception as e:  # noqa: BLE001
            err = e
    return net, err


def judge_tunnel(rec: Recorder, url: str, tag: str, proxy_headers: dict[typing.Any, typing.Any] | None = None) -> None:
    """An https URL requested through a proxy: what is written to the proxy before the tunnel exists must be exactly one
    well-formed CONNECT request naming one host:port, and what follows inside the tunnel exactly one request."""
    import warnings

    import urllib3

    case = {"entry": "tunnel", "url": url, "tag": tag, "proxy_headers": header_items(proxy_headers) if proxy_headers else None}
    err: BaseException | None = None
    with netsim.Net(OkServer(), fake_tls="inner") as net, warnings.catch_warnings():
        warnings.simplefilter("ignore")
        try:
            pm = urllib3.ProxyManager("http://proxy.test:3128", retries=False, cert_reqs="CERT_NONE", **({"proxy_headers": proxy_headers} if proxy_headers else {}))
        except Exception:  # noqa: BLE001
            rec.count("rejected_before_any_byte")
            return
        try:
            pm.request("GET", url, headers={"X-Test": "value"}, retries=False, redirect=False)
        except Exception as e:  # noqa: BLE001
            err = e
        finally:
            pm.clear()
        written = [bytes(st.sent) for st in net.states if st.sent]
    rec.mon("call")
    rec.mon("tunnel_call")
    if not written:
        rec.count("rejected_before_any_byte")
        return
    raw = written[0]
    rec.mon("connect_line")
    try:
        first = wire.parse_request(raw)
    except wire.WireError as e:
        rec.fail(case, "connect-not-one-wellformed-request", {"error": str(e)[:60], "call_raised": type(err).__name__ if err else None}, f"strict parser on the bytes sent to the proxy: {e}; wire={raw[:120]!r}")
        return
    if first is None:
        rec.fail(case, "connect-not-one-wellformed-request", {"error": "incomplete", "call_raised": type(err).__name__ if err else None}, f"incomplete message sent to the proxy: {raw[:120]!r}")
        return
    req, rest = first
    host, _, port = req.target.rpartition(b":")
    if req.method != b"CONNECT" or not port.isdigit() or not host or any(c <= 0x20 or c == 0x7F for c in host) or any(c <= 0x20 or c == 0x7F for c in b"".join(wire.header_get(req.headers, b"host"))):
        rec.fail(case, "connect-target-malformed", {"method": req.method, "target": req.target}, f"message to the proxy: {req.method!r} {req.target!r} (Host: {wire.header_get(req.headers, b'host')!r})")
        return
    if proxy_headers is not None:
        # the CONNECT carries Host plus exactly the configured proxy headers
        rec.mon("connect_headers")
        import re as _re

        # (an obs-fold inside a configured value is one field: compared unfolded, as the strict parser reports it)
        unfold = lambda b: _re.sub(rb"\r?\n[ \t]+|\r[ \t]+", b" ", b).strip(b" \t")  # noqa: E731
        want = sorted((to_b(k, "latin-1").lower(), unfold(to_b(v, "latin-1"))) for k, v in proxy_headers.items())
        got0 = [(k, v) for k, v in req.headers]
        req_headers_unfolded = [(k, unfold(v)) for k, v in got0]
        got = sorted((k.lower(), v) for k, v in req_headers_unfolded if k.lower() != b"host")
        if got != want:
            rec.fail(case, "connect-headers-differ", {"got": got[:6], "want": want[:6]}, f"CONNECT header lines {got[:6]!r} are not the configured proxy headers {want[:6]!r}")
            return
    if rest:
        reqs, residue, perr = wire.parse_all_requests(rest)
        if perr is not None or len(reqs) > 1 or residue:
            rec.fail(case, "not-exactly-one-request", {"parsed": len(reqs), "error": (perr or "")[:60], "residue": len(residue), "inside_tunnel": True}, f"inside the tunnel: {len(reqs)} requests, error={perr}, residue={residue[:60]!r}")


def run_sequence(entry: str, calls: list[tuple[typing.Any, typing.Any, typing.Any, typing.Any]]) -> tuple[netsim.Net, list[BaseException | None], list[int]]:
    """Several calls on ONE pool / manager; returns the errors and, per call, how many bytes were on the wire afterwards."""
    import urllib3

    net = netsim.Net(OkServer())
    errs: list[BaseException | None] = []
    marks: list[int] = []
    with net:
        if entry == "pool":
            client: typing.Any = urllib3.HTTPConnectionPool("h.test", 80, retries=False, maxsize=1)
        elif entry == "manager":
            client = urllib3.PoolManager(retries=False, maxsize=1)
        else:
            client = urllib3.ProxyManager("http://proxy.test:3128", retries=False, maxsize=1)
        try:
            for method, url, headers, body in calls:
                try:
                    if entry == "pool":
                        client.urlopen(method, url, body=body, headers=headers, retries=False, redirect=False, assert_same_host=False)
                    else:
                        client.request(method, url, body=body, headers=headers, retries=False, redirect=False)
                    errs.append(None)
                except Exception as e:  # noqa: BLE001
                    errs.append(e)
                marks.append(sum(len(st.sent) for st in net.states))
        finally:
            if entry == "pool":
                client.close()
            else:
                client.clear()
    return net, errs, marks


def judge_sequence(rec: Recorder, entry: str, first: tuple[typing.Any, typing.Any, typing.Any, typing.Any], tag: str) -> None:
    """A rejected (or accepted) hostile call followed by a benign call on the same pool: whatever the first call
    left behind must not reach the wire with the second."""
    url2 = "/public/ok?n=2" if entry == "pool" else "http://h.test/public/ok?n=2"
    second = ("GET", url2, {"X-Second": "yes"}, None)
    case = {"entry": entry, "sequence": [list(first[:2]) + [header_items(first[2]), repr(first[3])], ["GET", url2]], "tag": tag}
    net, errs, marks = run_sequence(entry, [first, second])
    rec.mon("sequence")
    stream = b"".join(bytes(st.sent) for st in net.states)
    first_bytes = stream[: marks[0]]
    second_bytes = stream[marks[0] :]
    if errs[0] is not None and first_bytes:
        reqs, residue, perr = wire.parse_all_requests(first_bytes)
        if perr is not None or len(reqs) != 1:
            rec.fail(case, "bytes-written-then-raised", {"exc": type(errs[0]).__name__, "step": 0}, f"first call raised {errs[0]!r} after writing {len(first_bytes)} bytes")
            return
    if errs[1] is not None:
        rec.fail(case, "benign-follow-up-failed", {"exc": type(errs[1]).__name__}, f"benign second call raised {errs[1]!r}")
        return
    # the second call's bytes must be exactly its own request, on whichever socket they were written
    per_sock = []
    acc = 0
    for st in net.states:
        b = bytes(st.sent)
        lo, hi = acc, acc + len(b)
        acc = hi
        if hi > marks[0]:
            per_sock.append(b[max(0, marks[0] - lo) :])
    joined = b"".join(per_sock)
    reqs, residue, perr = wire.parse_all_requests(joined)
    if perr is not None or len(reqs) != 1 or residue:
        rec.fail(case, "follow-up-not-exactly-one-request", {"parsed": len(reqs), "error": (perr or "")[:60]}, f"after a {'rejected' if errs[0] else 'sent'} first call the second call wrote {joined[:300]!r}")
        return
    r = reqs[0]
    if r.method != b"GET" or not r.target.endswith(b"/public/ok?n=2") or wire.header_get(r.headers, b"x-second") != [b"yes"]:
        rec.fail(case, "follow-up-request-changed", {"method": r.method, "target": r.target}, f"second request on the wire is {r.method!r} {r.target!r} {r.headers!r}")
        return
    leaked = [k for k, _ in r.headers if k.lower() not in (b"host", b"accept-encoding", b"user-agent", b"x-second", b"accept")]
    if leaked:
        rec.fail(case, "follow-up-carries-foreign-headers", {"names": leaked}, f"second request carries headers {leaked!r} from the first call")


def judge_conn_reuse(rec: Recorder, first: tuple[typing.Any, typing.Any, typing.Any, typing.Any], tag: str) -> None:
    """HTTPConnection level: a call that is rejected (or accepted), then close() - which 'resets all stateful properties so
    the connection can be re-used' - then a benign request on the same object: its bytes are exactly its own request."""
    from urllib3.connection import HTTPConnection

    m, u, h, b = first
    case = {"entry": "conn-reuse", "sequence": [[m, u, header_items(h), repr(b)], ["GET", "/public/ok?n=2"]], "tag": tag}
    net = netsim.Net(OkServer())
    err1: BaseException | None = None
    err2: BaseException | None = None
    with net:
        c = HTTPConnection("h.test", 80)
        try:
            try:
                c.request(m, u, body=(materialise_body(b) if isinstance(b, tuple) and b and b[0] in ("obj", "reader") else b), headers=h)
                c.getresponse().read()
            except Exception as e:  # noqa: BLE001
                err1 = e
            mark = sum(len(st.sent) for st in net.states)
            c.close()
            try:
                c.request("GET", "/public/ok?n=2", headers={"X-Second": "yes"})
                c.getresponse().read()
            except Exception as e:  # noqa: BLE001
                err2 = e
        finally:
            c.close()
        stream = b"".join(bytes(st.sent) for st in net.states)
    rec.mon("conn_reuse_after_close")
    second = stream[mark:]
    if err2 is not None and not second:
        rec.fail(case, "benign-follow-up-failed", {"exc": type(err2).__name__, "conn_level": True}, f"after close() the next request on the connection raised {err2!r}")
        return
    reqs, residue, perr = wire.parse_all_requests(second)
    if perr is not None or len(reqs) != 1 or residue:
        rec.fail(case, "follow-up-not-exactly-one-request", {"parsed": len(reqs), "error": (perr or "")[:60], "conn_level": True, "first_raised": type(err1).__name__ if err1 else None}, f"after a {'rejected' if err1 else 'sent'} first call and close() the second call wrote {second[:300]!r}")
        return
    r = reqs[0]
    names = [k.lower() for k, _ in r.headers]
    if r.method != b"GET" or r.target != b"/public/ok?n=2" or wire.header_get(r.headers, b"x-second") != [b"yes"] or sorted(names) != sorted(set(names)) or set(names) - {b"host", b"accept-encoding", b"user-agent", b"x-second"}:
        rec.fail(case, "follow-up-request-changed", {"method": r.method, "target": r.target, "conn_level": True, "first_raised": type(err1).__name__ if err1 else None}, f"second request on the wire is {r.method!r} {r.target!r} {r.headers!r}")


DEFAULT_CALLS: list[tuple[str, str, dict[str, typing.Any]]] = [
    ("POST", "form", {"fields": {"a": "1", "b": "two"}, "encode_multipart": False}),
    ("GET", "plain", {}),
    ("POST", "multipart", {"fields": {"f": ("n.txt", b"file-data"), "a": "1"}}),
    ("POST", "json", {"json": {"k": 1}}),
    ("POST", "multipart", {"fields": {"g": "second upload"}}),
    ("GET", "plain", {}),
    ("POST", "raw", {"body": b"raw-body"}),
    ("GET", "query", {"fields": {"q": "1"}}),
]


def judge_defaults(rec: Recorder, entry: str, container: str, where: str, rot: int) -> None:
    """Several calls on ONE pool / manager whose default headers (or: one headers object handed to every call) live in a
    dict or an HTTPHeaderDict.  The calls differ in how the body is given (fields=, json=, body=, nothing): every request
    on the wire carries the caller's header lines, the automatic ones, and a Content-Type only when *that* call's body
    needs one - and a multipart Content-Type names the boundary that delimits the body that follows it."""
    import urllib3
    from urllib3._collections import HTTPHeaderDict

    base = [("X-Api", "k1"), ("Accept-Language", "en")]
    hdrs: typing.Any = dict(base) if container == "dict" else HTTPHeaderDict(base)
    calls = DEFAULT_CALLS[rot:] + DEFAULT_CALLS[:rot]
    case = {"entry": entry, "tag": "defaults", "container": container, "where": where, "calls": [c[1] for c in calls]}
    net = netsim.Net(OkServer())
    marks: list[int] = []
    errs: list[BaseException | None] = []
    with net:
        kw = {"headers": hdrs} if where == "defaults" else {}
        if entry == "pool":
            client: typing.Any = urllib3.HTTPConnectionPool("h.test", 80, retries=False, maxsize=1, **kw)
        elif entry == "manager":
            client = urllib3.PoolManager(retries=False, maxsize=1, **kw)
        else:
            client = urllib3.ProxyManager("http://proxy.test:3128", retries=False, maxsize=1, **kw)
        try:
            for i, (method, kind, extra) in enumerate(calls):
                url = f"/d/{i}" if entry == "pool" else f"http://h.test/d/{i}"
                try:
                    client.request(method, url, retries=False, redirect=False, **extra, **({"headers": hdrs} if where == "per-request" else {}))
                    errs.append(None)
                except Exception as e:  # noqa: BLE001
                    errs.append(e)
                marks.append(sum(len(st.sent) for st in net.states))
        finally:
            client.close() if entry == "pool" else client.clear()
    rec.mon("defaults_sequence")
    stream = b"".join(bytes(st.sent) for st in net.states)
    if len([st for st in net.states if st.sent]) > 1:
        rec.note_inconclusive("defaults sequence used several sockets")
        return
    lo = 0
    for i, ((method, kind, extra), hi, err) in enumerate(zip(calls, marks, errs)):
        raw, lo = stream[lo:hi], hi
        if err is not None:
            rec.fail(case, "benign-follow-up-failed", {"step": i, "kind": kind, "exc": type(err).__name__}, f"call {i} ({kind}) raised {err!r}")
            return
        reqs, residue, perr = wire.parse_all_requests(raw)
        if perr is not None or len(reqs) != 1 or residue:
            rec.fail(case, "not-exactly-one-request", {"step": i, "kind": kind, "parsed": len(reqs), "error": (perr or "")[:60]}, f"call {i} ({kind}) wrote {raw[:200]!r}")
            return
        r = reqs[0]
        names = [k.lower() for k, _ in r.headers]
        allowed = {b"x-api", b"accept-language"} | set(AUTO) | set(FRAMING) | ({b"accept"} if entry == "proxy" else set()) | ({b"content-type"} if kind in ("form", "multipart", "json") else set())
        extra_names = sorted(set(names) - allowed)
        if extra_names or any(names.count(n) > 1 for n in names):
            rec.fail(case, "unrequested-header", {"step": i, "kind": kind, "names": extra_names, "history": [c[1] for c in calls[:i]]}, f"call {i} ({kind}) after {[c[1] for c in calls[:i]]} carries {extra_names!r} / repeated names: {r.headers!r}")
            return
        if wire.header_get(r.headers, b"x-api") != [b"k1"] or wire.header_get(r.headers, b"accept-language") != [b"en"]:
            rec.fail(case, "header-lines-differ", {"step": i, "kind": kind}, f"call {i}: the caller's header lines are not on the wire unchanged: {r.headers!r}")
            return
        ct = (wire.header_get(r.headers, b"content-type") or [b""])[0]
        want_ct = {"form": b"application/x-www-form-urlencoded", "json": b"application/json", "multipart": b"multipart/form-data; boundary="}.get(kind)
        if want_ct is not None and not ct.startswith(want_ct):
            rec.fail(case, "header-lines-differ", {"step": i, "kind": kind, "content_type": ct}, f"call {i} ({kind}) announces Content-Type {ct!r}")
            return
        if kind == "multipart":
            boundary = ct.split(b"boundary=", 1)[1]
            if not r.body.startswith(b"--" + boundary + b"\r\n") or not r.body.rstrip(b"\r\n").endswith(b"--" + boundary + b"--"):
                rec.fail(case, "head-does-not-describe-body", {"step": i, "announced": boundary[:40], "body_starts": r.body[:40]}, f"call {i}: Content-Type names boundary {boundary!r}, the body starts with {r.body[:40]!r}")
                return
    if header_items(hdrs) != base and sorted(header_items(hdrs)) != sorted(base):
        rec.fail(case, "caller-headers-mutated", {"now": header_items(hdrs)}, f"the caller's header container was changed to {header_items(hdrs)!r}")


def header_items(headers: typing.Any) -> list[tuple[typing.Any, typing.Any]]:
    if headers is None:
        return []
    if hasattr(headers, "iteritems"):
        return list(headers.items())
    if isinstance(headers, dict):
        return list(headers.items())
    return list(headers)


def materialise_body(marker: tuple[str, str]) -> typing.Any:
    """Bodies that are not sendable at all (a caller bug such as body=len(data)) and file-like bodies of the duck-typed
    kind: whatever urllib3 does with them, a failing call must not leave a half-written request behind."""
    import io

    class DuckText:
        def __init__(self, text: str) -> None:
            self._s = io.StringIO(text)

        def read(self, n: int = -1) -> str:
            return self._s.read(n)

    class DuckBytes:
        def __init__(self, data: bytes) -> None:
            self._b = io.BytesIO(data)

        def read(self, n: int = -1) -> bytes:
            return self._b.read(n)

    return {"int": lambda: 12345, "float": lambda: 3.5, "bool": lambda: True, "object": lambda: object(), "stringio": lambda: io.StringIO("text-\u00e9-body"), "bytesio": lambda: io.BytesIO(b"bytes-body"),
            "duck-text": lambda: DuckText("text-\u00e9-body"), "duck-bytes": lambda: DuckBytes(b"bytes-body"), "dict": lambda: {"a": 1}, "list-of-int": lambda: [1, 2, 3]}[marker[1]]()


def judge(rec: Recorder, entry: str, method: typing.Any, url: typing.Any, headers: typing.Any, body: typing.Any, tag: str) -> None:
    from urllib3.util import SKIP_HEADER

    is_buf = isinstance(body, tuple) and body and body[0] == "array-H"
    case = {"entry": entry, "method": method, "url": url, "headers": header_items(headers), "hdr_type": type(headers).__name__, "body": (["array-H", body[1]] if is_buf else (body if isinstance(body, (bytes, str, type(None))) else (list(body) if isinstance(body, tuple) else ["iter"] + [x for x in body]))), "tag": tag}
    body_arg = body
    if isinstance(body, tuple) and body and body[0] in ("obj", "reader"):
        case["body"] = list(body)
        body_arg = materialise_body(body)
    elif is_buf:
        import array

        # a bytes-like body whose buffer has 2-byte items: its bytes spell a second request, so a length counted in
        # items instead of bytes leaves the rest on the wire as a message of its own
        body_arg = array.array("H", body[1])
    elif isinstance(body, list):
        body_arg = iter(list(body))
    net, err = run_call(entry, method, url, headers, body_arg)
    rec.mon("call")
    written = [(st.index, bytes(st.sent)) for st in net.states if st.sent]
    total = sum(len(b) for _, b in written)
    if err is not None and total == 0:
        rec.count("rejected_before_any_byte")
        return
    if err is None and total == 0:
        rec.fail(case, "no-bytes-no-error", {}, "call returned without writing a request")
        return
    # bytes were written: they must be exactly one well-formed request, identical to what was asked
    rec.mon("wire_parse")
    if len(written) != 1:
        rec.fail(case, "bytes-on-several-sockets", {"sockets": len(written)}, f"request bytes on {len(written)} sockets")
        return
    raw = written[0][1]
    reqs, residue, perr = wire.parse_all_requests(raw)
    if perr is not None or len(reqs) != 1 or residue:
        rec.fail(case, "not-exactly-one-request", {"parsed": len(reqs), "error": (perr or "")[:60], "residue": len(residue), "call_raised": type(err).__name__ if err else None}, f"strict parser: {len(reqs)} requests, error={perr}, residue={residue[:60]!r}; wire={raw[:200]!r}")
        return
    if err is not None:
        rec.fail(case, "bytes-written-then-raised", {"exc": type(err).__name__}, f"call raised {err!r} after writing {total} bytes")
        return
    req = reqs[0]
    rec.count("accepted_and_sent")
    # method
    rec.mon("method_equal")
    want_methods = {to_b(method, "ascii")}
    if entry in ("manager", "proxy"):
        want_methods.add(to_b(method.upper(), "ascii"))  # RequestMethods.request() documents upper-casing
    if req.method not in want_methods:
        rec.fail(case, "method-changed", {"sent": req.method}, f"method on the wire {req.method!r} != requested {method!r}")
        return
    # target
    rec.mon("target_relation")
    exp, mode = expected_targets(entry, url if isinstance(url, str) else url.decode("latin-1"))
    if mode == "verbatim":
        if req.target != to_b(url, "ascii"):
            rec.fail(case, "target-not-verbatim", {"sent": req.target}, f"HTTPConnection.request target {req.target!r} != {url!r}")
            return
    else:
        t = req.target
        if b"#" in t:
            rec.fail(case, "fragment-sent", {"sent": t}, f"fragment on the wire: {t!r}")
            return
        # split off scheme://authority of an absolute-form target (its spelling is C15's matter)
        pathq = t
        if not t.startswith(b"/"):
            m = _re.match(rb"^[a-zA-Z][a-zA-Z0-9+.\-]*://[^/?]*", t)
            if m:
                pathq = t[m.end() :] or b"/"
                if pathq.startswith(b"?"):
                    pathq = b"/" + pathq  # absolute-form with an empty path
            elif mode != "skip":
                rec.fail(case, "target-shape", {"sent": t}, f"target {t!r} is neither origin-form nor absolute-form")
                return
        if mode != "skip" or pathq.startswith(b"/"):
            if any(c not in RFC3986 for c in pathq):
                rec.fail(case, "target-illegal-characters", {"sent": t}, f"target {t!r} contains characters outside RFC 3986")
                return
        if mode == "skip":
            rec.count("target_relation_skipped_degenerate_url")
        else:
            assert exp is not None
            dec = unquote_to_bytes(pathq)

            def canon(x: bytes) -> bytes:  # hex digits of percent-escapes are case-insensitive
                return _re.sub(rb"%[0-9a-fA-F]{2}", lambda mm: mm.group(0).upper(), x)

            def squeeze(x: bytes) -> bytes:
                return _re.sub(rb"/+", b"/", x)

            had_dots = any(seg in (b".", b"..") for e in exp for seg in e.split(b"?")[0].split(b"/"))
            ok_t = any(dec == e or dec == unquote_to_bytes(e) or canon(dec) == canon(e) for e in exp)
            if not ok_t and had_dots:
                # RFC 3986 5.2.4 keeps an empty segment next to a removed '..' ('/..//p' -> '//p'); urllib3's segment
                # list drops it ('/p').  Not an injection matter: compared modulo repeated slashes in that case only.
                ok_t = any(squeeze(dec) == squeeze(e) or squeeze(dec) == squeeze(unquote_to_bytes(e)) for e in exp)
                if ok_t:
                    rec.count("target_equal_modulo_empty_segment_after_dotdot")
            if not ok_t:
                rec.fail(case, "target-changed", {"sent": t, "expected_any_of": exp[:4]}, f"target {t!r} is not an encoding of the requested {exp[:2]!r}")
                return
    # headers: automatic ones per the rule, caller's ones in order and unmodified
    rec.mon("header_list")
    items = header_items(headers)
    # (whitespace between a field name and the colon is not allowed in HTTP/1.1, and recipients that tolerate it read
    # 'Host\t:' as Host: such a name counts as the header it spells)
    supplied = {to_b(k).lower().rstrip(b" \t") for k, _ in items}
    skipped = {to_b(k).lower() for k, v in items if isinstance(v, str) and v == SKIP_HEADER}
    sent = list(req.headers)
    sent_lower = [k.lower().rstrip(b" \t") for k, _ in sent]
    for a in AUTO:
        n = sent_lower.count(a)
        want_auto = a not in supplied
        caller_n = sum(1 for k, v in items if to_b(k).lower().rstrip(b" \t") == a and not (isinstance(v, str) and v == SKIP_HEADER))
        if want_auto and n != 1 or (not want_auto and not (1 <= n <= max(1, caller_n)) and caller_n > 0) or (not want_auto and caller_n == 0 and n != 0):
            rec.fail(case, "automatic-header-rule", {"header": a, "on_wire": n, "caller_supplied": a in supplied, "suppressed": a in skipped}, f"{a!r}: {n} line(s) on the wire, caller supplied={a in supplied} suppressed={a in skipped}")
            return
    for fr in FRAMING:
        if sent_lower.count(fr) > 1:
            rec.fail(case, "automatic-header-rule", {"header": fr, "on_wire": sent_lower.count(fr), "caller_supplied": fr in supplied, "suppressed": False}, f"{fr!r}: {sent_lower.count(fr)} line(s) on the wire: {[k for k, _ in sent]!r}")
            return

    def multimap(pairs: list[tuple[bytes, bytes]]) -> dict[bytes, bytes]:
        out: dict[bytes, list[bytes]] = {}
        for k, v in pairs:
            out.setdefault(k.lower(), []).append(v)
        return {k: b", ".join(x.strip(b" \t") for v in vs for x in v.split(b",")) for k, vs in out.items()}

    expected_caller = [(to_b(k), wire.unfold(to_b(v))) for k, v in items if not (isinstance(v, str) and v == SKIP_HEADER)]
    remaining = list(sent)

    def drop_first(name: bytes) -> None:
        for i, (k, _) in enumerate(remaining):
            if k.lower() == name:
                del remaining[i]
                return

    for a in AUTO:
        if a not in supplied:
            drop_first(a)
    for fr in FRAMING:
        if fr not in supplied:
            drop_first(fr)
    supplied_exact = {to_b(k).lower() for k, _ in items}
    if entry == "proxy" and b"accept" not in supplied:
        drop_first(b"accept")  # documented default of a forwarding ProxyManager
    # names compare case-insensitively; repeated fields are equivalent to their comma-joined value (RFC 9110 5.3)
    if multimap(remaining) != multimap(expected_caller):
        rec.fail(case, "header-lines-differ", {"sent": [list(x) for x in remaining][:8], "asked": [list(x) for x in expected_caller][:8]}, f"caller headers on the wire {remaining!r} != requested {expected_caller!r}")
        return
    # no field name may appear that nobody asked for
    extra = set(multimap(sent)) - set(multimap(expected_caller)) - set(AUTO) - set(FRAMING) - ({b"accept"} if entry == "proxy" else set())
    if extra:
        rec.fail(case, "unrequested-header", {"names": sorted(extra)}, f"header(s) {sorted(extra)!r} on the wire that the caller never supplied")
        return
    if rec.evaluations % 997 == 0:
        rec.sample({"entry": entry, "method": method, "url": url, "headers": header_items(headers), "wire": raw[:300]})


SEEDS = {"method": "GET", "url_path": "/path/x?q=1", "url_abs": "http://h.test/path/x?q=1#frag", "hname": "X-Test", "hvalue": "value"}


def insertions(seed: str, syms: list[str]) -> typing.Iterator[str]:
    for pos in range(len(seed) + 1):
        for s in syms:
            yield seed[:pos] + s + seed[pos:]


def run_shard(ctx: Ctx, rec: Recorder) -> None:
    from urllib3 import HTTPHeaderDict
    from urllib3.util import SKIP_HEADER

    idx = 0
    entries = ["conn", "pool", "manager", "proxy"]
    # (i) one hostile insertion at every position of every field, per entry point
    for entry in entries:
        url0 = SEEDS["url_path"] if entry in ("conn", "pool") else SEEDS["url_abs"]
        for field in ("method", "url", "hname", "hvalue"):
            seed = {"method": SEEDS["method"], "url": url0, "hname": SEEDS["hname"], "hvalue": SEEDS["hvalue"]}[field]
            for mutated in insertions(seed, HOSTILE):
                idx += 1
                if not ctx.mine(idx):
                    continue
                m, u, hn, hv = SEEDS["method"], url0, SEEDS["hname"], SEEDS["hvalue"]
                if field == "method":
                    m = mutated
                elif field == "url":
                    u = mutated
                elif field == "hname":
                    hn = mutated
                else:
                    hv = mutated
                rec.case([entry, field, mutated])
                judge(rec, entry, m, u, {hn: hv, "X-After": "1"}, None, "ins1:" + field)
                if entry != "conn" and idx % 3 == 0:
                    rec.case(["seq", entry, field, mutated])
                    judge_sequence(rec, entry, ("DELETE" if field != "method" else m, u, {"X-Api-Key": "secret", hn: hv}, None), "seq:" + field)
    rec.exhaustive_parts.append(f"one insertion of each of {len(HOSTILE)} hostile strings at every position of method / URL / header name / header value, for 4 entry points")
    # (ii) special inputs
    specials: list[tuple[str, typing.Any, typing.Any, typing.Any, typing.Any]] = []
    for entry in entries:
        url0 = SEEDS["url_path"] if entry in ("conn", "pool") else "http://h.test/a"
        for m in ["", " ", "GET ", " GET", "G ET", "GET\r\n", "get", "M-SEARCH", "GET\x00", "GÉT", "PURGE", "GET/", "G:T", "PATCH"]:
            specials.append((entry, m, url0, None, None))
        for h in [
            {"Host": "evil.test"}, {"host": "evil.test"}, {"HOST": "a", "X": "b"}, {"Accept-Encoding": "gzip"}, {"accept-encoding": SKIP_HEADER}, {"User-Agent": SKIP_HEADER}, {"Host": SKIP_HEADER},
            {"X-Other": SKIP_HEADER}, {"Content-Length": SKIP_HEADER}, {"User-Agent": "ua", "user-agent": "ub"}, {"X-A": "1", "X-a": "2"}, {"X": "a\r\n b"}, {"X": "a\r\n\tb"}, {"X": "a\n b"}, {"X": "a\r b"},
            {"X": " lead"}, {"X": "trail "}, {"X": ""}, {"X": "é"}, {"X": "€"}, {"X": b"bytes\xff"}, {b"X-Bytes": b"v"}, {"X": "a\r\nb"}, {"X": "a\nb"}, {"X": "a\rb"}, {"X\r\nY": "v"}, {"X Y": "v"}, {"X:Y": "v"}, {"": "v"},
            {"Transfer-Encoding": "chunked"}, {"Content-Length": "3"},
            {b"Host": b"evil.test"}, {b"host": "evil.test"}, {b"User-Agent": b"ua-bytes"}, {b"Accept-Encoding": b"gzip"}, {b"accept-encoding": SKIP_HEADER}, {b"Transfer-Encoding": b"chunked"},
            {b"Content-Length": b"3"}, {b"transfer-encoding": "chunked", "X": "1"}, {b"X-B": "1", "x-b": "2"},
            {"Host\t": "internal.test"}, {"Host ": "internal.test"}, {"Content-Length ": "0"}, {"Transfer-Encoding\t": "chunked"}, {"User-Agent ": "x"}, {"Accept-Encoding \t": "gzip"}, {"X-Trail ": "v"},
        ]:
            specials.append((entry, "POST", url0, h, b"abc"))
            if entry in ("manager", "proxy") and any(isinstance(k, bytes) for k in h) and not any(to_b(k).lower() in FRAMING for k in h):
                # without a body the manager hands the caller's mapping through untouched: the merge with the
                # forwarding proxy's own Host/Accept sees the bytes names as they are
                specials.append((entry, "GET", url0, h, None))
        specials.append((entry, "GET", url0, HTTPHeaderDict([("X-Multi", "1"), ("X-Multi", "2"), ("Cookie", "a=b")]), None))
        for b in [b"plain", "text-é", [b"a", b"", b"bc"], ["s1", "s2"], b"\r\n\r\nGET /smuggled HTTP/1.1\r\nHost: evil\r\n\r\n", [b"0\r\n\r\nGET /smuggled HTTP/1.1\r\n\r\n"], b"", ""]:
            specials.append((entry, "POST", url0, {"X-Body": "1"}, b))
        for kind in ("int", "float", "bool", "object", "dict"):  # (an iterable whose *items* are unsendable fails mid-stream by nature: not judged)
            specials.append((entry, "POST", url0, {"X-Body": kind}, ("obj", kind)))
        for kind in ("stringio", "bytesio", "duck-text", "duck-bytes"):
            specials.append((entry, "PUT", url0, {"X-Body": kind}, ("reader", kind)))
    for entry, url in [("pool", "/a b"), ("pool", "/é?ü=1"), ("pool", "/%zz"), ("pool", "/a#frag"), ("pool", "/a?x=1#f?y"), ("pool", "//double"), ("pool", "/a\\b"),
                       ("manager", "http://h.test"), ("manager", "http://h.test?x=1"), ("manager", "http://h.test/a/../b"), ("manager", "http://h.test/a/./b/.."), ("manager", "http://user:pw@h.test/p"),
                       ("manager", "HTTP://H.TEST:80/p"), ("manager", "http://h.test/%2e%2e/x"), ("manager", "http://h.test/a b?c d#e f"), ("manager", "http://h.test/é"), ("manager", "http://h.test/\r\nX: y"),
                       ("proxy", "http://h.test"), ("proxy", "http://h.test/a/../b?x#f"), ("proxy", "http://user:pw@h.test/p"), ("proxy", "http://H.test:80/P"), ("proxy", "http://h.test:8080/p q")]:
        specials.append((entry, "GET", url, {"X": "1"}, None))
    for i, (entry, m, u, h, b) in enumerate(specials):
        if not ctx.mine(i):
            continue
        rec.case(["special", entry, m, u, header_items(h), repr(b)])
        judge(rec, entry, m, u, h, b, "special")
        if entry == "conn":
            rec.case(["conn-reuse", m, u, header_items(h), repr(b)])
            judge_conn_reuse(rec, (m, u, h, iter(list(b)) if isinstance(b, list) else b), "conn-reuse")
        if entry != "conn":
            rec.case(["special-seq", entry, m, u, header_items(h), repr(b)])
            judge_sequence(rec, entry, (m, u, h, iter(list(b)) if isinstance(b, list) else (materialise_body(b) if isinstance(b, tuple) and b and b[0] in ("obj", "reader") else b)), "special-seq")
    # (iii) pairs of insertions / random assembly
    n = ctx.pick(16000, 300000)
    rng = ctx.rng
    for i in range(n):
        if ctx.out_of_time(0.85):
            rec.count("random_cut_short_by_budget")
            break
        entry = rng.choice(entries)
        url0 = SEEDS["url_path"] if entry in ("conn", "pool") else SEEDS["url_abs"]

        def mut(s: str, k: int) -> str:
            for _ in range(k):
                pos = rng.randrange(len(s) + 1)
                s = s[:pos] + rng.choice(HOSTILE) + s[pos:]
            return s

        which = rng.sample(["method", "url", "hname", "hvalue"], rng.choice([1, 2, 2]))
        m = mut(SEEDS["method"], 1) if "method" in which else rng.choice(["GET", "POST", "PUT", "DELETE", "HEAD"])
        u = mut(url0, rng.choice([1, 2])) if "url" in which else url0
        hn = mut(SEEDS["hname"], 1) if "hname" in which else "X-Test"
        hv = mut(SEEDS["hvalue"], rng.choice([1, 2])) if "hvalue" in which else "value"
        hdrs: typing.Any = {hn: hv, "X-After": "1"}
        if rng.random() < 0.2:
            hdrs = HTTPHeaderDict([(hn, hv), ("X-After", "1"), (hn, "second")]) if all(isinstance(x, str) for x in (hn, hv)) else hdrs
        body = rng.choice([None, None, b"abc", "str", [b"c1", b"c2"], ("array-H", b"xxxGET /smuggled HTTP/1.1\r\nHost: evil.test\r\n\r\n")]) if m not in ("GET", "HEAD") else None
        rec.case(["rand", entry, m, u, header_items(hdrs), repr(body)])
        judge(rec, entry, m, u, hdrs, body, "random")
    # hostile characters in the host / port of an https URL that is tunnelled through a proxy
    ti = 0
    for base in ("https://h.test/p", "https://h.test:8443/p", "https://[::1]:8443/p"):
        start = len("https://")
        end = base.index("/", start)
        for pos in range(start, end + 1):
            for sym in HOSTILE:
                ti += 1
                if not ctx.mine(ti):
                    continue
                u = base[:pos] + sym + base[pos:]
                rec.case(["tunnel-host", u])
                judge_tunnel(rec, u, "tunnel-host")
    # hostile characters in the proxy headers that travel with the CONNECT request
    for hn in insertions("X-Proxy", HOSTILE[:12] + ["\r\nX-Injected: 1", "\r\n\r\nGET /smuggled HTTP/1.1\r\nHost: evil\r\n\r\n"]):
        ti += 1
        if ctx.mine(ti):
            rec.case(["tunnel-proxy-header-name", hn])
            judge_tunnel(rec, "https://h.test/p", "tunnel-proxy-headers", {hn: "v"})
    for hv in insertions("token", HOSTILE):
        ti += 1
        if ctx.mine(ti):
            rec.case(["tunnel-proxy-header-value", hv])
            judge_tunnel(rec, "https://h.test/p", "tunnel-proxy-headers", {"Proxy-Authorization": hv, "X-Other": "1"})
    # empty and tiny bodies under caller-requested chunked framing: the terminating chunk must appear exactly once
    if ctx.shard == 0:
        for entry in entries:
            for body in (b"", "", b"x", "y", [b""], [b"", b"z", b""]):
                for te in ("chunked", "Chunked"):
                    for m in ("POST", "PUT"):
                        url0 = "/upload" if entry in ("conn", "pool") else "http://h.test/upload"
                        rec.case(["empty-chunked", entry, repr(body), te, m])
                        rec.mon("empty_body_chunked")
                        judge(rec, entry, m, url0, {"Transfer-Encoding": te, "X-After": "1"}, body, "empty-chunked")
    # (v) default / reused header containers across calls that give their body in different ways
    if ctx.shard == 0:
        for entry in ("pool", "manager", "proxy"):
            for container in ("dict", "HTTPHeaderDict"):
                for where in ("defaults", "per-request"):
                    for rot in range(len(DEFAULT_CALLS)):
                        rec.case(["defaults", entry, container, where, rot])
                        judge_defaults(rec, entry, container, where, rot)
    h2_checks(ctx, rec)


def h2_valid_name(n: bytes) -> bool:
    return len(n) > 0 and all(c in b"!#$%&'*+-.^_`|~0123456789abcdefghijklmnopqrstuvwxyz" for c in n)


def h2_valid_value(v: bytes) -> bool:
    if any(c in (0, 10, 13) for c in v):
        return False
    if v[:1] in (b" ", b"\t") or v[-1:] in (b" ", b"\t"):
        return False
    return True


def h2_checks(ctx: Ctx, rec: Recorder) -> None:
    """HTTP/2 header validity: whatever putheader lets through to H2Connection.send_headers must be a valid field."""
    from urllib3.http2.connection import HTTP2Connection

    names = ["x-test", "X-Test", "x test", "x:test", "x\r\ntest", "", "x\x00", "é", ":path", "x-té", "x_test", "x\ttest"]
    values = ["v", "", " v", "v ", "\tv", "v\t", "a\r\nb", "a\nb", "a\rb", "a\x00b", "a b", "é", "a\r\n b", "\r\n", "v\n", "\nv", "a\x0bb"]
    for sym in HOSTILE:
        values.append("va" + sym + "lue")
        names.append("x-" + sym + "t")
    i = 0
    for n in names:
        for v in values:
            i += 1
            if not ctx.mine(i):
                continue
            for as_bytes in (False, True):
                nn: typing.Any = n.encode("utf-8") if as_bytes else n
                vv: typing.Any = v.encode("utf-8") if as_bytes else v
                rec.case(["h2", n, v, as_bytes])
                sent: list[list[tuple[bytes, bytes]]] = []

                class FakeH2:
                    def get_next_available_stream_id(self) -> int:
                        return 1

                    def send_headers(self, stream_id: int, headers: typing.Any, end_stream: bool = False) -> None:
                        sent.append(list(headers))

                    def data_to_send(self) -> bytes:
                        return b""

                class FakeSock:
                    def sendall(self, data: bytes) -> None:
                        pass

                try:
                    c = HTTP2Connection("h.test")
                    c._h2_conn._obj = FakeH2()  # what reaches the HTTP/2 layer is observed here
                    c.sock = FakeSock()  # type: ignore[assignment]
                    c.putrequest("GET", "/")
                    raised = None
                    try:
                        c.putheader(nn, vv)
                    except Exception as e:  # noqa: BLE001
                        raised = e
                    c.endheaders()
                except Exception as e:  # noqa: BLE001
                    rec.fail({"h2": True, "name": n, "value": v, "bytes": as_bytes}, "h2-harness-exception", {"exc": type(e).__name__}, repr(e))
                    continue
                rec.mon("h2_header")
                fields = [(k, val) for k, val in (sent[0] if sent else []) if not k.startswith(b":")]
                bad = [(k, val) for k, val in fields if not h2_valid_name(k) or not h2_valid_value(val)]
                if bad:
                    rec.fail({"h2": True, "name": n, "value": v, "bytes": as_bytes}, "h2-invalid-field-sent", {"field": [list(x) for x in bad]}, f"invalid HTTP/2 field reached send_headers: {bad!r}")
                elif raised is None:
                    want = [(n.encode("utf-8").lower(), v.encode("utf-8"))]
                    if fields != want:
                        rec.fail({"h2": True, "name": n, "value": v, "bytes": as_bytes}, "h2-field-changed", {"sent": [list(x) for x in fields]}, f"accepted header changed on the way: {fields!r} != {want!r}")
                elif fields:
                    rec.fail({"h2": True, "name": n, "value": v, "bytes": as_bytes}, "h2-rejected-but-sent", {"sent": [list(x) for x in fields]}, "putheader raised but a field was sent")


def replay(case: dict[str, typing.Any], ctx: Ctx, rec: Recorder) -> None:
    if case.get("h2"):
        h2_checks(Ctx(ctx.prop, ctx.tier, ctx.seed, 0, 1, ctx.budget_s), rec)
        return
    from urllib3 import HTTPHeaderDict

    hdrs: typing.Any = case["headers"]
    if case.get("hdr_type") == "HTTPHeaderDict":
        hdrs = HTTPHeaderDict([tuple(x) for x in hdrs])
    elif case.get("hdr_type") == "NoneType":
        hdrs = None
    else:
        def undo(x: typing.Any) -> typing.Any:
            return x["__bytes__"].encode("latin-1") if isinstance(x, dict) and "__bytes__" in x else x

        hdrs = {undo(k): undo(v) for k, v in hdrs}
    body = case["body"]
    if isinstance(body, dict) and "__bytes__" in body:
        body = body["__bytes__"].encode("latin-1")
    elif isinstance(body, list) and body and body[0] == "array-H":
        body = ("array-H", body[1]["__bytes__"].encode("latin-1") if isinstance(body[1], dict) else body[1])
    elif isinstance(body, list) and body and body[0] == "iter":
        body = [b["__bytes__"].encode("latin-1") if isinstance(b, dict) else b for b in body[1:]]
    rec.case(case)
    if case.get("entry") == "tunnel":
        ph = {k: v for k, v in case["proxy_headers"]} if case.get("proxy_headers") else None
        judge_tunnel(rec, case["url"], "replay", ph)
        return
    if "sequence" in case:
        rec.note_inconclusive("sequence cases are replayed by re-running the check (deterministic enumeration)")
        return
    judge(rec, case["entry"], case["method"], case["url"], hdrs, body, "replay")
