"""E3 sched — controlled scheduler over real threads (C02, C17).

Exactly one worker thread runs at a time; the baton is passed at *preemption points* delivered by
sys.monitoring LINE events on the code objects of urllib3 that touch shared state.  Blocking primitives are
replaced through urllib3's own extension points by cooperative equivalents with identical semantics
(`SchedLifoQueue` for ConnectionPool.QueueCls, `SchedRLock` for RecentlyUsedContainer.lock).  A schedule is
the list of decisions taken at preemption points and can be replayed exactly."""
from __future__ import annotations

import queue
import sys
import threading
import types
import typing

TOOL_ID = 4
_active: "Scheduler | None" = None
_instrumented: dict[types.CodeType, bool] = {}
_tls = threading.local()


class SchedDeadlock(BaseException):
    """Raised inside a worker that can never be woken again, so that the run terminates."""


class StepLimit(BaseException):
    pass


def code_objects_of(module: types.ModuleType, names: typing.Iterable[str] | None = None) -> list[types.CodeType]:
    """All code objects defined in ``module`` (functions, methods, nested generators); ``names`` restricts by
    qualified-name suffix."""
    out: list[types.CodeType] = []
    seen: set[int] = set()
    fn = getattr(module, "__file__", None)

    def add(code: types.CodeType) -> None:
        if id(code) in seen or code.co_filename != fn:
            return
        seen.add(id(code))
        out.append(code)
        for c in code.co_consts:
            if isinstance(c, types.CodeType):
                add(c)

    def walk(obj: typing.Any, depth: int = 0) -> None:
        if depth > 3:
            return
        if isinstance(obj, (types.FunctionType,)):
            add(obj.__code__)
            w = getattr(obj, "__wrapped__", None)
            if w is not None:
                walk(w, depth + 1)
        elif isinstance(obj, (staticmethod, classmethod)):
            walk(obj.__func__, depth + 1)
        elif isinstance(obj, property):
            for f in (obj.fget, obj.fset, obj.fdel):
                if f is not None:
                    walk(f, depth + 1)
        elif isinstance(obj, type) and getattr(obj, "__module__", None) == module.__name__:
            for v in vars(obj).values():
                walk(v, depth + 1)

    for v in vars(module).values():
        walk(v)
    if names is not None:
        names = list(names)
        out = [c for c in out if any(c.co_qualname.endswith(n) for n in names)]
    return out


def instrument(codes: typing.Iterable[types.CodeType]) -> None:
    mon = sys.monitoring
    if mon.get_tool(TOOL_ID) is None:
        mon.use_tool_id(TOOL_ID, "vf-sched")
        mon.register_callback(TOOL_ID, mon.events.LINE, _on_line)
    for c in codes:
        if c not in _instrumented:
            mon.set_local_events(TOOL_ID, c, mon.events.LINE)
            _instrumented[c] = True


def _on_line(code: types.CodeType, line: int) -> typing.Any:
    s = _active
    if s is None:
        return None
    st = getattr(_tls, "state", None)
    if st is None or st.sched is not s:
        return None
    s.preemption_point(st, code, line)
    return None


class TState:
    def __init__(self, sched: "Scheduler", index: int, name: str, fn: typing.Callable[[], typing.Any]):
        self.sched = sched
        self.index = index
        self.name = name
        self.fn = fn
        self.sem = threading.Semaphore(0)
        self.status = "new"  # new | runnable | blocked | done
        self.blocked_on: typing.Any = None
        self.block_timeout: float | None = None
        self.wake_reason: str | None = None
        self.result: typing.Any = None
        self.exc: BaseException | None = None
        self.thread: threading.Thread | None = None
        self.in_critical = 0  # >0 while inside one of our own primitives (no preemption there)


class Scheduler:
    """policy: ("replay", [decisions]) | ("random", rng, p_switch) | ("pct", rng, depth)
    A decision is (point_index, thread_index): at the point_index-th preemption point switch to that thread."""

    def __init__(self, policy: tuple[typing.Any, ...], systematic_filter: typing.Callable[[types.CodeType], bool] | None = None, step_limit: int = 200000):
        self.policy = policy
        self.threads: list[TState] = []
        self.current: TState | None = None
        self.points = 0  # preemption points at which a decision was possible (>= 2 enabled threads)
        self.all_points = 0
        self.trace: list[tuple[int, str, int]] = []  # (thread, qualname, line) at decision points
        self.switches: list[tuple[int, int, str, int]] = []  # (point index, to thread, qualname, line)
        self.decision_map = dict(policy[1]) if policy[0] == "replay" else {}
        self.filter = systematic_filter
        self.done_evt = threading.Event()
        self.deadlocked: list[int] = []
        self.step_limit = step_limit
        self.aborted: str | None = None
        self.lock_events: list[tuple[typing.Any, ...]] = []
        self.point_sites: set[tuple[str, int]] = set()
        self.point_info: list[tuple[int, list[int]]] = []  # per decision point: (running thread, other enabled threads)
        if policy[0] == "pct":
            rng, depth = policy[1], policy[2]
            self.prio: dict[int, float] = {}
            self.change_at = sorted(rng.randrange(1, 400) for _ in range(depth))
        self.rng = policy[1] if policy[0] in ("random", "pct") else None

    # -- thread management -----------------------------------------------------------------------
    def spawn(self, name: str, fn: typing.Callable[[], typing.Any]) -> TState:
        st = TState(self, len(self.threads), name, fn)
        self.threads.append(st)

        def body() -> None:
            _tls.state = st
            st.sem.acquire()
            try:
                if self.aborted is None:
                    st.result = fn()
            except BaseException as e:  # noqa: BLE001
                st.exc = e
            finally:
                _tls.state = None
                st.status = "done"
                self._schedule_next_after_exit(st)

        st.thread = threading.Thread(target=body, name=f"vf-{name}", daemon=True)
        st.status = "runnable"
        return st

    def run(self, watchdog_s: float = 60.0) -> bool:
        """Runs all spawned threads to completion under the policy.  Returns False if the wall-clock watchdog fired."""
        global _active
        _active = self
        try:
            for st in self.threads:
                assert st.thread is not None
                st.thread.start()
            first = self._pick(None)
            if first is None:
                return True
            self.current = first
            first.sem.release()
            ok = self.done_evt.wait(watchdog_s)
            if not ok:
                self.aborted = "watchdog"
                # let everybody run to the end (they check self.aborted)
                for st in self.threads:
                    if st.status != "done":
                        st.wake_reason = "abort"
                        st.sem.release()
            return ok
        finally:
            _active = None

    # -- decisions -------------------------------------------------------------------------------
    def _enabled(self) -> list[TState]:
        return [t for t in self.threads if t.status == "runnable"]

    def _pick(self, cur: TState | None) -> TState | None:
        en = self._enabled()
        if not en:
            return None
        if cur is not None and cur.status == "runnable" and self.policy[0] == "replay":
            return cur
        if self.policy[0] == "replay":
            return en[0]
        if self.policy[0] == "random":
            return self.rng.choice(en)
        # pct: highest priority enabled
        for t in en:
            if t.index not in self.prio:
                self.prio[t.index] = self.rng.random()
        return max(en, key=lambda t: self.prio[t.index])

    def preemption_point(self, st: TState, code: types.CodeType, line: int, force: bool = False) -> None:
        if st is not self.current or st.in_critical or self.aborted:
            if self.aborted == "steps":
                raise StepLimit()
            return
        self.all_points += 1
        if self.all_points > self.step_limit:
            self.aborted = "steps"
            raise StepLimit()
        en = self._enabled()
        if len(en) < 2:
            return
        if self.filter is not None and not force and not self.filter(code):
            if self.policy[0] == "replay":
                return
        idx = self.points
        self.points += 1
        self.point_sites.add((code.co_qualname, line))
        self.point_info.append((st.index, [t.index for t in en if t is not st]))
        self.trace.append((st.index, code.co_qualname, line))
        target: TState | None = None
        if self.policy[0] == "replay":
            t = self.decision_map.get(idx)
            if t is not None and t != st.index and self.threads[t].status == "runnable":
                target = self.threads[t]
        elif self.policy[0] == "random":
            if self.rng.random() < self.policy[2]:
                others = [t for t in en if t is not st]
                target = self.rng.choice(others)
        else:  # pct
            if self.change_at and self.all_points >= self.change_at[0]:
                self.change_at.pop(0)
                self.prio[st.index] = -self.all_points  # lowest from now on
            for t in en:
                if t.index not in self.prio:
                    self.prio[t.index] = self.rng.random()
            best = max(en, key=lambda t: self.prio[t.index])
            if best is not st:
                target = best
        if target is not None:
            self.switches.append((idx, target.index, code.co_qualname, line))
            self._switch(st, target)

    def _switch(self, frm: TState, to: TState) -> None:
        self.current = to
        to.sem.release()
        frm.sem.acquire()
        if self.aborted == "steps":
            raise StepLimit()

    # -- blocking --------------------------------------------------------------------------------
    def block(self, st: TState, on: typing.Any, timeout: float | None) -> str:
        """Current thread cannot proceed.  Returns the wake reason: 'signal' | 'timeout' | 'deadlock' | 'abort'."""
        st.status = "blocked"
        st.blocked_on = on
        st.block_timeout = timeout
        st.wake_reason = None
        nxt = self._pick(None)
        if nxt is None:
            nxt = self._resolve_no_enabled()
        if nxt is st:
            pass
        elif nxt is not None:
            self.current = nxt
            nxt.sem.release()
            st.sem.acquire()
        else:
            # nobody at all: we were marked deadlocked ourselves
            pass
        reason = st.wake_reason or "signal"
        st.blocked_on = None
        return reason

    def unblock(self, st: TState, reason: str = "signal") -> None:
        if st.status == "blocked":
            st.status = "runnable"
            st.wake_reason = reason

    def _resolve_no_enabled(self) -> TState | None:
        """No thread is enabled.  Wake a waiter that has a timeout (virtual time passes); otherwise the remaining
        blocked threads are deadlocked: wake them with reason 'deadlock' so that they terminate."""
        blocked = [t for t in self.threads if t.status == "blocked"]
        timed = [t for t in blocked if t.block_timeout is not None]
        if timed:
            t = min(timed, key=lambda x: (x.block_timeout, x.index))
            t.status = "runnable"
            t.wake_reason = "timeout"
            return t
        if blocked:
            for t in blocked:
                if t.index not in self.deadlocked:
                    self.deadlocked.append(t.index)
                t.status = "runnable"
                t.wake_reason = "deadlock"
            return blocked[0]
        return None

    def _schedule_next_after_exit(self, st: TState) -> None:
        nxt = self._pick(None)
        if nxt is None:
            nxt = self._resolve_no_enabled()
        if nxt is None:
            self.done_evt.set()
            return
        self.current = nxt
        nxt.sem.release()


def current_state() -> TState | None:
    st = getattr(_tls, "state", None)
    if st is not None and st.sched is _active:
        return st
    return None


# ------------------------------------------------------------------ cooperative primitives ----
class SchedLifoQueue:
    """Drop-in for queue.LifoQueue as used by urllib3 (put/get/qsize + .queue), cooperative under the scheduler and
    an ordinary (single-threaded) LIFO outside of it."""

    instances: list["SchedLifoQueue"] = []
    hook: typing.Callable[[str, "SchedLifoQueue", typing.Any], None] | None = None  # ("get"|"put", queue, item)

    def __init__(self, maxsize: int = 0):
        self.maxsize = maxsize
        self.queue: list[typing.Any] = []
        self.waiters: list[TState] = []
        self.log: list[tuple[typing.Any, ...]] = []  # (op, thread index, item id / None)
        SchedLifoQueue.instances.append(self)

    def qsize(self) -> int:
        return len(self.queue)

    def empty(self) -> bool:
        return not self.queue

    def full(self) -> bool:
        return 0 < self.maxsize <= len(self.queue)

    def put(self, item: typing.Any, block: bool = True, timeout: float | None = None) -> None:
        st = current_state()
        if st is not None:
            # the caller has already loaded the queue object (`self.pool`) and is now inside the call: a switch here
            # is the window between that attribute load and the queue operation taking effect
            st.sched.preemption_point(st, SchedLifoQueue.put.__code__, -1, force=True)
            st.in_critical += 1
        try:
            if 0 < self.maxsize <= len(self.queue):
                self.log.append(("put-full", st.index if st else -1, id(item) if item is not None else None))
                raise queue.Full
            self.queue.append(item)
            self.log.append(("put", st.index if st else -1, id(item) if item is not None else None))
            if SchedLifoQueue.hook is not None:
                SchedLifoQueue.hook("put", self, item)
            if self.waiters:
                w = self.waiters.pop(0)
                w.sched.unblock(w)
        finally:
            if st is not None:
                st.in_critical -= 1

    def put_nowait(self, item: typing.Any) -> None:
        self.put(item, block=False)

    def get(self, block: bool = True, timeout: float | None = None) -> typing.Any:
        st = current_state()
        if st is not None:
            st.sched.preemption_point(st, SchedLifoQueue.get.__code__, -1, force=True)
            st.in_critical += 1
        try:
            while not self.queue:
                if not block or st is None:
                    self.log.append(("get-empty", st.index if st else -1, None))
                    raise queue.Empty
                self.waiters.append(st)
                self.log.append(("get-wait", st.index, None))
                reason = st.sched.block(st, self, timeout)
                if st in self.waiters:
                    self.waiters.remove(st)
                if reason == "timeout":
                    self.log.append(("get-timeout", st.index, None))
                    raise queue.Empty
                if reason in ("deadlock", "abort"):
                    self.log.append(("get-deadlock", st.index, None))
                    raise SchedDeadlock(f"thread {st.index} would wait forever in queue.get()")
            item = self.queue.pop()
            self.log.append(("get", st.index if st else -1, id(item) if item is not None else None))
            if SchedLifoQueue.hook is not None:
                SchedLifoQueue.hook("get", self, item)
            return item
        finally:
            if st is not None:
                st.in_critical -= 1

    def get_nowait(self) -> typing.Any:
        return self.get(block=False)


class SchedRLock:
    def __init__(self) -> None:
        self.owner: TState | None | str = None
        self.count = 0
        self.waiters: list[TState] = []
        self.log: list[tuple[str, int]] = []

    def acquire(self, blocking: bool = True, timeout: float = -1) -> bool:
        st = current_state()
        me: typing.Any = st if st is not None else "main"
        if st is not None:
            st.in_critical += 1
        try:
            while self.owner is not None and self.owner is not me:
                if not blocking or st is None:
                    return False
                self.waiters.append(st)
                reason = st.sched.block(st, self, None)
                if st in self.waiters:
                    self.waiters.remove(st)
                if reason in ("deadlock", "abort"):
                    raise SchedDeadlock(f"thread {st.index} would wait forever for the container lock")
            self.owner = me
            self.count += 1
            self.log.append(("acquire", st.index if st else -1))
            return True
        finally:
            if st is not None:
                st.in_critical -= 1

    def release(self) -> None:
        st = current_state()
        self.count -= 1
        self.log.append(("release", st.index if st else -1))
        if self.count == 0:
            self.owner = None
            if self.waiters:
                w = self.waiters.pop(0)
                w.sched.unblock(w)

    def held_by_current(self) -> bool:
        st = current_state()
        me: typing.Any = st if st is not None else "main"
        return self.owner is me and self.count > 0

    def __enter__(self) -> bool:
        return self.acquire()

    def __exit__(self, *a: typing.Any) -> None:
        self.release()


# ------------------------------------------------------------------ systematic exploration ----
def explore(run_one: typing.Callable[[tuple[typing.Any, ...]], tuple[list[tuple[int, list[int]]], typing.Any]], bound: int, max_runs: int,
            expand: typing.Callable[[list[tuple[int, int]], int, int, typing.Any], bool] | None = None) -> typing.Iterator[tuple[list[tuple[int, int]], typing.Any]]:
    """Iterative preemption-bounded exploration.  ``run_one(("replay", decisions))`` must return
    (point_info, outcome) where point_info[i] = (running thread, other enabled threads) at decision point i.
    Yields (decisions, outcome) for every executed schedule, breadth first (fewest preemptions first).
    ``expand(decisions, point, thread, outcome)`` may prune children (directed families of schedules)."""
    frontier: list[list[tuple[int, int]]] = [[]]
    runs = 0
    while frontier and runs < max_runs:
        decisions = frontier.pop(0)
        info, outcome = run_one(("replay", decisions))
        runs += 1
        yield decisions, outcome
        if len(decisions) >= bound:
            continue
        start = decisions[-1][0] + 1 if decisions else 0
        for p in range(start, len(info)):
            for t in info[p][1]:
                if expand is None or expand(decisions, p, t, outcome):
                    frontier.append(decisions + [(p, t)])
