"""Static description of every check (no urllib3 import here: the parent process reads this)."""
from __future__ import annotations

import types
import typing

META: dict[str, dict[str, typing.Any]] = {}


def reg(prop: str, **kw: typing.Any) -> None:
    kw.setdefault("LEVEL", "exploration")
    kw.setdefault("ASSUMPTIONS", [])
    kw.setdefault("SHARDS", {"quick": 8, "thorough": 16})
    kw.setdefault("BUDGET", {"quick": 30, "thorough": 360})
    kw.setdefault("REQUIRED_MONITORS", {"quick": {}, "thorough": {}})
    kw.setdefault("EXHAUSTIVE", {"quick": False, "thorough": False})
    META[prop] = kw


def get(prop: str) -> types.SimpleNamespace:
    return types.SimpleNamespace(**META[prop])


ENGINES: list[dict[str, typing.Any]] = [
    {"name": "runner", "path": "vf/runner.py", "serves_properties": ["*"], "kind_free_text": "shards workloads over subprocesses, merges monitor counters, classifies failures against known_findings.json, writes evidence, three-valued exit status"},
    {"name": "model-based monitors", "path": "vf/props/", "serves_properties": ["C16"], "kind_free_text": "real urllib3 objects driven through generated histories; observable state compared with small reference models after every step"},
]
NOTES = "Technique family: runtime monitoring. Exit 0 = held on everything explored, 1 = VIOLATION, 2 = inconclusive (monitor never reached / watchdog). See DESIGN.md."

COMMON_ASSUMPTIONS = [
    "verdict is about the executions produced by this run only (runtime monitoring): paths the workload did not drive are not covered",
    "CPython 3.12.1 / OpenSSL 3.0 / http.client of this interpreter are the trusted base below urllib3",
]

reg(
    "C16",
    RULE="histories of HTTPHeaderDict operations (set/del/add/add-combine/setdefault/pop/popitem/discard/clear/extend/update/|=/|/reversed |/copy/constructor from dict, pair list, live HTTPHeaderDict or keys-object) on two live objects plus retired ones; exhaustive up to a depth over a reduced alphabet and up to length 2 over the full alphabet, random up to length 30; a case is its operation list; non-trivial = at least 2 operations; distinct = distinct operation lists; one-shot and other plain iterables of pairs as operands (iterator, generator, zip, tuple, dict items view)",
    ASSUMPTIONS=COMMON_ASSUMPTIONS + [
        "reference multimap: assignment replaces the values in place (position kept, last-set casing), add appends (first-seen casing), combine joins onto the last value, update() from a multi-valued HTTPHeaderDict assigns the merged value, popitem removes the first entry (MutableMapping semantics)",
        "exhaustive enumeration uses a reduced alphabet (3 names, 2 values); length-5 exhaustive enumeration over the statement's full alphabet (>10^10 histories) is replaced by random histories",
    ],
    SHARDS={"quick": 8, "thorough": 16},
    BUDGET={"quick": 40, "thorough": 400},
    LEVEL_TEXT="Model-based runtime monitoring: every generated history is executed on real HTTPHeaderDict objects and after each step the complete observable state (lookup under every casing, getlist, iteration orders, items view, len, membership, ==, repr, independence of copies) of every live object is compared with a reference multimap; exhaustive for short histories over a reduced alphabet and length<=2 over the full alphabet, random to length 30.",
    LEVEL_NOTE="Trusts the 60-line reference multimap (validated by agreeing with the unchanged tree on every observable) and CPython's MutableMapping mixins; histories longer than the bounds are sampled, not enumerated.",
    TECHNIQUE="model-based runtime monitoring: reference-model comparison after every operation + structural aliasing invariant",
    REQUIRED_MONITORS={"quick": {"state_compare": 50000, "aliasing": 50000, "equality": 50000}, "thorough": {"state_compare": 10**6, "aliasing": 10**6}},
)

reg(
    "C08",
    RULE="(SAN list, commonName, cn flag, host) tuples fed to the real match_hostname / connection._match_hostname and (certificate bytes, pin) pairs fed to assert_fingerprint; names built from the label alphabet {a,b,ab,*,a*,*a,a*b,**,xn--a,xn--*,''}: all single-entry x host pairs up to the stated label counts, strided 4-label pairs, case variants, random 2-3 entry lists, exhaustive small commonName grid, IP spellings typed DNS / IP Address; pins: case change, colon at every position, every single-nibble flip, every truncation, 1-2 nibble extensions, wrong-length digests; a case is non-trivial unless it is the unmodified true pin; distinct = distinct tuples; call histories (accepting call, then rejecting calls that share its host / SAN list / entry) through both entry points; pin histories: after a malformed pin of the right length (non-hex character) the true pins of every length and spelling are still accepted",
    ASSUMPTIONS=COMMON_ASSUMPTIONS + [
        "three-valued reference: partial wildcards (a*, *a, a*b), bare '*', hosts that themselves contain '*', empty names and unparsable iPAddress entries are 'either' and only counted",
        "commonName is must-accept only when enabled, the host is not an IP and the certificate has no subjectAltName entry at all; with a SAN that holds only non-host names (URI, email) it is 'either' (RFC 6125 6.4.4 forbids the fallback, OpenSSL's X509_check_host and CPython's matcher apply it)",
        "SAN lists longer than 3 entries and names longer than 4 labels are not generated",
    ],
    SHARDS={"quick": 8, "thorough": 16},
    BUDGET={"quick": 40, "thorough": 420},
    LEVEL_TEXT="Runtime monitoring of the real matchers against an independent three-valued RFC 6125 reference: every single-entry/host pair over the stated label alphabet up to 3 labels is enumerated (4 labels strided), plus case variants, multi-entry lists, the commonName grid, IP-literal spellings through both entry points, and the complete stated pin-mutation family for MD5/SHA-1/SHA-256 digests of several certificates.",
    LEVEL_NOTE="Trusts the reference matcher (about 60 lines, written from the statement) and Python's ipaddress module for address values; 'either' points are counted but never judged.",
    TECHNIQUE="differential runtime monitoring against a three-valued reference matcher; exhaustive enumeration of the small alphabet",
    REQUIRED_MONITORS={"quick": {"pin_history": 1000, "name_decided": 100000, "pin_verdict": 5000, "cn_rule": 500, "ip_rule": 500, "history_sequence": 400}, "thorough": {"pin_history": 1000, "name_decided": 10**6, "pin_verdict": 5000, "history_sequence": 400}},
)

reg(
    "C14",
    RULE="strings given to parse_url: every string up to a length bound over the 20-symbol delimiter-heavy alphabet behind the prefixes '', '//', 'http://', 'HTTPS://x'; grammar-generated URLs with hostile components and one-character splices; random unicode incl. lone surrogates; 49 pathological repetition families (incl. authorities that fail to match after a long run) timed at n=10^3..10^5; a case is the input string (or timing family); non-trivial = non-empty body; distinct = distinct strings; call histories: one host spelling parsed under ftp/http/socks5h/HTTPS/'//'/ws/none in every rotation (same string must give the same result as the first time); refused strings inside call histories, each handed in twice in a row",
    ASSUMPTIONS=COMMON_ASSUMPTIONS + [
        "the independent authority split is applied only to inputs that have an RFC 3986 authority ('scheme://' or '//' prefix); scheme-less inputs such as 'host:80' follow urllib3's documented best-effort reading and are judged for totality and normal form only",
        "host agreement is modulo case, IDNA (idna package) and zone '%25'->'%'; userinfo agreement is after percent-decoding; '' and None hosts are identified for the reference comparison (idempotence is judged separately)",
        "running time: CPU thread_time, min of 3, must stay <= 5 s at n=10^5 and grow <= 12x per 4x size step above 20 ms; a breach must be confirmed by 3 re-measurements",
        "a component that mixes valid and invalid '%' is by design treated as unencoded (documented behaviour of _encode_invalid_chars)",
    ],
    SHARDS={"quick": 8, "thorough": 16},
    BUDGET={"quick": 60, "thorough": 900},
    LEVEL_TEXT="Runtime monitoring of parse_url on an exhaustive short-string space plus grammar/random/pathological inputs; each result is judged by a totality monitor, a normal-form predicate, an idempotence monitor, an independent RFC 3986 authority split, and a CPU-time scaling monitor.",
    LEVEL_NOTE="Trusts the 50-line reference authority splitter and the idna package; strings longer than the exhaustive bound are sampled; timing is measured on this machine with a generous envelope.",
    TECHNIQUE="differential runtime monitoring against an independent RFC 3986 authority reader + invariant (normal form, idempotence) and scaling monitors; exhaustive short-string enumeration",
    REQUIRED_MONITORS={"quick": {"totality": 100000, "normal_form": 20000, "idempotence": 20000, "reference_split": 20000, "scaling": 40, "history_purity": 1000}, "thorough": {"totality": 10**6, "reference_split": 10**5, "scaling": 40, "history_purity": 1000}},
)

reg(
    "C20",
    RULE="field lists given to encode_multipart_formdata / request_encode_body: every name/filename up to a length bound over the hostile alphabet {\" ' \\ ; CR LF CRLF = é 😀 SP -- a} in four input forms and inside a 3-field sandwich; random lists of 1-4 fields (plain, (filename,data), (filename,data,mime), RequestField with extra headers) in dict/list containers with explicit or random boundaries and hostile values (CRLF, dash runs, a look-alike delimiter of another boundary, arbitrary bytes); a case is the field list + container + boundary + entry point; non-trivial = name other than ''/'a'; 1-3 multipart requests through one RequestMethods object whose default or per-call headers are None / dict / HTTPHeaderDict, random and fixed boundaries; every 7th random encode preceded by an encode that fails part-way through its fields; realistic file names whose guessed type depends on more than the last extension, in every order of two; RFC 2046 example boundaries (boundary parameter must be a token or a quoted-string: recorded finding); MIME types and extra headers containing CR/LF must be refused; names, filenames and extra header values containing characters that str.splitlines() treats as line boundaries (VT, FF, FS, GS, RS, NEL, LS, PS) and other controls",
    ASSUMPTIONS=COMMON_ASSUMPTIONS + [
        "premise of the statement: cases whose data contains the chosen boundary delimiter are skipped (counted)",
        "expected parameter values use forward WHATWG escaping (CR, LF, double quote percent-encoded, UTF-8); un-escaping is not attempted because it is not injective",
        "caller-supplied MIME types and extra part headers are benign (the statement quantifies over names, filenames and values)",
    ],
    SHARDS={"quick": 8, "thorough": 16},
    BUDGET={"quick": 30, "thorough": 360},
    LEVEL_TEXT="Runtime monitoring of the encoder: every produced body is parsed back by a strict independent multipart parser and compared part by part (count, order, exact header lines, disposition parameters, byte-identical data, boundary named = boundary used), for an exhaustive hostile-name space and random field lists, through three entry points including the in-memory wire.",
    LEVEL_NOTE="Trusts the strict multipart parser in vf/wire.py (about 60 lines) and Python's mimetypes for the default part type.",
    TECHNIQUE="round-trip runtime monitoring with an independent strict parser (structural oracle) + forward-escaping reference",
    REQUIRED_MONITORS={"quick": {"unicode_line_boundary": 100, "filename_pair": 300, "parse_back": 5000, "part_compare": 8000, "wire_roundtrip": 3, "multipart_sequence": 30, "encode_after_failed_encode": 1000}, "thorough": {"unicode_line_boundary": 100, "filename_pair": 300, "parse_back": 10**5, "part_compare": 10**5, "wire_roundtrip": 20, "multipart_sequence": 30, "encode_after_failed_encode": 1000}},
)

reg(
    "C18",
    RULE="pairs of request contexts for one PoolManager that differ in exactly one keyword (or in none / only host case and explicit default port); the keyword universe is computed from inspect.signature of HTTP(S)ConnectionPool and HTTP(S)Connection constructors + PoolKey._fields + SSL_KEYWORDS; every keyword gets 2-13 pairwise-distinct typed values, all value pairs are compared, via pool_kwargs and via constructor defaults, for http and https; a case is (keyword, scheme, placement, value index); distinct = distinct such tuples; all are non-trivial; default -> override -> default and override-first sequences on one ProxyManager for every public keyword; a manager around a caller-supplied SSLContext whose verify_mode is rewritten by connections made with cert_reqs overrides; the pool is also observed where urlopen() picks it: a look-up with per-call overrides followed by plain request() calls under the manager's own different settings must use two sockets; request contexts handed to connection_from_context() twice",
    ASSUMPTIONS=COMMON_ASSUMPTIONS + [
        "values come from a typed table; a keyword missing from the table gets two sentinel strings and is listed in the evidence",
        "'equal settings' means equal by the value type's own equality (dicts/lists by value; SSLContext, Retry, Timeout objects by identity)",
        "blocksize=None is documented to mean the default block size and is not required to differ from it",
    ],
    SHARDS={"quick": 4, "thorough": 8},
    BUDGET={"quick": 30, "thorough": 120},
    EXHAUSTIVE={"quick": True, "thorough": True},
    LEVEL_TEXT="Runtime monitoring of pool identity: for every keyword the constructors accept (derived from their signatures at run time) and every pair of table values, the PoolManager's returned pool objects are observed for distinctness / sameness, the manager's defaults are snapshotted before and after, and a sample of keywords is driven end to end over the in-memory network to observe that a differing setting dials a new socket.",
    LEVEL_NOTE="Complete over the signature-derived keyword set and the value table (finite, enumerated); trusts inspect.signature and the value table's typing.",
    TECHNIQUE="signature-derived differential monitoring of pool identity + dial-count monitor on the in-memory network",
    REQUIRED_MONITORS={"quick": {"e2e_urlopen_dials": 60, "from_context_reuse": 4, "distinct_for_different": 300, "same_for_equal": 100, "defaults_unchanged": 50, "e2e_dials": 10, "proxy_manager_sequence": 40, "context_state_sequence": 4}, "thorough": {"e2e_urlopen_dials": 60, "from_context_reuse": 4, "distinct_for_different": 300, "same_for_equal": 100, "defaults_unchanged": 50, "e2e_dials": 10, "proxy_manager_sequence": 40, "context_state_sequence": 4}},
)

reg(
    "C10",
    RULE="calls of HTTPConnection.request, HTTPConnectionPool.urlopen, PoolManager.request and ProxyManager.request (forwarding, absolute-form) with method / URL / header name / header value built from benign seeds by inserting each of 40 hostile strings (CR, LF, CRLF, NUL, DEL, SP, HTAB, ':', non-ASCII, percent forms, '#', '?', backslash, an embedded header line, an embedded complete request, degenerate folds ...) at every position (exhaustive for one insertion), special inputs (empty / odd methods, automatic-header supply and SKIP_HEADER combinations, repeated fields, bytes names, all body kinds incl. bodies containing a complete request), random multi-field insertions, and two-call sequences on one pool/manager (hostile call, then a benign one whose bytes must be exactly its own request); HTTP/2: names x values through HTTP2Connection.putheader observed at H2Connection.send_headers; a case is the argument tuple; all are non-trivial; distinct = distinct tuples; empty and one-byte bodies under caller-requested chunked framing; a 2-byte-item buffer body whose bytes spell a second request; https URLs with every hostile symbol at every position of host / port requested through a CONNECT tunnel (the bytes sent to the proxy must be one well-formed CONNECT); header names ending in SP/HTAB count as the header they spell in the automatic-header rule; bodies that are not sendable at all (int, float, bool, object) and duck-typed readers; connection-level sequences (rejected or sent call, close(), benign request on the same object); sequences on one client whose default / reused header container is a dict or an HTTPHeaderDict and whose calls give the body as fields=, json=, body= or nothing",
    ASSUMPTIONS=COMMON_ASSUMPTIONS + [
        "a bare CR or LF inside a header value is tolerated only when followed by SP/HTAB (a degenerate line fold: no recipient can read it as a new field); header names need not be RFC tokens (one odd header line, not an injected one)",
        "target relation: percent-decoding the emitted target gives the requested target (or its percent-decoded form) without fragment, dot-segments removed for the PoolManager/ProxyManager entries, and the emitted target uses RFC 3986 characters only; HTTPConnection.request must emit the target verbatim",
        "the server script always answers 200, so a call that raises after writing bytes is judged on those bytes",
    ],
    SHARDS={"quick": 8, "thorough": 16},
    BUDGET={"quick": 45, "thorough": 400},
    LEVEL_TEXT="Runtime monitoring at the socket boundary: all bytes passed to sendall() are parsed by an independent strict HTTP/1.1 request parser (exactly one request, CRLF discipline, token method, no residue) and related back to the arguments (method identical, target an encoding of the requested one, caller header lines in order and unmodified, automatic Host/Accept-Encoding/User-Agent lines exactly per the rule); a call that raises must have written nothing.",
    LEVEL_NOTE="Trusts the strict parser in vf/wire.py and urllib.parse.unquote_to_bytes; inputs are the stated hostile alphabet at every position plus random combinations, not all strings.",
    TECHNIQUE="wire-level runtime monitoring with an independent strict request parser + relational oracle on method/target/headers",
    REQUIRED_MONITORS={"quick": {"conn_reuse_after_close": 40, "defaults_sequence": 50, "connect_headers": 100, "call": 10000, "wire_parse": 3000, "header_list": 2000, "target_relation": 2000, "h2_header": 1000, "sequence": 1000, "empty_body_chunked": 40, "tunnel_call": 500}, "thorough": {"conn_reuse_after_close": 40, "defaults_sequence": 50, "connect_headers": 100, "call": 50000, "wire_parse": 15000, "h2_header": 1000, "empty_body_chunked": 40, "tunnel_call": 500}},
)

reg(
    "C12",
    RULE="(response spec, call sequence) pairs: payload sizes {0,1,5,100,3000,70000} with position-identifying content x framing {Content-Length, chunked with random chunk-size vectors and extensions, close-delimited} x coding {identity, gzip, 2-member gzip, x-gzip, zlib, raw deflate, zstd, 2-frame zstd, two-coding stacks, unknown} x socket segmentation {1,2,7 bytes, random, whole} x decode_content x call sequences over read(), read(n), read1(n), read1(), readinto(k), read(0), stream(a), read_chunked(a), iteration with n in {1,2,3,7,64,1000}, the last call repeated until two empty results; exhaustive for short sequences on small bodies, random beyond; plus preloaded .data; a case is (spec, sequence); non-trivial = all; distinct = distinct pairs; two responses alive at once on one pool with alternating reads (6 x 4 coding pairs); responses that reach the caller through a pool after transparent re-sends (dropped connection, retried status, same-host redirect) with decoding on and off; body-less responses that announce a Content-Encoding (HEAD, 204, 304, Content-Length: 0) through every way of reading",
    ASSUMPTIONS=COMMON_ASSUMPTIONS + [
        "all calls of one sequence use the same explicit decode_content (as the statement says)",
        "read1(n)/readinto(k) may return fewer bytes than asked at any time (their documented contract); only read(n) must fill unless the body ends",
        "generators (stream/read_chunked/iteration) stay open and are resumed by later steps; on chunked bodies a sequence uses one generator (two simultaneously suspended chunk-parser generators on one response are not generated); __iter__ is only used with decode_content=True because it takes no such argument",
    ],
    SHARDS={"quick": 8, "thorough": 16},
    BUDGET={"quick": 60, "thorough": 480},
    LEVEL_TEXT="Runtime monitoring of real HTTPResponse objects produced by HTTPConnection.getresponse() over an in-memory socket with server-controlled segmentation: for each generated (response, call sequence) the concatenated pieces are compared byte-for-byte with the payload the generator encoded, and per-call size rules (read(n) <= n and short only at the end, no empty streamed piece, b'' after the end, .data equal) are asserted.",
    LEVEL_NOTE="Trusts zlib/zstandard as encoders for building responses and the generator's bookkeeping of the expected bytes; sequences longer than the exhaustive bound are sampled.",
    TECHNIQUE="differential runtime monitoring of read-API call sequences against the generator's payload (byte equality + per-call contracts)",
    REQUIRED_MONITORS={"quick": {"through_pool": 200, "bodyless_response": 100, "response": 8000, "concatenation": 6000, "size_rules": 6000, "preload_data": 200, "interleaved_pair": 40}, "thorough": {"through_pool": 200, "bodyless_response": 100, "response": 10**5, "concatenation": 10**5, "preload_data": 1000, "interleaved_pair": 40}},
)

reg(
    "C13",
    LEVEL="fault_enumeration",
    RULE="(response spec, damage, read pattern) triples: C12's responses damaged by (a) truncation at every byte of the body section for small bodies (sampled for large) followed by EOF, (b) replacement of every digit of chunk-size lines by a non-hex character or removal of the size, (c) single-byte corruption of the compressed stream inside complete framing, (d) an incomplete content stream inside complete framing; read with read(), read(n) loops, read1(n) loops, read1() loops, readinto, stream(a), read_chunked(a), iteration and preload through a real pool, followed by a second request on the same pool; a case is the triple; all non-trivial; distinct = distinct triples; zstd frames with several blocks and a content checksum, cut at every byte position, read with stream(1)/stream(2) among the patterns; end of body is the first empty result of the read pattern; a Content-Length around urllib3's internal thresholds (2**28, 2**31) with a few body bytes, with the stdlib backend and with pyOpenSSL injected; Content-Length in list form ('5, 5') with a short body; stacks of codings with zstd outermost cut at every point; zero-padded chunk sizes cut inside a size line (recorded finding)",
    ASSUMPTIONS=COMMON_ASSUMPTIONS + [
        "three-valued: cuts at or after the '0' of the terminating chunk, truncated gzip/deflate streams inside complete framing, corruption the reference decoder (zlib/zstandard used directly) does not notice, and corruption in the second gzip member (documented trailing-garbage tolerance) are 'either'; close-delimited bodies are excluded",
        "truncation is modelled as EOF (server closes); a stalled server (read timeout) is not generated here",
    ],
    SHARDS={"quick": 8, "thorough": 16},
    BUDGET={"quick": 60, "thorough": 480},
    LEVEL_TEXT="Fault enumeration with runtime monitors: for every damage point and every read pattern the monitor observes whether the read sequence reached a normal end of body without ProtocolError/IncompleteRead/DecodeError (violation when the point is must-detect), which exception class surfaced, whether the carrying socket was closed, and on which socket the pool's next request was answered.",
    LEVEL_NOTE="Trusts the damage classifier (position relative to the terminating chunk; zlib/zstandard as reference decoders) and the in-memory network's EOF semantics.",
    TECHNIQUE="fault enumeration (every truncation point x read API) with an end-of-body monitor and a connection-reuse monitor on the in-memory network",
    REQUIRED_MONITORS={"quick": {"huge_announced": 300, "content_length_list": 200, "zero_padded_chunk_size": 100, "damaged_response": 5000, "must_detect": 3000, "second_request": 3000}, "thorough": {"huge_announced": 300, "content_length_list": 200, "zero_padded_chunk_size": 100, "damaged_response": 50000, "must_detect": 30000, "second_request": 30000}},
)

reg(
    "C11",
    RULE="product of body kind (None, bytes, bytearray, memoryview, array, str ASCII/non-ASCII, BytesIO, StringIO, binary file at offset 0/k/EOF, text file, read-only file-like, file-like whose tell raises, unseekable file, seekable streams that return short reads before EOF (pipe-like, RawIOBase), generator, lists with and without empty chunks, iterable of str, tuple) x size {0,1,blocksize-1,blocksize,blocksize+1,5*blocksize} (blocksize 64; default block size once) x method {GET,HEAD,DELETE,OPTIONS,POST,PUT,PATCH,custom} x chunked flag x history {ok, reset-ok, eof-ok, send-reset-ok, 503-ok, 503-503-ok, 301/307/308-ok, 307-307-ok, 303-ok, 503-307-ok} x entry {bare pool, PoolManager}; a case is that tuple; non-trivial unless body None with history ok; bytes-like bodies whose buffer has multi-byte items (array('H'), memoryview.cast('I')); 90 kB bodies of 7 kinds over real TLS (direct, CONNECT tunnel, TLS-in-TLS), with and without chunked framing, hashed by the origin; text-mode files from which the caller has already read through the text layer (readline, next, read(n), also larger than the read-ahead chunk); sequences of uploads on one connection / pool / manager / CONNECT tunnel that share one header object; large uploads over real TLS with the stdlib backend and with pyOpenSSL; attempts that the server answers (503 + Retry-After / 307) and closes after the request head, while the body is still being written",
    ASSUMPTIONS=COMMON_ASSUMPTIONS + [
        "retries use Retry(total=6, status_forcelist=[503], allowed_methods=None) so that every method is re-sent and fidelity can be observed",
        "an empty bytes/str body counts as a body (exactly one framing header), only body=None is 'body-less'",
    ],
    SHARDS={"quick": 8, "thorough": 16},
    BUDGET={"quick": 60, "thorough": 480},
    EXHAUSTIVE={"quick": False, "thorough": True},
    LEVEL_TEXT="Runtime monitoring at the socket boundary over the full product of body kinds, sizes, methods, chunking and attempt histories: every attempt's bytes are decoded by the independent framing parser (exactly one of Content-Length / chunked, payload = body bytes, body-less rules) and attempt n is compared byte-for-byte with attempt 1, the only accepted alternative being UnrewindableBodyError.",
    LEVEL_NOTE="Trusts the framing parser in vf/wire.py and the generator's bookkeeping of each body's bytes; quick strides the product 1/2, thorough enumerates it completely.",
    TECHNIQUE="wire-level runtime monitoring with an independent framing parser + cross-attempt byte-equality monitor over enumerated histories",
    REQUIRED_MONITORS={"quick": {"shared_header_sequence": 60, "case": 3000, "framing": 3000, "payload_equal": 2000, "resend_compare": 2000, "tls_upload": 40}, "thorough": {"shared_header_sequence": 60, "case": 30000, "resend_compare": 20000, "tls_upload": 40}},
)

reg(
    "C04",
    RULE="(Retry configuration, placement, method, pool type, outcome sequence): a lattice total in {None,0,1,2,False} x one per-category budget in {0,1} crossed with all outcome sequences up to a length bound over {connect refused, read timeout, reset after the request was written, TLS-layer error, 503, 200, 429+Retry-After} for GET/POST on a direct pool; random configurations (all Retry fields incl. allowed_methods, status_forcelist, raise_on_status, respect_retry_after_header, backoff_*; ints/False/None) placed at request, pool or both levels x methods {GET,POST,PUT,DELETE,'get','post'} x sequences of length <= 5 over 14 outcomes (also connect timeout, EOF, garbage, 413/503 with Retry-After seconds or HTTP-date, non-forcelisted 500) x {direct, forwarding-proxy, tunnelling-proxy} pools; a case is that tuple; all non-trivial; backoff_max in {unset, 0, 0.0, 0.3, 1, 7}; the same client used beforehand with another plain per-request policy; outcome sequences with redirects through the pool, a PoolManager and a forwarding ProxyManager (what the pool spent before a 3xx stays spent); a TLS failure while the response is awaited is a read error in the reference (urllib3 files it under 'other': recorded finding)",
    ASSUMPTIONS=COMMON_ASSUMPTIONS + [
        "attempts are classified by what the harness injected: connect error = failed dial; read error = receive timeout / reset / EOF / garbage after the request was completely written; other error = TLS-layer failure; the non-idempotent rule is 'must not re-send' after read errors and error statuses, 'either' after other errors",
        "the statement bounds retries from above: not retrying although a budget would allow it is not a violation",
        "sleeps are recorded on a virtual clock (time.sleep in urllib3.util.retry replaced); Retry-After HTTP-dates are relative to that clock",
    ],
    SHARDS={"quick": 8, "thorough": 16},
    BUDGET={"quick": 60, "thorough": 480},
    LEVEL_TEXT="Runtime monitoring of the closed retry loop on the in-memory network: per-attempt outcome scripts drive the real urlopen recursion; an independent accountant over the injected-outcome log checks attempts <= 1 + total, per-category retry counts, the non-idempotent rule, retries=False, immutability of the caller's Retry (deep snapshot), every recorded sleep, and how exhaustion surfaces (MaxRetryError.reason / last response).",
    LEVEL_NOTE="Trusts the accountant's classification of injected outcomes and the effective-policy resolver (request level > pool level > Retry(3)).",
    TECHNIQUE="history monitoring: per-attempt wire/fault log checked by an independent retry-budget accountant; virtual-clock sleep recorder",
    REQUIRED_MONITORS={"quick": {"redirect_budget_case": 1000, "case": 8000, "budgets": 8000, "non_idempotent_rule": 8000, "sleeps": 8000, "outcome_shape": 8000, "status_retry_cause": 8000, "warmup_request": 100}, "thorough": {"redirect_budget_case": 1000, "case": 10**5, "budgets": 10**5, "warmup_request": 100}},
)

reg(
    "C05",
    RULE="(redirect graph, policy, placement, client, method): graphs over origins a.test:80, b.test:8080, https c.test:443 and a.test:8081 with chains/loops of 1-6 hops, codes {301,302,303,307,308}, Location forms {absolute, explicit default port, upper-case host, path-absolute, relative, relative with dot segments, scheme-relative, with fragment, with query, missing}; policy values {None, False, 0, 1, 2, Retry(redirect=k), Retry(total=k), both, raise_on_redirect False} placed at request level, second level (bare pool constructor / PoolManager / ProxyManager constructor), both, or redirect=False; GET and POST with body; systematic (policy x placement x client x length x code, form x code x client) plus random graphs; a case is that tuple; all non-trivial; the same client used beforehand with another per-request policy (0, False, 1, True, Retry objects, unset); the manager's own pool used directly after a pool for the same origin was looked up with a more generous override; the first URL given without scheme with every Location form; a call that stops short of its budget without exhausting one is a violation; a retried status (503 + Retry-After) in front of the 3xx of the first hop, with redirects on and off; a manager without proxy must resolve a Location itself (no absolute-form target on the wire)",
    ASSUMPTIONS=COMMON_ASSUMPTIONS + [
        "one-sided: following fewer redirects than the policy allows is counted, not a violation",
        "effective policy: request-level value if not None, else the pool / manager constructor value, else Retry(3); ints mean total=n with raise_on_redirect, False means budget 0 and the 3xx is returned",
        "Location resolution is judged against an RFC 3986 section 5 resolver written for this check (cross-checked against urllib.parse.urljoin on every case)",
    ],
    SHARDS={"quick": 8, "thorough": 16},
    BUDGET={"quick": 60, "thorough": 420},
    LEVEL_TEXT="Runtime monitoring of the ordered request log of an in-memory multi-origin network: each request urllib3 makes while following a redirect graph is compared with a reference walk (resolved target, method, body, content headers) and the number of follow-ups with the budget of the policy in effect; the way exhaustion surfaces is checked against raise_on_redirect.",
    LEVEL_NOTE="Trusts the reference resolver/walker (about 80 lines) and the policy resolver; origins are distinguished by dial address and fake TLS flag.",
    TECHNIQUE="history monitoring: request log vs reference walk of the redirect graph + redirect-budget monitor",
    REQUIRED_MONITORS={"quick": {"status_retry_then_redirect": 30, "schemeless_start": 10, "case": 5000, "budget": 5000, "request_sequence": 5000, "ending": 4000, "warmup_request": 100, "manager_pool_after_override_lookup": 10}, "thorough": {"status_retry_then_redirect": 30, "schemeless_start": 10, "case": 10**5, "budget": 10**5, "warmup_request": 100, "manager_pool_after_override_lookup": 10}},
)

reg(
    "C06",
    RULE="(redirect chain, header set, container, placement, strip set, client): chain shapes A>B, A>B>A, A>B>relative, A>A:80>B, upper-case / explicit-default-port same-origin hops, port-only and scheme-only origin changes, scheme-relative and relative Locations, all 3xx codes; sensitive headers in 9 casings, custom header names; containers dict / HTTPHeaderDict (incl. repeated Cookie fields) supplied per request or as manager default; default and custom remove_headers_on_redirect given per request or on the manager constructor; PoolManager, ProxyManager (forwarding + tunnel, with proxy_headers) and a bare pool; optionally a failing first attempt; a case is that tuple; all non-trivial; requests whose headers are all in the strip set sent through managers that have sensitive default headers of their own; optionally an earlier request with credentials of its own on the same manager (nothing of it may appear in the judged chain); a scheme-less first URL with a network-path Location; through a forwarding proxy a redirect to the proxy's own origin (recorded finding); chains that start at or pass through an https origin (a CONNECT tunnel behind the proxy) and come back to http with sensitive-only headers over sensitive manager defaults; layered header mappings (collections.ChainMap)",
    ASSUMPTIONS=COMMON_ASSUMPTIONS + [
        "origin equality: scheme, lower-cased host, port with defaults filled in (explicit default port and letter case are the same origin)",
        "dropping a sensitive header on a same-origin hop is counted, not a violation (the statement forbids forwarding, it does not demand forwarding)",
        "content headers removed by a 303 method change are not 'other headers lost'",
    ],
    SHARDS={"quick": 8, "thorough": 16},
    BUDGET={"quick": 60, "thorough": 420},
    LEVEL_TEXT="Runtime monitoring of the per-origin request log: for each request of each redirect chain, headers named by the strip set in effect must be absent from the first cross-origin hop on, all other caller headers present and unaltered, proxy headers never inside a tunnel; a bare pool must raise HostChangedError with nothing dialled or sent elsewhere.",
    LEVEL_NOTE="Trusts the independent origin-equality predicate and C05's reference walk for 'which hop is cross-origin'.",
    TECHNIQUE="history monitoring: per-origin request log vs origin-equality + strip-set oracle",
    REQUIRED_MONITORS={"quick": {"redirect_to_proxy_origin": 3, "schemeless_start": 6, "case": 5000, "request_headers": 8000, "pool_host_guard": 100, "sensitive_only_over_defaults": 100}, "thorough": {"redirect_to_proxy_origin": 3, "schemeless_start": 6, "case": 10**5, "request_headers": 10**5, "sensitive_only_over_defaults": 100}},
)

reg(
    "C01",
    LEVEL="fault_enumeration",
    RULE="histories of 1-3 requests on one pool, each request a script of 1-3 per-attempt outcomes drawn from {connect refused / timeout / other OSError / KeyboardInterrupt / bare BaseException; send EPIPE / ECONNRESET / EIO / interrupt at the 1st or 2nd send; receive timeout / reset / EOF / garbage / TLS error / KeyboardInterrupt / SystemExit / BaseException before the status line; interrupt or OSError from the pool's liveness probe at checkout; responses 200 keep-alive / close / chunked / close-delimited / short body / fault or interrupt in the middle of the body; 204; 302/303/307 to the same host; 503 force-listed keep-alive or close; 429+Retry-After; 500}, each response disposed by one of 11 ways (read, read part then release, release unread, drain, close, part then close, stream, read1 loop, context manager, .data, drain+release) immediately or late (overlapping leases); configurations pool kind {direct, forwarding proxy, CONNECT tunnel with fake TLS} x maxsize {1,2,3} x block x 6 retry policies x preload_content x release_conn; single-outcome product enumerated (strided in quick) plus random histories; a case is (configuration, history); all non-trivial; mid-body faults also on Connection: close / close-delimited / chunked responses; body-less 302/307/503 answers; connect-step outcomes additionally through urllib3's own create_connection with 1-3 addresses per name (scripted getaddrinfo / socket constructor); disposals that stop exactly at the announced length (read1 / readinto) without a further read or release; families added after independent audits: a call rejected for its arguments while other responses are leased; a file-like body whose position cannot be recorded / restored taking a second hop (redirect, status retry, connection error) while other responses are leased; a body iterator that makes a request of its own through the same pool; undecodable announced content with partial reads; after a failed read the response is disposed of by release_conn() or close() alternately; close() alone is a complete disposal, also for a preloaded response handed out with release_conn=False",
    ASSUMPTIONS=COMMON_ASSUMPTIONS + [
        "'closed' means explicitly closed at the quiescent point, without waiting for garbage collection",
        "after a read raised, the harness calls release_conn() on that response (as the statement's 'read, released or closed' requires some disposal)",
        "BaseException is injected at the connect / send / receive steps named by the quantifier, not at arbitrary bytecodes",
    ],
    SHARDS={"quick": 8, "thorough": 16},
    BUDGET={"quick": 60, "thorough": 480},
    LEVEL_TEXT="Fault enumeration with runtime monitors at quiescent points: after every request and every disposal a sequential slot model (leased + queued = maxsize; at quiescence queued = maxsize) is compared with the pool's queue, the queue is checked for duplicate connection objects, every socket ever created must be idle in the pool, leased, or explicitly closed, dial events on block=True pools must never exceed maxsize open sockets, every exception reaching the caller must be a urllib3 HTTPError, and an injected BaseException must surface as the identical object; a lease probe checks the public behaviour (N leases, N+1 raises EmptyPoolError).",
    LEVEL_NOTE="Trusts the in-memory network's socket life-cycle bookkeeping and the slot model; reads pool.pool.queue (the LIFO queue's list) at quiescent points only.",
    TECHNIQUE="fault injection at every I/O step + invariant monitors at quiescent points (slot conservation, socket life-cycle, exception-class and interrupt-identity oracles)",
    REQUIRED_MONITORS={"quick": {"rejected_call": 500, "unrewindable_second_hop": 100, "nested_call_in_body": 16, "quiescent_point": 20000, "request": 10000, "disposal": 5000, "open_socket_bound": 5000, "interrupt_identity": 200, "lease_probe": 300, "deep_dial_case": 200, "starvation": 2000}, "thorough": {"rejected_call": 500, "unrewindable_second_hop": 100, "nested_call_in_body": 16, "quiescent_point": 10**5, "request": 10**5, "deep_dial_case": 200, "starvation": 2000}},
)

reg(
    "C03",
    RULE="sequences of 2-4 requests (GET/HEAD/POST) over one pool of size 1-2 with retries False or 2; per arrival the server picks one of 23 behaviours (Content-Length / chunked / close-delimited, keep-alive or Connection: close, segmented delivery, a read timeout or I/O error in the middle of a segmented body whose rest is still in flight, short body, bytes beyond Content-Length, a body whose tail looks like a complete response, 100-continue, 204/304, unsolicited garbage / a complete bogus response / EOF sent with the response or while the connection is idle before the next checkout); per response the caller picks one of 9 behaviours (read all, read part then release, release unread, drain, close, read part then close, stream, stream partly then abandon, ignore); every body embeds the request id taken from the path; length-2 histories enumerated (strided in quick), longer ones random; a case is the whole history; all non-trivial; caller behaviour 'read-late' (two leases overlap, then two connections idle) and a family in which both idle connections of a pool of 2-3 receive unsolicited bytes / EOF before the next requests; a directed case for a response released unread and then garbage collected while the rest of its body is still on its way; unsolicited records on idle connections over real TLS 1.2 / 1.3 sockets; caller behaviours read1()/readinto() loops and early release (release_conn=True with a streamed body, then close() or read()); server behaviours that deliver the body in chosen pieces (equal parts, a second half / a whole body that is itself an HTTP message, a read that fails right before that part); real-TLS strays, also in the same TLS record as the end of the previous body and on a connection object re-established while another descriptor holds the number of its old socket",
    ASSUMPTIONS=COMMON_ASSUMPTIONS + [
        "unsolicited bytes are sent either together with the response or at an idle point before the next checkout; bytes arriving after checkout are outside the statement",
        "a request arriving on a connection with undelivered bytes of the previous exchange is allowed as long as no response is handed to the caller for it (urllib3 may fail with ProtocolError and retry)",
    ],
    SHARDS={"quick": 8, "thorough": 16},
    BUDGET={"quick": 60, "thorough": 420},
    LEVEL_TEXT="Runtime monitoring with tagged responses: every delivered byte sequence must be a prefix of the body generated for that request id (foreign, shifted or stray bytes are visible), the delivered status must be one the server sent for that id, and the server-side monitor flags any response obtained from a connection that still had undelivered bytes of an earlier exchange when the request arrived.",
    LEVEL_NOTE="Trusts the in-memory network's delivery bookkeeping (segments / kernel buffer) for the 'unclean connection' monitor.",
    TECHNIQUE="history monitoring with unique ids embedded in every response (prefix oracle) + server-side cleanliness monitor at request arrival",
    REQUIRED_MONITORS={"quick": {"tls_stray_after_reconnect": 4, "history": 5000, "body_prefix": 10000, "clean_connection": 5000, "two_idle_connections": 60, "released_unread_then_collected": 4, "tls_idle_stray": 8}, "thorough": {"tls_stray_after_reconnect": 4, "history": 10**5, "body_prefix": 10**5, "two_idle_connections": 60, "released_unread_then_collected": 4, "tls_idle_stray": 8}},
)

reg(
    "C19",
    RULE="(timeout configuration, placement, durations, scheme, request sequence): (total, connect, read) over {unset, None, 0.5, 2, 10}^3 and legacy single numbers, given to the pool, to the request, or both (request must win; the next request falls back to the pool's); connect durations {0,0.3,1,5,20}, send durations {0,0.2,1.5}, response durations {0,0.4,1.5,3,9,12,30} on a virtual clock; http pools (connect inside request), https pools with a fake TLS layer (connect inside validation) and https-through-proxy tunnels; 2-3 requests per pool so that fresh and reused connections and a shared pool-level Timeout are covered; plus 12 invalid values x 3 fields x Timeout / pool / request placements; a case is that tuple; all non-trivial; the invalid values once more after equal-valued valid timeouts (1, 1.0, ...) were used in the process; the same grid through a PoolManager that already holds pools for the host with timeouts agreeing on some of (total, connect, read); the connect phase of a tunnelled request (dial + CONNECT) counts towards total",
    ASSUMPTIONS=COMMON_ASSUMPTIONS + [
        "'unset' means the system default (socket.getdefaulttimeout(), None here); values are compared as recorded at the dial / at settimeout() with a 1e-6 tolerance",
        "for CONNECT tunnels the dial to the proxy and the writing of the CONNECT request are the connect phase of the attempt: their (virtual) durations are charged against total like a direct connect",
        "float('nan') and infinity are not in the invalid set (the statement lists zero, negatives, booleans and non-numbers)",
    ],
    SHARDS={"quick": 8, "thorough": 16},
    BUDGET={"quick": 45, "thorough": 300},
    EXHAUSTIVE={"quick": False, "thorough": True},
    LEVEL_TEXT="Runtime monitoring on a virtual clock: the timeout handed to every dial and the last settimeout() before every response wait are recorded by the in-memory socket and compared with the reference arithmetic; a zero remaining budget must raise ReadTimeoutError without any recv(); no negative value may ever be set; invalid values must be rejected with ValueError before any I/O; a pool-level Timeout object must never have its own clock started.",
    LEVEL_NOTE="Trusts the reference arithmetic (10 lines) and the virtual clock substitution for time.monotonic in urllib3.util.timeout.",
    TECHNIQUE="runtime monitoring of socket timeout values on a virtual clock against reference arithmetic (full configuration grid)",
    REQUIRED_MONITORS={"quick": {"manager_prior_pools": 50, "request": 2000, "connect_timeout": 1000, "read_timeout": 1000, "invalid_rejected": 30, "invalid_after_priming": 4}, "thorough": {"manager_prior_pools": 50, "request": 20000, "connect_timeout": 10000, "read_timeout": 10000, "invalid_rejected": 30, "invalid_after_priming": 4}},
)

reg(
    "C15",
    RULE="http/https URLs that PoolManager accepts: 17 host forms (names in several casings, trailing dot, IPv4, bracketed IPv6 with and without zone, IDN as U-label / upper-case / A-label) x 8 port forms (none, explicit default, odd, 0, 65535, leading zeros) x http/https x direct / through a proxy (forwarded absolute-form or CONNECT tunnel); userinfo x path x query x fragment forms (empty path with query, dot segments, spaces, non-ASCII, percent forms); case / explicit-default-port variants of one URL; random assemblies; a case is (URL, route); all non-trivial; redirects followed by the manager from 5 first URLs to 10 second URLs (other host / port / scheme), direct and through a proxy, with and without caller headers; every host spelling first parsed under ws / ftp / socks5h; manager default and caller headers also as HTTPHeaderDict; through a forwarding proxy an explicit default port and an empty path must give the same bytes as the plain spelling; scoped IPv6 literals whose zone ids differ in letter case on one manager (dial monitor); sequences on one manager while the server closes the connection after every answer (every re-established connection is dialled and tunnelled as its URL says)",
    ASSUMPTIONS=COMMON_ASSUMPTIONS + [
        "the TLS server name is observed at the innermost wrap call (urllib3.connection.ssl_wrap_socket replaced by a recorder, everything above it is the real code); no real handshake is made here (C07/C09 do that)",
        "oracle decisions fixed by the wording: dial host keeps a trailing dot and the zone id but never brackets; Host is the host without zone, bracketed for IPv6, trailing dot either, port appended iff not the scheme default; TLS server name has no brackets, zone or trailing dot",
        "the request target is compared modulo percent-encoding (and, when the URL path contains dot segments, modulo repeated slashes)",
    ],
    SHARDS={"quick": 8, "thorough": 16},
    BUDGET={"quick": 60, "thorough": 420},
    LEVEL_TEXT="Runtime monitoring of four independently derived observables per URL on the in-memory network (dial address, Host header parsed by the strict request parser, server name handed to the TLS layer, request target) against an independent reading of the URL, plus pool identity and byte-identity for case/default-port variants.",
    LEVEL_NOTE="Trusts the reference URL reader shared with C14 and the idna package for IDN hosts.",
    TECHNIQUE="relational runtime monitoring: consistency of dial address, Host header, TLS server name and request target with an independent URL reading",
    REQUIRED_MONITORS={"quick": {"reconnect_sequence": 6, "zone_case_sequence": 3, "same_bytes": 10, "url": 1500, "dial": 1000, "host_header": 1000, "request_target": 1000, "tls_server_name": 40, "same_pool": 5, "manager_sequence": 6, "redirect_follow_up": 100, "primed_other_scheme": 400}, "thorough": {"reconnect_sequence": 6, "zone_case_sequence": 3, "same_bytes": 10, "url": 20000, "tls_server_name": 1000, "redirect_follow_up": 100, "primed_other_scheme": 400}},
)

reg(
    "C02",
    RULE="(configuration, schedule): configurations = 2-3 worker threads x 1-2 requests each on one pool, maxsize {1,2}, block {True,False}, optional closer thread calling close(), optional failing first attempt (connection reset or 503 retried), preloaded or streamed+released responses; schedules = every interleaving with at most 1 (quick) / 2 (thorough) preemptions at line granularity inside _get_conn/_put_conn/close/_close_pool_connections/release_conn/urlopen/_new_conn (breadth-first, capped per configuration) plus seeded random-walk and PCT-style priority schedules over all instrumented lines of connectionpool.py, response.py and connection.py; plus real-scheduler stress runs (6-12 threads x 40-150 requests, stdlib queue.LifoQueue with monitor hooks under its own mutex, switch interval 1e-6, seeded yield injection); a case is (configuration, decision list or seed); non-trivial = at least one preemption; distinct interleavings are counted by the hash of the switch sequence; plus a directed family for close(): one worker preempted at its lease boundary, then close() to completion at every later decision point; switch points also inside the queue's put/get (after the caller loaded the queue object); body-less 503 / 302 first answers on block=True pools; watchdog configurations: a worker calls shutdown() on a response it has read and released a moment ago (ownership monitor also on shutdown events); workers whose first answer is undecodable content read in pieces and disposed of by close() (the slot must come back to the waiters)",
    ASSUMPTIONS=COMMON_ASSUMPTIONS + [
        "controlled mode: exactly one worker runs at a time; preemption points are sys.monitoring LINE events, so switches between two bytecodes of one statement are not explored",
        "the pool's queue is replaced through the documented QueueCls extension point by a cooperative LIFO queue with the semantics of queue.LifoQueue (maxsize, Full/Empty, blocking get with timeout); preemption inside the C code of queue/threading is not explored",
        "socket I/O never blocks (in-memory network), so a schedule in which no thread is enabled is a genuine deadlock / lost wake-up of the pool code",
        "'every request eventually completes' is judged as: in every explored schedule all threads reach their end",
    ],
    SHARDS={"quick": 8, "thorough": 16},
    BUDGET={"quick": 60, "thorough": 480},
    LEVEL_TEXT="Schedule exploration with runtime monitors: the real pool code runs on real threads under a controlled scheduler (one thread at a time, baton passed at sys.monitoring LINE events); per executed interleaving the monitors check socket ownership (no connection used by a thread that does not hold it, none leased or queued twice), the open-socket bound for block=True, that each response carries its own request id, that every thread terminates (no enabled thread = deadlock / lost wake-up), the exception whitelist under a racing close() (normal result or ClosedPoolError only), and that no socket survives dropping the pool object.",
    LEVEL_NOTE="Trusts the scheduler (vf/sched.py), the cooperative queue's equivalence to queue.LifoQueue and the in-memory network; explores up to the stated preemption bound plus random schedules, not all interleavings.",
    TECHNIQUE="controlled-scheduler interleaving exploration (preemption-bounded + randomized/PCT) with ownership, bound, termination and exception-whitelist monitors",
    REQUIRED_MONITORS={"quick": {"schedule": 1500, "termination": 1500, "results": 1500, "post_mortem_sweep": 1000, "stress_run": 4, "close_directed_schedule": 500}, "thorough": {"schedule": 30000, "termination": 30000, "close_directed_schedule": 500}},
)

reg(
    "C17",
    RULE="(i) every operation sequence up to length 5 (quick, 3 keys) / 6 (thorough, 4 keys) over get/set/delete per key + clear + len, maxsize in {0,1,2,3}, on the real RecentlyUsedContainer vs a sequential LRU model with dispose log; (ii) 7 concurrent container scenarios (2-3 threads x 1-3 operations) x maxsize {0,1,2} under the controlled scheduler: all schedules with <= 2 preemptions at line granularity inside the container methods (capped) + random schedules, histories checked for linearizability, exactly-once disposal, conservation, dispose-never-under-lock; (iii) 6 PoolManager scenarios x num_pools {1,2}: threads doing connection_from_url over 3 origins, full requests, streamed responses held across evictions, clear() and len(), same exploration; a case is the sequence or (scenario, schedule); non-trivial = length >= 3 / at least one preemption; manager scenarios include requests whose redirect the manager follows and direct pool.urlopen calls on cached pools; pools of 2-3 slots brought into every queue shape by overlapping streamed requests (finished / failed / closed in every order) and by failing requests under the scheduler, then evicted / cleared / closed; sequential look-up histories on a PoolManager and a forwarding / tunnelling ProxyManager through every entry point, compared step by step with the LRU model (cache content and order, pool handed out is the cached one, same parameters same object until evicted)",
    ASSUMPTIONS=COMMON_ASSUMPTIONS + [
        "the container's lock is replaced through its public 'lock' instance attribute by a cooperative re-entrant lock (identical semantics), the pools' queue through QueueCls; preemption points are LINE events",
        "same-key-same-pool under races is judged as: two different pool objects for one origin are only acceptable if the first one was evicted or cleared (recorded at the container's dispose callback) before the second was handed out",
        "evicted pools are reclaimed by their weakref finalizer: sockets are swept after all references held by the scenario are dropped and gc.collect() has run",
    ],
    SHARDS={"quick": 8, "thorough": 16},
    BUDGET={"quick": 60, "thorough": 480},
    LEVEL_TEXT="Model-based runtime monitoring of the real LRU container (exhaustive short sequential histories vs a sequential model with dispose log) plus controlled-scheduler exploration of concurrent container and PoolManager histories with a linearizability checker, exactly-once disposal / conservation monitors, a 'dispose never under the lock' hook, the num_pools bound, the same-key-same-pool rule, in-flight responses across evictions and a socket sweep after references are dropped.",
    LEVEL_NOTE="Trusts the 50-line LRU model, the brute-force linearizability search (histories <= 9 operations, node budget => inconclusive) and the scheduler.",
    TECHNIQUE="reference-model comparison (sequential, exhaustive) + linearizability checking of scheduler-controlled concurrent histories + disposal/bound/leak monitors",
    REQUIRED_MONITORS={"quick": {"manager_lookup": 500, "sequential_history": 100000, "container_schedule": 500, "linearizability": 500, "manager_schedule": 200, "same_key_same_pool": 200, "inflight_and_sweep": 200, "queue_shape_sweep": 100}, "thorough": {"manager_lookup": 500, "sequential_history": 10**6, "container_schedule": 10000, "manager_schedule": 5000, "queue_shape_sweep": 100}},
)

reg(
    "C07",
    RULE="(server certificate, client settings, route, backend): leaf in {exact, wildcard, upper-case wildcard, IPv4, IPv6, commonName-only, other name, multi-SAN} x issuer in {trusted, untrusted CA} x requested host form (case, trailing dot, sub-label, bare domain, IPv4, bracketed IPv6 with and without zone, A-label) x cert_reqs in {unset, REQUIRED, OPTIONAL, NONE} x assert_hostname in {unset, False, matching name, other name} x assert_fingerprint in {unset, sha256, sha1, md5, colon/upper-case spelling, wrong digest, bad length} x server_hostname in {unset, right, wrong} x ssl_context in {none, default-like, check_hostname off, verify none} x CA source in {ca_certs, ca_cert_data, none, and the same two naming only the second CA} x route in {direct, CONNECT tunnel through an http proxy, CONNECT tunnel through an https proxy (TLS-in-TLS, ssl backend only)} x backend in {ssl, pyOpenSSL}; one-factor-at-a-time around the secure default for every leaf x host, plus random lattice points; a case is that tuple; all non-trivial (each makes a real handshake); plus a route 'manager-after-lax': one PoolManager from which a pool with laxer pool_kwargs (assert_hostname=False and/or cert_reqs=CERT_NONE) was obtained and used before the judged request goes out with the manager's own settings; CA file for one CA plus CA data for the other; TLS-in-TLS with a separately pinned proxy leg (proxy_assert_fingerprint) for every origin-side mode; the process default trust store (SSL_CERT_FILE) holds the first CA: it applies only when neither a CA setting nor a caller context is given",
    ASSUMPTIONS=COMMON_ASSUMPTIONS + [
        "reference 'demanded checks': chain validation is demanded unless the effective mode is CERT_NONE (cert_reqs if given, else the caller context's verify_mode, else REQUIRED) and passes iff the leaf's issuer is the CA the client was configured with (either of two CAs can be the configured one, so that trust anchors left over from an earlier connection in the same process would show); a pin replaces the hostname check; otherwise a hostname match is demanded unless assert_hostname is False, against assert_hostname / server_hostname / the requested host (brackets, zone and trailing dot removed), judged by the three-valued RFC 6125 reference of C08 with commonName disabled",
        "cert_reqs=CERT_NONE on a caller-supplied context that keeps check_hostname on is a configuration conflict the ssl module rejects with ValueError before any I/O; only 'no bytes sent' is judged there",
        "'socket closed' is observed on the server side (the handler sees EOF within 2.5 s while the harness still holds the raised exception); 'not one byte' is the number of application-data bytes the origin decrypted",
        "under pyOpenSSL 26 any configuration with ca_cert_data fails closed in urllib3.contrib.pyopenssl before any I/O (load_verify_locations(None, None) raises; str data is handed to BytesIO and raises TypeError); it is counted, only 'no byte sent' is judged",
        "for the https-proxy route the leg to the proxy is verified with the same mode and CA settings and comes first: no configured CA and a mode other than NONE is a must-reject; proxy-specific settings (proxy_ssl_context, proxy_assert_hostname/fingerprint) are varied by C09; client certificates and ssl_version pins are not varied",
    ],
    SHARDS={"quick": 8, "thorough": 16},
    BUDGET={"quick": 40, "thorough": 420},
    LEVEL_TEXT="Runtime monitoring of real TLS handshakes: a loopback origin (directly or inside a CONNECT tunnel) with throw-away CAs records whether the handshake completed and how many application bytes it decrypted; for each lattice point the reference 'demanded checks' predicate says must-reject / must-accept / either, and the monitors judge bytes-at-origin, the surfaced exception class, server-observed socket closure, InsecureRequestWarning and is_verified; both the stdlib ssl and the pyOpenSSL backend (separate shard processes).",
    LEVEL_NOTE="Trusts OpenSSL's chain building and the 40-line demanded-checks predicate (reusing C08's reference matcher); lattice points outside the enumerated factor values are not covered.",
    TECHNIQUE="runtime monitoring with a server-side observer: real handshakes over loopback, two-party byte accounting, three-valued reference for the demanded checks",
    REQUIRED_MONITORS={"quick": {"pinned_proxy_tunnel": 10, "lattice_point": 2000, "must_reject": 1000, "must_accept_accepted": 500, "verified_bookkeeping": 500}, "thorough": {"pinned_proxy_tunnel": 10, "lattice_point": 30000, "must_reject": 15000, "must_accept_accepted": 8000, "verified_bookkeeping": 8000}},
)

reg(
    "C09",
    RULE="(proxy scheme http/https, destination scheme, use_forwarding_for_https, proxy certificate ok / wrong name / untrusted, origin certificate ok / wrong name / untrusted, CONNECT reply per connection in {200, 403, 407, 502, garbage, EOF}, proxy_headers set, request headers, destination host form incl. IPv4 / bracketed IPv6 / explicit ports, ProxyManager vs proxy_from_url, proxy URL spelling, retries, 1-3 requests to the same or mixed destinations with the server closing the connection after 1-2 requests, announced or silently): the complete truth table x certificate states x replies with 1-3 requests, plus random cases; a case is that tuple; all non-trivial; proxy-leg verification settings for https proxies (proxy_assert_hostname match / other / wrong-name certificate's name / False, proxy_assert_fingerprint right / wrong, proxy_ssl_context with / without the CA, one shared SSLContext object for proxy leg and origin), the origin inside the tunnel presenting the proxy's certificate, redirect chains through the proxy (http->https, https->http, cross-host) with default and empty strip sets; proxy_ssl_context that trusts nothing next to ca_certs / ca_cert_data for origins; an https destination that is the https proxy's own host:port next to forwarded traffic (recorded finding); a CONNECT reply that is no status line must surface as ProxyError/SSLError like a refusal (recorded finding)",
    ASSUMPTIONS=COMMON_ASSUMPTIONS + [
        "routing reference = the documented table: tunnel iff the destination is https and not (proxy is https and use_forwarding_for_https); with an http proxy the forwarding option has no effect (still tunnels)",
        "exception class: a CONNECT refused with a status must surface as ProxyError or SSLError (possibly as MaxRetryError.reason); a garbage or empty reply to CONNECT is not a refusal and may also surface as ProtocolError — only 'nothing was sent' is judged there; with retries the class is judged on the last attempt",
        "confidentiality is judged on bytes: each request carries unique secrets in path, Authorization and Cookie; every plaintext byte readable by the proxy and every byte decrypted by the origin inside the tunnel is searched for secrets of the other party",
        "the origin inside the tunnel is played by the same listener after CONNECT 200; real upstream dialling by the proxy is not modelled",
        "stdlib ssl backend only (urllib3's pyOpenSSL backend does not support TLS-in-TLS); socks proxies are out of scope",
    ],
    SHARDS={"quick": 8, "thorough": 16},
    BUDGET={"quick": 40, "thorough": 420},
    LEVEL_TEXT="Runtime monitoring with two observers: a recording loopback proxy (plain or TLS) logs every message addressed to it and every plaintext byte it can read; the same listener plays the origin inside CONNECT tunnels (TLS-in-TLS for https proxies) and logs every decrypted byte and request. Each run's logs are judged against the routing truth table, CONNECT target exactness, header confidentiality in both directions, origin-form inside / absolute-form outside the tunnel, SNI inside the tunnel, never-sent-after-refusal/failed-verification with the exception class, and CONNECT-first on every connection that carries tunnelled traffic (re-tunnel after close).",
    LEVEL_NOTE="Trusts the 10-line routing reference and the listener's HTTP/TLS framing (vf/wire.py, ssl.MemoryBIO); proxy behaviours outside the scripted set (slow CONNECT, partial replies, 1xx) are not covered.",
    TECHNIQUE="runtime monitoring with proxy-side and origin-side observers over real sockets and real TLS (incl. TLS-in-TLS); offline check of the two-party logs against the routing table and the confidentiality rule",
    REQUIRED_MONITORS={"quick": {"destination_is_the_proxy": 6, "proxied_run": 2000, "tunnel_connection": 1000, "forward_connection": 500, "confidentiality": 1500, "origin_form": 400, "refusal_class": 150, "origin_verification_class": 60, "retunnelled_after_close": 30, "inner_sni": 200}, "thorough": {"destination_is_the_proxy": 6, "proxied_run": 30000, "tunnel_connection": 15000, "forward_connection": 8000, "confidentiality": 20000, "origin_form": 6000, "retunnelled_after_close": 500}},
)
