"""Multi-origin redirect network on top of netsim (shared by C05, C06).

Origins are told apart by what urllib3 dialled (host, port) and whether the (fake) TLS layer was put on the
socket.  Routes map (origin, path) to a scripted response; every request is logged per origin."""
from __future__ import annotations

import typing

from vf import netsim, wire

ORIGINS = {
    "A": ("http", "a.test", 80),
    "B": ("http", "b.test", 8080),
    "C": ("https", "c.test", 443),
    "A2": ("http", "a.test", 8081),  # same host, other port
    "E": ("https", "a.test", 80),  # same host and port, other scheme
    "D": ("https", "a.test", 443),  # same host, other scheme and (default) port
}


def origin_url(name: str, explicit_default_port: bool = False, upper: bool = False) -> str:
    scheme, host, port = ORIGINS[name]
    h = host.upper() if upper else host
    default = {"http": 80, "https": 443}[scheme]
    s = scheme.upper() if upper else scheme
    if port != default or explicit_default_port:
        return f"{s}://{h}:{port}"
    return f"{s}://{h}"


class RedirServer:
    def __init__(self, routes: dict[tuple[str, str], dict[str, typing.Any]], fail_first: int = 0, status_first: int = 0):
        self.status_first = status_first  # the first n requests are answered '503 + Retry-After: 0' (a retried status)
        self.status_answered = 0
        self.routes = routes
        self.log: list[dict[str, typing.Any]] = []
        self.failed: list[dict[str, typing.Any]] = []  # requests that were answered with a connection reset
        self.fail_first = fail_first

    def origin_of(self, st: netsim.SockState, sc: netsim.ServerConn) -> str:
        host, port = st.dial["host"], st.dial["port"]
        scheme = "https" if st.tls else "http"
        if sc.tunnel is not None:
            # behind a CONNECT tunnel the origin is the tunnel target
            h, _, p = sc.tunnel.decode("latin-1").rpartition(":")
            host, port = h.strip("[]"), int(p)
        for name, (s, h, p) in ORIGINS.items():
            if (s, h, p) == (scheme, host.lower().rstrip("."), port):
                return name
        return f"?{scheme}://{host.lower()}:{port}"

    def on_request(self, net: netsim.Net, sc: netsim.ServerConn, req: wire.Request) -> None:
        st = sc.st
        target = req.target.decode("latin-1")
        via_proxy = None
        origin = self.origin_of(st, sc)
        if target.startswith("http://") or target.startswith("https://"):
            # absolute-form: a forwarding proxy is being addressed; the origin is inside the target
            via_proxy = origin
            rest = target.split("://", 1)[1]
            hostport, _, path = rest.partition("/")
            target = "/" + path
            h, _, p = hostport.partition(":")
            scheme = req.target.decode("latin-1").split("://", 1)[0].lower()
            port = int(p) if p else {"http": 80, "https": 443}[scheme]
            origin = next((n for n, (s, hh, pp) in ORIGINS.items() if (s, hh, pp) == (scheme, h.lower(), port)), f"?{scheme}://{h.lower()}:{port}")
        path = target.split("?", 1)[0]
        entry = {"origin": origin, "method": req.method.decode("latin-1"), "target": target, "headers": [(k.decode("latin-1"), v.decode("latin-1")) for k, v in req.headers], "body": bytes(req.body), "conn": st.index, "via_proxy": via_proxy}
        if len(self.failed) < self.fail_first:
            self.failed.append(entry)
            sc.reset()
            return
        if self.status_answered < self.status_first:
            self.status_answered += 1
            self.failed.append(entry)
            sc.write(wire.build_response(503, "Busy", [("Retry-After", "0")], b"busy"))
            return
        self.log.append(entry)
        r = self.routes.get((origin, path))
        if r is None:
            sc.write(wire.build_response(200, body=f"final:{origin}:{target}".encode()))
            return
        headers = []
        if r.get("location") is not None:
            headers.append(("Location", r["location"]))
        for k, v in r.get("headers", []):
            headers.append((k, v))
        sc.write(wire.build_response(int(r["code"]), "Redirect", headers, b"moved"))


# ------------------------------------------------------------------ RFC 3986 section 5 --------
def remove_dot_segments(path: str) -> str:
    inp, out = path, []
    while inp:
        if inp.startswith("../"):
            inp = inp[3:]
        elif inp.startswith("./"):
            inp = inp[2:]
        elif inp.startswith("/./"):
            inp = inp[2:]
        elif inp == "/.":
            inp = "/"
        elif inp.startswith("/../"):
            inp = inp[3:]
            if out:
                out.pop()
        elif inp == "/..":
            inp = "/"
            if out:
                out.pop()
        elif inp in (".", ".."):
            inp = ""
        else:
            nxt = inp.find("/", 1)
            out.append(inp if nxt < 0 else inp[:nxt])
            inp = "" if nxt < 0 else inp[nxt:]
    return "".join(out)


def split_ref(u: str) -> tuple[str | None, str | None, str, str | None]:
    """(scheme, authority, path, query) — fragment dropped."""
    u = u.split("#", 1)[0]
    scheme = None
    i = u.find(":")
    if i > 0 and u[:i].replace("+", "").replace("-", "").replace(".", "").isalnum() and u[0].isalpha() and "/" not in u[:i] and "?" not in u[:i]:
        scheme, u = u[:i], u[i + 1 :]
    authority = None
    if u.startswith("//"):
        rest = u[2:]
        cut = min([rest.find(c) for c in "/?" if rest.find(c) >= 0] or [len(rest)])
        authority, u = rest[:cut], rest[cut:]
    path, q, query = u.partition("?")
    return scheme, authority, path, (query if q else None)


def resolve(base: str, ref: str) -> str:
    bs, ba, bp, bq = split_ref(base)
    rs, ra, rp, rq = split_ref(ref)
    if rs is not None:
        ts, ta, tp, tq = rs, ra, remove_dot_segments(rp), rq
    elif ra is not None:
        ts, ta, tp, tq = bs, ra, remove_dot_segments(rp), rq
    elif rp == "":
        ts, ta, tp, tq = bs, ba, bp, (rq if rq is not None else bq)
    else:
        if rp.startswith("/"):
            tp = remove_dot_segments(rp)
        else:
            merged = ("/" + rp) if (ba is not None and bp == "") else (bp[: bp.rfind("/") + 1] + rp)
            tp = remove_dot_segments(merged)
        ts, ta, tq = bs, ba, rq
    out = ""
    if ts is not None:
        out += ts + ":"
    if ta is not None:
        out += "//" + ta
    out += tp
    if tq is not None:
        out += "?" + tq
    return out


def origin_name_of_url(url: str) -> str | None:
    s, a, p, q = split_ref(url)
    if s is None or a is None:
        return None
    hostport = a.rsplit("@", 1)[-1]
    h, _, port = hostport.partition(":")
    pnum = int(port) if port else {"http": 80, "https": 443}.get(s.lower(), 0)
    for n, (sc, hh, pp) in ORIGINS.items():
        if (sc, hh, pp) == (s.lower(), h.lower(), pnum):
            return n
    return f"?{s.lower()}://{h.lower()}:{pnum}"
