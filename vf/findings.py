"""Known-finding classifiers.  A failure is attributed to a finding only if the *precondition*
(over the case description) and the *signature* (over what was observed) both match; the key must
also be listed as open in /verif/known_findings.json, otherwise the failure is a VIOLATION.
Nothing here looks at hashes, seeds or random values."""
from __future__ import annotations

import typing

Failure = typing.Dict[str, typing.Any]
CLASSIFIERS: dict[str, list[tuple[str, typing.Callable[[Failure], bool]]]] = {}


def finding(prop: str, key: str) -> typing.Callable[[typing.Callable[[Failure], bool]], typing.Callable[[Failure], bool]]:
    def deco(fn: typing.Callable[[Failure], bool]) -> typing.Callable[[Failure], bool]:
        CLASSIFIERS.setdefault(prop, []).append((key, fn))
        return fn

    return deco


def classify(prop: str, f: Failure) -> str | None:
    for key, fn in CLASSIFIERS.get(prop, []):
        try:
            if fn(f):
                return key
        except Exception:
            continue
    return None


# ---------------------------------------------------------------------------------- C08 -------
@finding("C08", "wildcard-overflow-entry-aborts-list")
def _c08_overflow(f: Failure) -> bool:
    """A SAN entry whose left-most label holds >= 2 wildcards makes match_hostname raise at once, so an
    exactly matching entry listed *after* it is never consulted."""
    c, o = f["case"], f["observed"]
    if f["kind"] != "must-accept-violated" or c.get("what") != "name":
        return False
    overflow_at = [i for i, (t, v) in enumerate(c["san"]) if t == "DNS" and v.split(".")[0].count("*") >= 2]
    return bool(overflow_at) and o.get("got") == "reject" and o.get("detail") == "CertificateError" and o.get("too_many_wildcards") is True
