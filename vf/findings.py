"""Known-finding classifiers.  A failure is attributed to a finding only if the *precondition*
(over the case description) and the *signature* (over what was observed) both match; the key must
also be listed as open in /verif/known_findings.json, otherwise the failure is a VIOLATION.
Nothing here looks at hashes, seeds or random values."""
from __future__ import annotations

import typing

Failure = typing.Dict[str, typing.Any]
CLASSIFIERS: dict[str, list[tuple[str, typing.Callable[[Failure], bool]]]] = {}


def finding(prop: str, key: str) -> typing.Callable[[typing.Callable[[Failure], bool]], typing.Callable[[Failure], bool]]:
    def deco(fn: typing.Callable[[Failure], bool]) -> typing.Callable[[Failure], bool]:
        CLASSIFIERS.setdefault(prop, []).append((key, fn))
        return fn

    return deco


def classify(prop: str, f: Failure) -> str | None:
    for key, fn in CLASSIFIERS.get(prop, []):
        try:
            if fn(f):
                return key
        except Exception:
            continue
    return None
