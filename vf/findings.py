"""Known-finding classifiers.  A failure is attributed to a finding only if the *precondition*
(over the case description) and the *signature* (over what was observed) both match; the key must
also be listed as open in /verif/known_findings.json, otherwise the failure is a VIOLATION.
Nothing here looks at hashes, seeds or random values."""
from __future__ import annotations

import typing

Failure = typing.Dict[str, typing.Any]
CLASSIFIERS: dict[str, list[tuple[str, typing.Callable[[Failure], bool]]]] = {}


def finding(prop: str, key: str) -> typing.Callable[[typing.Callable[[Failure], bool]], typing.Callable[[Failure], bool]]:
    def deco(fn: typing.Callable[[Failure], bool]) -> typing.Callable[[Failure], bool]:
        CLASSIFIERS.setdefault(prop, []).append((key, fn))
        return fn

    return deco


def classify(prop: str, f: Failure) -> str | None:
    for key, fn in CLASSIFIERS.get(prop, []):
        try:
            if fn(f):
                return key
        except Exception:
            continue
    return None


# ---------------------------------------------------------------------------------- C08 -------
@finding("C08", "wildcard-overflow-entry-aborts-list")
def _c08_overflow(f: Failure) -> bool:
    """A SAN entry whose left-most label holds >= 2 wildcards makes match_hostname raise at once, so an
    exactly matching entry listed *after* it is never consulted."""
    c, o = f["case"], f["observed"]
    if f["kind"] != "must-accept-violated" or c.get("what") != "name":
        return False
    overflow_at = [i for i, (t, v) in enumerate(c["san"]) if t == "DNS" and v.split(".")[0].count("*") >= 2]
    return bool(overflow_at) and o.get("got") == "reject" and o.get("detail") == "CertificateError" and o.get("too_many_wildcards") is True


# ---------------------------------------------------------------------------------- C14 -------
import re as _re

_DOTTED_SCHEME = _re.compile(r"^([a-zA-Z][a-zA-Z0-9+\-]*\.[a-zA-Z0-9+.\-]*)://", _re.DOTALL)


@finding("C14", "dotted-scheme-read-as-host")
def _c14_dotted_scheme(f: Failure) -> bool:
    """'evil.com://good.example/': RFC 3986 reads scheme 'evil.com' + host 'good.example'; parse_url's scheme
    pre-check does not allow '.', prepends '//' and reads host 'evil.com' (pinned by test_deprecated_no_scheme)."""
    url = f["case"].get("url", "")
    m = _DOTTED_SCHEME.match(url)
    if not m:
        return False
    o = f["observed"]
    if f["kind"] == "reference-disagreement":
        got = (o.get("got") or {}).get("host")
    elif f["kind"] == "host-from-unsplittable-authority":
        got = o.get("host")
    else:
        return False
    return isinstance(got, str) and got.lower() == m.group(1).lower()


# ---------------------------------------------------------------------------------- C18 -------
@finding("C18", "retries-bool-int-collide-in-pool-key")
def _c18_retries_bool_int(f: Failure) -> bool:
    """PoolKey compares key_retries with ==, and Python has 0 == False (and 1 == True), so a context asking for
    retries=False (re-raise, return the 3xx) and one asking for retries=0 (MaxRetryError) get one pool."""
    c, o = f["case"], f["observed"]
    if f["kind"] != "different-settings-same-pool" or c.get("kw") != "retries" or c.get("via") != "pool_kwargs":
        return False
    # value table order for retries: #0 -> 0, #1 -> 1, #2 -> 5, #3 -> False
    return sorted([o.get("i"), o.get("j")]) == [0, 3]


# ---------------------------------------------------------------------------------- C12 -------
@finding("C12", "chunked-mixed-parsers")
def _c12_mixed(f: Failure) -> bool:
    """On a chunked response, read()/read1()/readinto() consume the body through http.client's chunk reader while
    stream()/read_chunked()/iteration parse chunks themselves from the raw socket file: once both have been used
    the second parser starts in the middle of the other's state (InvalidChunkLength, a read timeout, or wrong bytes)."""
    o = f["observed"] or {}
    if not (o.get("mixed_families") is True and o.get("framing") == "chunked"):
        return False
    if f["kind"] == "bytes-differ":
        return True
    if f["kind"] == "exception-on-wellformed-response":
        if o.get("exc") == "OverflowError":
            # body bytes read as a chunk-size line give an absurd length that cannot even be passed to read()
            return "index-sized integer" in str(o.get("msg", ""))
        return o.get("exc") in ("ProtocolError", "ReadTimeoutError", "InvalidChunkLength", "AttributeError") or (o.get("exc") == "DecodeError" and o.get("coding") != "identity")
    return f["kind"] in ("short-read-before-end", "empty-piece-from-stream")


# ---------------------------------------------------------------------------------- C13 -------
@finding("C13", "decode-error-after-complete-body-connection-kept")
def _c13_decode_after_full_read(f: Failure) -> bool:
    """Content decoding runs after the raw body has been read; when the framing was complete the response has by
    then released its (clean) connection to the pool, so the DecodeError can no longer close it."""
    o = f["observed"] or {}
    return (
        f["kind"] in ("damaged-connection-reused", "damaged-connection-left-open")
        and o.get("damage") in ("content-corrupt", "content-incomplete")
        and o.get("first_raised") == "DecodeError"
        and o.get("raw_body_fully_read_before_error") is True
    )


# ---------------------------------------------------------------------------------- C11 -------
@finding("C11", "one-shot-body-resent-short")
def _c11_one_shot(f: Failure) -> bool:
    """A generator / iterator body, or a file-like object without tell(), cannot be rewound and urllib3 does not
    notice: the next attempt sends what is left of it (usually nothing) instead of raising UnrewindableBodyError."""
    o = f["observed"] or {}
    if o.get("kind") not in ("generator", "readonly"):
        return False
    if f["kind"] == "resent-body-differs":
        return o.get("is_suffix") is True and o.get("exc") is None
    if f["kind"] == "payload-differs":
        # the first complete request seen by the server already followed a failed send attempt
        if str(o.get("history", "")).startswith("sendreset1") and o.get("got", 0) < o.get("want", 0) and o.get("exc") is None:
            return True
        # ... or an attempt that the server answered before the body had been written
        return o.get("after_early_response") is True and o.get("is_suffix") is True and o.get("got", 0) < o.get("want", 0) and o.get("exc") is None
    return False


# ---------------------------------------------------------------------------------- C04 -------
@finding("C04", "proxy-read-error-retried-as-other")
def _c04_proxy_misfile(f: Failure) -> bool:
    """Behind a (forwarding or tunnelling) proxy a connection reset / EOF while the response is awaited is reported as
    'unable to connect to proxy' (ProxyError) and charged to the 'other' budget: it is retried although read=0, and a
    non-idempotent request is sent a second time."""
    o = f["observed"] or {}
    if o.get("pool") not in ("forward", "tunnel") or o.get("explained_by_proxy_misfiled_reads") is not True:
        return False
    if f["kind"] == "non-idempotent-resent":
        return o.get("after") == "read" and o.get("after_detail") in ("reset", "eof")
    if f["kind"] == "category-budget-exceeded":
        return o.get("category") == "read"
    return False


@finding("C04", "tls-read-error-retried-as-other")
def _c04_tls_misfile(f: Failure) -> bool:
    """A TLS-level failure while the response is awaited (request already written) becomes urllib3's SSLError before the
    read-error test and is charged to 'other': retried although read=0, and a non-idempotent request is sent again."""
    o = f["observed"] or {}
    if o.get("explained_by_tls_misfiled_reads") is not True:
        return False
    if f["kind"] == "non-idempotent-resent":
        return o.get("after") == "read" and o.get("after_detail") == "ssl"
    if f["kind"] == "category-budget-exceeded":
        return o.get("category") == "read"
    return False


@finding("C04", "retry-after-honoured-for-any-retried-status")
def _c04_retry_after_any_status(f: Failure) -> bool:
    """sleep() honours Retry-After of whatever response caused the retry, e.g. a forcelisted 500 with
    'Retry-After: 3600' sleeps 3600 s although the header is documented to count only for 413/429/503."""
    o = f["observed"] or {}
    return (
        f["kind"] == "sleep-out-of-bounds"
        and o.get("respect") is True
        and isinstance(o.get("retry_after_status"), int)
        and o["retry_after_status"] not in (413, 429, 503)
        and o.get("retry_after_status_forcelisted") is True  # retried for another reason; the header only set the sleep
    )


# ---------------------------------------------------------------------------------- C01 -------
@finding("C01", "released-unread-close-response-keeps-socket")
def _c01_released_unread_will_close(f: Failure) -> bool:
    """A streamed response whose server asked for 'Connection: close' (or that is close-delimited) is detached from its
    connection object by http.client; release_conn() before the body was read to the end then returns the (socket-less)
    connection to the pool while the response's file object keeps the socket open until the response is collected."""
    o = f["observed"] or {}
    served = o.get("served") or []
    return (
        f["kind"] == "socket-open-outside-pool"
        and len(served) > 0
        and all(s_.get("will_close") is True and s_.get("disposal") in ("release-unread", "read-part-release") for s_ in served)
        and o.get("preload") is False
    )


# ---------------------------------------------------------------------------------- C03 -------
@finding("C03", "released-unread-response-collected-connection-reused")
def _c03_released_unread_collected(f: Failure) -> bool:
    """release_conn() on a response whose body was not read to the end returns the connection to the pool; the only
    guard against reusing it is http.client's ResponseNotReady while the old response object is alive.  Once that object
    has been garbage collected the connection looks idle, and if the rest of the old body is still on its way (nothing
    readable at checkout) the next request is sent on it and the old bytes are read as its response."""
    o = f["observed"] or {}
    p = o.get("prev_on_conn") or {}
    return (
        f["kind"] in ("answered-on-unclean-connection", "foreign-bytes-delivered", "foreign-status-delivered")
        and p.get("caller") in ("release-unread", "read-part-release", "read-late-prefix")
        and p.get("response_alive_at_arrival") is False
        and p.get("unclean_before") is True
    )


@finding("C03", "early-released-response-closed-connection-reused")
def _c03_early_released_closed(f: Failure) -> bool:
    """release_conn=True with preload_content=False puts the connection back into the pool before the body is read; the
    response then has no reference to it, so close() or a failed read can only close http.client's response object -
    which removes the ResponseNotReady guard - and the pooled connection, with the rest of the body still to come, is
    handed to the next request."""
    o = f["observed"] or {}
    p = o.get("prev_on_conn") or {}
    return (
        f["kind"] in ("answered-on-unclean-connection", "foreign-bytes-delivered", "foreign-status-delivered")
        and p.get("caller") in ("early-close", "early-read")
        and p.get("unclean_before") is True
    )


# ---------------------------------------------------------------------------------- C07 -------
@finding("C07", "cert-reqs-override-rewrites-shared-caller-context")
def _c07_shared_context(f: Failure) -> bool:
    """cert_reqs given for one pool is written into the caller-supplied SSLContext (context.verify_mode = ...); a
    PoolManager that shares that context with its other pools then derives 'no validation' from it for requests that
    never asked for it."""
    o = f["observed"] or {}
    return f["kind"] == "request-sent-over-unverified-connection" and o.get("shared_caller_context_after_lax_cert_reqs") is True and o.get("route") == "manager-after-lax" and (o.get("det") or {}).get("mode") != "CERT_NONE"


@finding("C13", "cut-inside-zero-padded-chunk-size-read-as-last-chunk")
def _c13_zero_padded(f: Failure) -> bool:
    """Both chunk readers (http.client's and urllib3's) take a size line with readline() and int(line, 16) without
    requiring its CRLF: a stream that ends after the leading zero(s) of a zero-padded chunk size is read as the
    terminating zero-size chunk."""
    c = f["case"]
    dmg = c.get("damage") or []
    return f["kind"] == "damage-accepted-as-complete" and len(dmg) > 0 and dmg[0] == "cut-inside-zero-padded-chunk-size"


# ---------------------------------------------------------------------------------- C06 -------
@finding("C06", "forwarding-proxy-redirect-to-proxy-origin-keeps-credentials")
def _c06_redirect_to_proxy_origin(f: Failure) -> bool:
    """For plain-http destinations a ProxyManager hands out the pool of the proxy; the same-host test that decides about
    stripping is made against that pool, i.e. against the proxy's origin instead of the origin of the request."""
    o = f["observed"] or {}
    return f["kind"] == "sensitive-header-forwarded" and o.get("client") == "proxy" and o.get("redirect_target_is_proxy_origin") is True and "forwarding_proxy_redirect_to" in (f["case"] or {})


# ---------------------------------------------------------------------------------- C20 -------
@finding("C20", "boundary-parameter-not-quoted")
def _c20_boundary_not_quoted(f: Failure) -> bool:
    """encode_multipart_formdata writes 'boundary=<boundary>' verbatim; a legal boundary with tspecials or a space (RFC
    2046's own examples) would have to be a quoted-string for the header to name it."""
    o = f["observed"] or {}
    asked = o.get("asked")
    token = set("!#$%&'*+-.^_`|~0123456789abcdefghijklmnopqrstuvwxyzABCDEFGHIJKLMNOPQRSTUVWXYZ")
    return f["kind"] == "content-type-shape" and isinstance(asked, str) and str(o.get("why", "")).startswith("boundary parameter is neither") and any(c not in token for c in asked)


# ---------------------------------------------------------------------------------- C09 -------
@finding("C09", "non-http-connect-reply-surfaces-as-protocolerror")
def _c09_garbage_connect_reply(f: Failure) -> bool:
    """A proxy that answers CONNECT with bytes that are no status line (or closes without a word) makes http.client raise
    BadStatusLine / RemoteDisconnected without closing the connection; urllib3 has already marked the proxy as reached,
    so the failure is labelled ProtocolError('Connection aborted.') - the label for origin failures - not ProxyError."""
    o = f["observed"] or {}
    return f["kind"] == "refused-connect-class" and o.get("not_a_status_line") is True and o.get("reply") in ("garbage", "eof") and o.get("inner") == "ProtocolError"


@finding("C09", "https-destination-equal-to-https-proxy-shares-forwarding-pool")
def _c09_destination_is_proxy(f: Failure) -> bool:
    """An https:// destination whose host:port is the https proxy's own gets the same pool key as the pool that forwards
    plain-http traffic to that proxy: whichever kind of connection is pooled first serves both."""
    c = f["case"]
    if c.get("proxy_scheme") != "https" or c.get("forwarding"):
        return False
    form = str(c.get("proxy_url_form", "")).lower()
    phost, _, pport = form.partition(":")
    proxy_auth = (phost, int(pport) if pport else 443)
    reqs = c.get("reqs") or []
    to_proxy = [r for r in reqs if r["scheme"] == "https" and (str(r["host"]).lower(), r["port"] or 443) == proxy_auth]
    forwarded = [r for r in reqs if r["scheme"] == "http"]
    return bool(to_proxy) and bool(forwarded) and f["kind"] in ("origin-form-to-proxy", "proxy-header-inside-tunnel", "not-origin-form-in-tunnel")


# ---------------------------------------------------------------------------------- C15 -------
@finding("C15", "port-zero-treated-as-default")
def _c15_port_zero(f: Failure) -> bool:
    """An explicit port 0 is falsy: PoolManager.connection_from_host ('if not port') and the pools replace it by
    the scheme default, so http://h:0/ is dialled (and announced, and tunnelled) on port 80 / 443."""
    o = f["observed"] or {}
    if str(o.get("port_in_url")) != "0":
        return False
    if f["kind"] == "dial-address-wrong":
        return o.get("got", [None, None])[1] in (80, 443) and o.get("want", [None, None])[1] == 0 and o.get("got", [None])[0] == o.get("want", [None])[0]
    if f["kind"] == "host-header-wrong":
        return o.get("port_dropped") is True
    if f["kind"] == "connect-authority-wrong":
        return str(o.get("got", "")).rsplit(":", 1)[-1] in ("80", "443")
    return False


@finding("C15", "tunnel-ipv6-host-header-malformed")
def _c15_tunnel_ipv6(f: Failure) -> bool:
    """Inside a CONNECT tunnel to an IPv6 literal the request carries 'Host: [[::1]]' (or '[[fe80::1]' with a zone):
    urllib3 hands the bracketed tunnel host to http.client, which (3.12.1) brackets it again."""
    o = f["observed"] or {}
    return f["kind"] == "host-header-wrong" and o.get("route") == "tunnel" and o.get("host_kind") == "ipv6" and o.get("double_bracket") is True


@finding("C15", "forwarded-host-header-keeps-ipv6-zone")
def _c15_forward_zone(f: Failure) -> bool:
    """For a request forwarded through a proxy the Host header is built from the URL's netloc, zone id included
    ('Host: [fe80::1%eth0]'); direct requests (http.client) drop the zone."""
    o = f["observed"] or {}
    return f["kind"] == "host-header-wrong" and o.get("route") == "forward" and o.get("host_kind") == "ipv6" and o.get("zone_in_url") is True and o.get("got_has_zone") is True and str(o.get("port_in_url")) != "0"


# ---------------------------------------------------------------------------------- C02 -------
@finding("C02", "close-strands-blocked-getter")
def _c02_close_strands(f: Failure) -> bool:
    """close() swaps the queue out while a requester is blocked in queue.get() (block=True, no pool_timeout): the
    connections still in use are closed instead of being put back, so nothing ever wakes the waiter."""
    o = f["observed"] or {}
    return (
        f["kind"] == "thread-never-finishes"
        and o.get("closer") is True
        and o.get("block") is True
        and o.get("stranded_in_queue_get") is True
        and o.get("pool_was_closed") is True
        and o.get("others_finished") is True
        and not any(str(n).startswith("closer") for n in o.get("stranded", []))
    )
