"""E2 tlsnet — loopback TLS origin / recording proxy with throw-away CAs (C07, C09).

One listener thread on 127.0.0.1 plays, per accepted connection and as scripted: a TLS origin, a plain or TLS
forward proxy, or a CONNECT proxy that then plays the origin *inside* the tunnel (TLS-in-TLS through
MemoryBIO).  It records what each party received: SNI, whether the handshake completed, every message
addressed to the proxy, and every byte / request the origin saw.  `urllib3.util.connection.create_connection`
is redirected to the listener so that arbitrary host names and ports can be requested without DNS."""
from __future__ import annotations

import hashlib
import os
import shutil
import socket
import ssl
import tempfile
import threading
import time
import typing

from vf import wire


class Certs:
    """Throw-away CAs and leaf certificates (trustme).  Files live in a temp dir that close() removes."""

    LEAVES: dict[str, dict[str, typing.Any]] = {
        "exact": {"ids": ["good.test"]},
        "wildcard": {"ids": ["*.wild.test"]},
        "ip4": {"ids": ["127.0.0.1"]},
        "ip6": {"ids": ["::1"]},
        "cn-only": {"ids": [], "cn": "good.test"},
        "other": {"ids": ["other.test"]},
        "multi": {"ids": ["good.test", "*.wild.test", "127.0.0.1"]},
        "proxy": {"ids": ["proxy.test"]},
        "proxy-other": {"ids": ["notproxy.test"]},
        "idn": {"ids": ["xn--bcher-kva.test"]},
        "upper-wild": {"ids": ["*.WILD.test"]},
    }

    def __init__(self) -> None:
        import trustme

        self.dir = tempfile.mkdtemp(prefix="vf-tls-")
        self.ca = {"trusted": trustme.CA(), "untrusted": trustme.CA()}
        self.ca_file = os.path.join(self.dir, "trusted-ca.pem")
        self.ca["trusted"].cert_pem.write_to_path(self.ca_file)
        self.ca_data = self.ca["trusted"].cert_pem.bytes().decode()
        self.other_ca_file = os.path.join(self.dir, "untrusted-ca.pem")
        self.ca["untrusted"].cert_pem.write_to_path(self.other_ca_file)
        self.other_ca_data = self.ca["untrusted"].cert_pem.bytes().decode()
        self.leaf: dict[tuple[str, str], dict[str, typing.Any]] = {}
        self._ctx: dict[tuple[str, str], ssl.SSLContext] = {}

    def get(self, kind: str, issuer: str) -> dict[str, typing.Any]:
        key = (kind, issuer)
        if key not in self.leaf:
            spec = self.LEAVES[kind]
            cert = self.ca[issuer].issue_cert(*spec["ids"], common_name=spec.get("cn"))
            path = os.path.join(self.dir, f"{kind}-{issuer}.pem")
            cert.private_key_and_cert_chain_pem.write_to_path(path)
            from cryptography import x509
            from cryptography.hazmat.primitives.serialization import Encoding

            c = x509.load_pem_x509_certificate(cert.cert_chain_pems[0].bytes())
            der = c.public_bytes(Encoding.DER)
            san: list[list[str]] = []
            for i in spec["ids"]:
                try:
                    import ipaddress

                    ipaddress.ip_address(i)
                    san.append(["IP Address", i])
                except ValueError:
                    san.append(["DNS", i])
            self.leaf[key] = {"path": path, "der": der, "san": san, "cn": spec.get("cn"), "kind": kind, "issuer": issuer}
        return self.leaf[key]

    def server_context(self, kind: str, issuer: str) -> ssl.SSLContext:
        key = (kind, issuer)
        if key not in self._ctx:
            ctx = ssl.SSLContext(ssl.PROTOCOL_TLS_SERVER)
            ctx.load_cert_chain(self.get(kind, issuer)["path"])
            self._ctx[key] = ctx
        return self._ctx[key]

    def close(self) -> None:
        shutil.rmtree(self.dir, ignore_errors=True)


class BioTLS:
    """Server-side TLS over any duplex byte stream (plain socket or an outer SSLSocket)."""

    def __init__(self, stream: typing.Any, ctx: ssl.SSLContext, log: dict[str, typing.Any]):
        self.stream = stream
        self.inc, self.out = ssl.MemoryBIO(), ssl.MemoryBIO()
        sni_seen: list[typing.Any] = []
        self.log = log
        self.obj = ctx.wrap_bio(self.inc, self.out, server_side=True)

    def _flush(self) -> None:
        data = self.out.read()
        if data:
            self.stream.sendall(data)

    def _feed(self) -> None:
        data = self.stream.recv(16384)
        if not data:
            raise EOFError
        self.inc.write(data)

    def handshake(self) -> bool:
        while True:
            try:
                self.obj.do_handshake()
                self._flush()
                return True
            except ssl.SSLWantReadError:
                try:
                    self._flush()
                    self._feed()
                except (EOFError, OSError):
                    return False
            except (ssl.SSLError, OSError):
                try:
                    self._flush()
                except OSError:
                    pass
                return False

    def recv(self, n: int = 16384) -> bytes:
        while True:
            try:
                return self.obj.read(16384)
            except ssl.SSLWantReadError:
                try:
                    self._flush()
                    self._feed()
                except (EOFError, OSError):
                    return b""
            except (ssl.SSLZeroReturnError, ssl.SSLError, OSError):
                return b""

    def sendall(self, data: bytes) -> None:
        try:
            self.obj.write(data)
            self._flush()
        except (ssl.SSLError, OSError):
            pass


class Listener(threading.Thread):
    """script(conn_index) -> dict:
        role: "origin" | "proxy"           (proxy: plain or TLS listener that handles absolute-form and CONNECT)
        tls: (kind, issuer) | None          TLS on the accepted socket itself (origin cert, or the https proxy's cert)
        connect_reply: 200|403|407|502|"garbage"|"eof"
        inner: (kind, issuer)               certificate of the origin played inside a CONNECT tunnel
        inner_for: f(connect_target)        ... or chosen from the CONNECT target
        close_after: n                      close the (inner) connection after n requests (None = keep alive)
        silent_close: bool                  when closing, do not announce it with Connection: close
        redirect_map: {suffix: location}    answer a request whose target ends with suffix (absolute-form at the proxy, origin-form inside a tunnel) with a 302
    """

    def __init__(self, certs: Certs, script: typing.Callable[[int], dict[str, typing.Any]]):
        super().__init__(daemon=True)
        self.certs = certs
        self.script = script
        self.sock = socket.socket()
        self.sock.setsockopt(socket.SOL_SOCKET, socket.SO_REUSEADDR, 1)
        # (thousands of short loopback connections per shard leave the ephemeral range full of TIME_WAIT entries: on a
        # busy machine bind(…, 0) can fail transiently with EADDRINUSE - wait for a port instead of crashing the shard)
        for attempt in range(200):
            try:
                self.sock.bind(("127.0.0.1", 0))
                break
            except OSError:
                if attempt == 199:
                    raise
                import time as _t

                _t.sleep(0.05 + 0.01 * attempt)
        self.sock.listen(64)
        self.port = self.sock.getsockname()[1]
        self.log: list[dict[str, typing.Any]] = []
        self.lock = threading.Lock()
        self.stop = False
        self.own_ports: set[int] = set()
        self.max_tls: typing.Any = None
        self.foreign = 0
        self.idle_timeout = 3.0
        self.handlers: list[threading.Thread] = []

    def run(self) -> None:
        self.sock.settimeout(0.2)
        while not self.stop:
            try:
                c, _ = self.sock.accept()
            except socket.timeout:
                continue
            except OSError:
                break
            # Loopback ports are shared with every other process on the machine (and ephemeral ports get reused): only
            # connections dialled by this harness's own client side are served and logged, anything else is dropped.
            try:
                peer_port = c.getpeername()[1]
            except OSError:
                c.close()
                continue
            for _ in range(300):
                if peer_port in self.own_ports:
                    break
                time.sleep(0.005)
            else:
                self.foreign += 1
                c.close()
                continue
            with self.lock:
                idx = len(self.log)
                entry: dict[str, typing.Any] = {"conn": idx, "done": threading.Event()}
                self.log.append(entry)
            t = threading.Thread(target=self._handle, args=(c, entry), daemon=True)
            self.handlers.append(t)
            t.start()

    def shutdown(self) -> None:
        self.stop = True
        try:
            self.sock.close()
        except OSError:
            pass

    # -- one connection --------------------------------------------------------------------------
    def _handle(self, c: socket.socket, e: dict[str, typing.Any]) -> None:
        try:
            c.settimeout(self.idle_timeout)
            cfg = self.script(e["conn"])
            e["cfg"] = {k: v for k, v in cfg.items() if not callable(v)}
            stream: typing.Any = c
            e.update({"outer_tls": bool(cfg.get("tls")), "outer_handshake": None, "outer_sni": None, "proxy_messages": [], "connect": None, "inner_handshake": None, "inner_sni": None, "origin_bytes": 0, "origin_requests": [], "origin_raw": b"", "proxy_bytes": 0, "proxy_raw": b""})
            if cfg.get("tls"):
                ctx = self._ctx_with_sni(cfg["tls"], e, "outer_sni")
                b = BioTLS(c, ctx, e)
                e["outer_handshake"] = b.handshake()
                if not e["outer_handshake"]:
                    return
                stream = b
            if cfg.get("role", "origin") == "origin":
                self._serve_origin(stream, e, cfg)
                return
            # proxy: read messages addressed to the proxy
            buf = b""
            while True:
                data = stream.recv(16384) if not isinstance(stream, BioTLS) else stream.recv()
                if not data:
                    return
                e["proxy_bytes"] += len(data)
                e["proxy_raw"] += data
                buf += data
                if not (65 <= buf[0] <= 90):
                    # not an HTTP method (e.g. a TLS ClientHello sent to a plain proxy)
                    e["proxy_messages"].append({"error": "not an HTTP request", "raw": buf[:64]})
                    return
                try:
                    r = wire.parse_request(buf)
                except wire.WireError as err:
                    e["proxy_messages"].append({"error": str(err), "raw": buf})
                    return
                if r is None:
                    continue
                req, buf = r
                e["proxy_messages"].append({"method": req.method.decode("latin-1"), "target": req.target.decode("latin-1"), "headers": [(k.decode("latin-1"), v.decode("latin-1")) for k, v in req.headers], "body": req.body})
                if req.method == b"CONNECT":
                    e["connect"] = req.target.decode("latin-1")
                    reply = cfg.get("connect_reply", 200)
                    if reply == "eof":
                        return
                    if reply == "garbage":
                        stream.sendall(b"\x00\x01 totally not http\r\n\r\n")
                        return
                    if reply != 200:
                        stream.sendall(wire.build_response(int(reply), "Nope", body=b"denied", keepalive=False))
                        return
                    stream.sendall(b"HTTP/1.1 200 Connection established\r\n\r\n")
                    inner_stream = stream
                    inner_leaf = cfg["inner_for"](e["connect"]) if cfg.get("inner_for") else cfg.get("inner")
                    if inner_leaf:
                        ctx = self._ctx_with_sni(inner_leaf, e, "inner_sni")
                        ib = BioTLS(stream, ctx, e)
                        if buf:
                            ib.inc.write(buf)
                            buf = b""
                        e["inner_handshake"] = ib.handshake()
                        if not e["inner_handshake"]:
                            return
                        inner_stream = ib
                    self._serve_origin(inner_stream, e, cfg, initial=buf)
                    return
                # forwarded (absolute-form) request: answer as the origin would
                body = ("forwarded:" + req.target.decode("latin-1")).encode()
                e.setdefault("forwarded", []).append(req.target.decode("latin-1"))
                closing = cfg.get("close_after") is not None and len(e["forwarded"]) >= cfg["close_after"]
                loc = redirect_for(cfg, req.target.decode("latin-1"))
                if loc:
                    stream.sendall(wire.build_response(302, "Found", headers=[("Location", loc)], body=b"", keepalive=not closing or bool(cfg.get("silent_close"))))
                else:
                    stream.sendall(wire.build_response(200, body=body, keepalive=not closing or bool(cfg.get("silent_close"))))
                if closing:
                    return
        except (socket.timeout, TimeoutError):
            e["idle_timeout"] = True
        except Exception as err:  # noqa: BLE001
            e["handler_error"] = repr(err)
        finally:
            try:
                c.close()
            except OSError:
                pass
            e["done"].set()

    def _ctx_with_sni(self, leaf: tuple[str, str], e: dict[str, typing.Any], field: str) -> ssl.SSLContext:
        base = self.certs.get(*leaf)
        ctx = ssl.SSLContext(ssl.PROTOCOL_TLS_SERVER)
        ctx.load_cert_chain(base["path"])
        if self.max_tls is not None:
            ctx.maximum_version = self.max_tls

        def cb(sslobj: typing.Any, name: str | None, _ctx: typing.Any) -> None:
            e[field] = name

        ctx.sni_callback = cb
        return ctx

    def _serve_origin(self, stream: typing.Any, e: dict[str, typing.Any], cfg: dict[str, typing.Any], initial: bytes = b"") -> None:
        buf = initial
        e["origin_bytes"] += len(initial)
        e["origin_raw"] += initial
        served = 0
        while True:
            if not buf or wire_incomplete(buf):
                data = stream.recv() if isinstance(stream, BioTLS) else stream.recv(16384)
                if not data:
                    return
                e["origin_bytes"] += len(data)
                e["origin_raw"] += data
                buf += data
            try:
                r = wire.parse_request(buf)
            except wire.WireError as err:
                e["origin_requests"].append({"error": str(err)})
                return
            if r is None:
                continue
            req, buf = r
            e["origin_requests"].append({"method": req.method.decode("latin-1"), "target": req.target.decode("latin-1"), "headers": [(k.decode("latin-1"), v.decode("latin-1")) for k, v in req.headers], "body_len": len(req.body), "body_sha256": hashlib.sha256(bytes(req.body)).hexdigest()})
            served += 1
            closing = cfg.get("close_after") is not None and served >= cfg["close_after"]
            loc = redirect_for(cfg, req.target.decode("latin-1"))
            if cfg.get("stray_after_request") == served and cfg.get("stray_kind") == "same-record":
                # the response is padded to exactly 8192 bytes (one read of http.client's buffered reader) and an
                # unsolicited response follows in the same TLS record: it ends up decrypted inside the client's TLS
                # object, where polling the file descriptor cannot see it
                body = ("origin:" + req.target.decode("latin-1")).encode()
                pad = 0
                for _ in range(6):
                    full = wire.build_response(200, body=body + b";" + b"p" * pad)
                    if len(full) == 8192:
                        break
                    pad = max(0, pad + 8192 - len(full))
                e["same_record_len"] = len(full)
                stream.sendall(full + wire.build_response(200, "STRAY", body=b"STRAY-unsolicited-after:" + req.target))
                e["stray_sent"] = True
                continue
            if loc:
                stream.sendall(wire.build_response(302, "Found", headers=[("Location", loc)], body=b"", keepalive=not closing or bool(cfg.get("silent_close"))))
            else:
                stream.sendall(wire.build_response(200, body=("origin:" + req.target.decode("latin-1")).encode(), keepalive=not closing or bool(cfg.get("silent_close"))))
            if closing:
                return
            if cfg.get("stray_after_request") == served and cfg.get("stray_kind") != "same-record":
                # unsolicited bytes on the idle connection, in a record of their own, a moment after the response
                time.sleep(0.03)
                kind = cfg.get("stray_kind", "response")
                stream.sendall(wire.build_response(200, "STRAY", body=b"STRAY-unsolicited-after:" + req.target) if kind == "response" else b"\x00\x01stray-garbage")
                e["stray_sent"] = True


def redirect_for(cfg: dict[str, typing.Any], target: str) -> str | None:
    for suffix, loc in (cfg.get("redirect_map") or {}).items():
        if target.endswith(suffix):
            return typing.cast(str, loc)
    return None


def wire_incomplete(buf: bytes) -> bool:
    try:
        return wire.parse_request(buf) is None
    except wire.WireError:
        return False


class TLSNet:
    """Context manager: certificates + listener + redirection of every dial to the listener + recorder of the
    server_hostname urllib3 hands to the TLS library."""

    def __init__(self, script: typing.Callable[[int], dict[str, typing.Any]], certs: Certs | None = None):
        self.own_certs = certs is None
        self.certs = certs or Certs()
        self.listener = Listener(self.certs, script)
        self.dials: list[tuple[str, int]] = []
        self.wraps: list[dict[str, typing.Any]] = []
        self._saved: list[tuple[typing.Any, str, typing.Any]] = []
        self.client_socks: list[socket.socket] = []

    def __enter__(self) -> "TLSNet":
        import urllib3.connection as uc
        import urllib3.util.connection as uuc

        self.listener.start()
        real_wrap = uc.ssl_wrap_socket

        def create_connection(address: tuple[str, int], timeout: typing.Any = None, source_address: typing.Any = None, socket_options: typing.Any = None) -> socket.socket:
            self.dials.append((address[0], address[1]))
            # (no bind-before-connect: the kernel must pick a source port knowing the destination, or a busy run
            # hits EADDRNOTAVAIL on 4-tuples still in TIME_WAIT; the listener waits for the port to be registered)
            import errno as _errno
            import time as _t

            for attempt in range(100):
                try:
                    s = socket.create_connection(("127.0.0.1", self.listener.port), timeout=5.0)
                    break
                except OSError as e:
                    # the harness's own port shortage is not an outcome of the code under test
                    if e.errno not in (_errno.EADDRNOTAVAIL, _errno.EADDRINUSE) or attempt == 99:
                        raise
                    _t.sleep(0.05 + 0.01 * attempt)
            self.listener.own_ports.add(s.getsockname()[1])
            self.client_socks.append(s)
            return s

        def wrap(*a: typing.Any, **kw: typing.Any) -> typing.Any:
            self.wraps.append({"server_hostname": kw.get("server_hostname"), "tls_in_tls": kw.get("tls_in_tls")})
            return real_wrap(*a, **kw)

        self._saved = [(uuc, "create_connection", uuc.create_connection), (uc, "ssl_wrap_socket", uc.ssl_wrap_socket)]
        uuc.create_connection = create_connection  # type: ignore[assignment]
        uc.ssl_wrap_socket = wrap  # type: ignore[assignment]
        return self

    def __exit__(self, *a: typing.Any) -> None:
        for mod, name, old in self._saved:
            setattr(mod, name, old)
        self.listener.shutdown()
        if self.own_certs:
            self.certs.close()

    def wait_quiet(self, timeout: float = 3.0) -> bool:
        """Wait until every accepted connection has been fully handled (the client closed or the script ended it)."""
        ok = True
        for e in list(self.listener.log):
            if not e["done"].wait(timeout):
                ok = False
        return ok

    def client_sockets_open(self) -> int:
        return sum(1 for s in self.client_socks if s.fileno() >= 0)
