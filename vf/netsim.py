"""E1 netsim — scripted in-memory network.

`urllib3.util.connection.create_connection` is replaced by a factory returning `ScriptedSocket`s: real
fds (one end of a socketpair, so poll()/makefile()/settimeout() behave as in production) whose
sendall/recv are intercepted to *record* what urllib3 does and to *inject* scripted faults.  The server
side is a synchronous state machine: it parses what the client wrote with the strict parser and writes
its reaction before sendall() returns, so every exchange is single-threaded and deterministic.
A read that would block raises socket.timeout at once (virtual time)."""
from __future__ import annotations

import collections
import errno
import select
import socket
import sys
import ssl
import threading
import types
import typing

from vf import wire


class VClock:
    """Stands in for the `time` module inside urllib3.util.timeout / urllib3.util.retry."""

    def __init__(self) -> None:
        self.now = 1000.0
        self.sleeps: list[float] = []
        self.sleep_at: list[float] = []

    def monotonic(self) -> float:
        return self.now

    def time(self) -> float:
        return 1_700_000_000.0 + self.now

    def sleep(self, s: float) -> None:
        self.sleeps.append(s)
        self.sleep_at.append(self.now)
        if s == s and 0 < s < 1e9:
            self.now += s

    def advance(self, s: float) -> None:
        self.now += s


class InjectedBase(BaseException):
    """An interrupt-like BaseException that is not KeyboardInterrupt (must propagate unchanged)."""


def make_exc(name: str) -> BaseException:
    if name == "EPIPE":
        return BrokenPipeError(errno.EPIPE, "Broken pipe (injected)")
    if name == "ECONNRESET":
        return ConnectionResetError(errno.ECONNRESET, "Connection reset by peer (injected)")
    if name == "EIO":
        return OSError(errno.EIO, "I/O error (injected)")
    if name == "EPROTOTYPE":
        return OSError(errno.EPROTOTYPE, "Protocol wrong type for socket (injected)")
    if name == "ECONNREFUSED":
        return ConnectionRefusedError(errno.ECONNREFUSED, "Connection refused (injected)")
    if name == "EHOSTUNREACH":
        return OSError(errno.EHOSTUNREACH, "No route to host (injected)")
    if name == "timeout":
        return socket.timeout("timed out (injected)")
    if name == "ssl":
        return ssl.SSLError(1, "[SSL: DECRYPTION_FAILED_OR_BAD_RECORD_MAC] injected")
    if name == "ssl_timeout":
        return ssl.SSLError("The read operation timed out")
    if name == "gaierror":
        return socket.gaierror(-2, "Name or service not known (injected)")
    if name == "KeyboardInterrupt":
        return KeyboardInterrupt("injected")
    if name == "SystemExit":
        return SystemExit("injected")
    if name == "GeneratorExit":
        return GeneratorExit("injected")
    if name == "base":
        return InjectedBase("injected")
    raise ValueError(name)


class ScriptedSocket(socket.socket):
    """Client end.  Only records and injects; all real semantics come from the underlying fd."""

    vf: "SockState"

    def sendall(self, data: typing.Any, flags: int = 0) -> None:  # type: ignore[override]
        self.vf.net._on_send(self, bytes(data))

    def send(self, data: typing.Any, flags: int = 0) -> int:  # type: ignore[override]
        b = bytes(data)
        self.vf.net._on_send(self, b)
        return len(b)

    def recv_into(self, buffer: typing.Any, nbytes: int = 0, flags: int = 0) -> int:  # type: ignore[override]
        self.vf.net._before_recv(self)
        return super().recv_into(buffer, nbytes, flags)

    def recv(self, bufsize: int, flags: int = 0) -> bytes:  # type: ignore[override]
        if not (flags & socket.MSG_PEEK):
            self.vf.net._before_recv(self)
        return super().recv(bufsize, flags)

    def settimeout(self, value: typing.Any) -> None:  # type: ignore[override]
        self.vf.net._on_settimeout(self, value)
        super().settimeout(value)

    def shutdown(self, how: int) -> None:  # type: ignore[override]
        self.vf.net._event("shutdown", self.vf.index, how)
        try:
            super().shutdown(how)
        except OSError:
            pass

    def close(self) -> None:
        st = self.vf
        if not st.explicit_close:
            st.explicit_close = True
            st.net._event("close", st.index)
        super().close()

    def _real_close(self, _ss: typing.Any = socket.socket) -> None:  # type: ignore[override]
        st = self.vf
        if not st.really_closed and not st.net.exited:
            st.really_closed = True
            st.closed_by = "close()" if st.explicit_close else "destructor"
            st.net._on_real_close(self)
        super()._real_close()

    def __del__(self) -> None:
        try:
            st = self.vf
            if not st.really_closed and not st.net.exited:
                st.really_closed = True
                st.closed_by = "destructor"
                st.net._event("gc-close", st.index)
                try:
                    st.peer.close()
                except Exception:  # noqa: BLE001
                    pass
        except Exception:  # noqa: BLE001
            pass
        try:
            super().__del__()  # type: ignore[misc]
        except Exception:  # noqa: BLE001
            pass

    # TLS look-alikes used when the TLS layer is faked (see Net.fake_tls)
    def selected_alpn_protocol(self) -> str | None:
        return None

    def getpeercert(self, binary_form: bool = False) -> typing.Any:
        return b"fake-der" if binary_form else {"subjectAltName": (("DNS", "*"),)}

    def version(self) -> str:
        return "TLSv1.3"


class DeepSocket(ScriptedSocket):
    """The object urllib3.util.connection.create_connection gets from ``socket.socket(...)`` in deep-dial mode:
    options, timeout and bind are collected until connect(), which applies the scripted connect plan."""

    deep_net: typing.Any = None
    deep_peer: typing.Any = None
    deep_connected = False
    deep_timeout: typing.Any = "unset"
    deep_bound: typing.Any = None

    def setsockopt(self, *a: typing.Any) -> None:  # type: ignore[override]
        if self.deep_connected:
            return super().setsockopt(*a)
        self.__dict__.setdefault("deep_opts", []).append(a)

    def settimeout(self, value: typing.Any) -> None:  # type: ignore[override]
        if self.deep_connected:
            return super().settimeout(value)
        self.deep_timeout = value
        socket.socket.settimeout(self, value)

    def bind(self, addr: typing.Any) -> None:  # type: ignore[override]
        self.deep_bound = addr

    def connect(self, sa: typing.Any) -> None:  # type: ignore[override]
        net = self.deep_net
        import urllib3.util.timeout as ut

        timeout = ut._DEFAULT_TIMEOUT if self.deep_timeout == "unset" else self.deep_timeout
        k = getattr(net, "_deep_seq", 0)
        net._deep_seq = k + 1
        dial = net._plan_dial(sa[0], sa[1], timeout, self.deep_bound, self.__dict__.get("deep_opts"), extra={"address_index": k})
        self.deep_connected = True
        net._register(self, self.deep_peer, dial, timeout)

    def close(self) -> None:
        if self.deep_connected:
            return super().close()
        try:
            self.deep_peer.close()
        except Exception:  # noqa: BLE001
            pass
        socket.socket.close(self)

    def _real_close(self, _ss: typing.Any = socket.socket) -> None:  # type: ignore[override]
        if self.deep_connected:
            return super()._real_close()
        socket.socket._real_close(self)

    def __del__(self) -> None:
        if self.deep_connected:
            return super().__del__()
        try:
            self.deep_peer.close()
        except Exception:  # noqa: BLE001
            pass


class SockState:
    def __init__(self, net: "Net", index: int, peer: socket.socket, dial: dict[str, typing.Any]):
        self.net = net
        self.index = index
        self.peer = peer
        self.dial = dial
        self.explicit_close = False
        self.really_closed = False
        self.closed_by: str | None = None
        self.n_send = 0
        self.n_recv = 0
        self.sent = bytearray()  # everything the client wrote on this socket
        self.sends: list[bytes] = []
        self.timeouts: list[tuple[str, typing.Any]] = []  # (phase, value)
        self.phase = "connected"
        self.fault_on_recv: BaseException | None = None
        self.fault_when_drained: BaseException | None = None  # raised by the first recv that finds nothing readable
        self.recv_faults: dict[int, BaseException] = {}  # nth recv (0-based, counted per socket) -> exception
        self.peer_closed = False
        self.outq = bytearray()  # server bytes not yet accepted by the kernel
        self.segments: collections.deque[bytes] = collections.deque()  # lazily delivered, one per client recv
        self.server = ServerConn(net, self)
        self.delivered = 0  # server bytes handed to the kernel
        self.respond_after: float | None = None  # virtual seconds the server takes before the first response byte
        self.stall = False  # server deliberately silent: a recv with nothing pending is a timeout
        self.tls = False


class ServerConn:
    """Server-side view of one connection: parses requests and lets the script react."""

    def __init__(self, net: "Net", st: SockState):
        self.net = net
        self.st = st
        self.inbuf = bytearray()
        self.requests: list[wire.Request] = []
        self.garbled: str | None = None
        self.tunnel: bytes | None = None  # CONNECT target once a tunnel is established
        self.connects: list[wire.Request] = []
        self.raw_after_garble = bytearray()
        self.tunnel_pending = False

    @property
    def index(self) -> int:
        return self.st.index

    # -- script API ---------------------------------------------------------------------------
    def write(self, data: bytes) -> None:
        """Hand bytes to the kernel now (visible to poll()/is_connection_dropped immediately)."""
        st = self.st
        if st.peer_closed:
            return
        if st.segments:
            # a byte stream is FIFO: bytes written now cannot overtake earlier bytes that are still on their way
            st.segments.append(bytes(data))
            return
        st.outq += data
        self.net._flush(st)

    def write_segmented(self, pieces: typing.Iterable[bytes]) -> None:
        """Deliver one piece per client recv() (controls what each recv returns)."""
        self.st.segments.extend(p for p in pieces if p)

    def close(self) -> None:
        """Orderly close: the client sees EOF after whatever was written."""
        st = self.st
        st.close_after_flush = True  # type: ignore[attr-defined]
        self.net._flush(st)

    def reset(self) -> None:
        st = self.st
        st.fault_on_recv = make_exc("ECONNRESET")
        st.outq.clear()
        st.segments.clear()
        self.net._close_peer(st)

    def stall(self) -> None:
        self.st.stall = True


class Net:
    """One simulated network.  Use as a context manager: patches urllib3 module attributes on entry and
    restores them on exit."""

    def __init__(self, script: typing.Any = None, fake_tls: bool = True, deep_dial: bool = False, addresses_per_name: int = 1):
        self.script = script
        self.deep_dial = deep_dial
        self.addresses_per_name = addresses_per_name
        self._deep_seq = 0
        self.clock = VClock()
        self.socks: list[ScriptedSocket] = []
        self.states: list[SockState] = []
        self.dials: list[dict[str, typing.Any]] = []
        self.events: list[tuple[typing.Any, ...]] = []
        self.tick = 0
        self.fake_tls = fake_tls
        self.tls_wraps: list[dict[str, typing.Any]] = []
        self._saved: list[tuple[typing.Any, str, typing.Any]] = []
        self.lock = threading.RLock()
        self.max_open = 0
        self.checkout_fault_socks: set[int] = set()
        self.raised: list[BaseException] = []  # every exception object this network raised into urllib3, in order
        self.exited = False
        self.on_event: typing.Callable[[tuple[typing.Any, ...]], None] | None = None
        self.before_dial_hook: typing.Callable[[dict[str, typing.Any]], None] | None = None

    # -- installation ---------------------------------------------------------------------------
    def __enter__(self) -> "Net":
        import urllib3.connection as uc
        import urllib3.util.connection as uuc
        import urllib3.util.retry as ur
        import urllib3.util.timeout as ut

        if not self.deep_dial:
            self._patch(uuc, "create_connection", self.create_connection)
        self._patch(ut, "time", self.clock)
        self._patch(ur, "time", self.clock)
        if self.fake_tls == "inner":
            # keep urllib3's own TLS preparation (context, server_hostname normalisation) and replace only the
            # innermost wrap: what would be handed to the TLS library is recorded, the socket stays plain
            self._patch(uc, "ssl_wrap_socket", self._fake_inner_wrap)
        elif self.fake_tls:
            self._patch(uc, "_ssl_wrap_socket_and_match_hostname", self._fake_tls_wrap)
        import urllib3.connectionpool as ucp

        real_probe = ucp.is_connection_dropped

        def probing(conn: typing.Any) -> bool:
            """the pool's liveness probe at checkout of a pooled connection: a scripted fault may strike here"""
            self._event("checkout-probe", getattr(getattr(getattr(conn, "sock", None), "vf", None), "index", None))
            act = self._script_call("on_checkout", conn)
            if isinstance(act, BaseException):
                self.raised.append(act)
                idx = getattr(getattr(getattr(conn, "sock", None), "vf", None), "index", None)
                if idx is not None:
                    self.checkout_fault_socks.add(idx)
                raise act
            return real_probe(conn)

        self._patch(ucp, "is_connection_dropped", probing)
        # In this network a ScriptedSocket *is* the plain TCP socket: urllib3 modules that look at
        # `socket.socket` (exact-type or isinstance tests) must see it as such.
        shim = types.ModuleType("socket")
        shim.__dict__.update(socket.__dict__)
        shim.socket = ScriptedSocket  # type: ignore[attr-defined]
        for name, mod in list(sys.modules.items()):
            if (name == "urllib3" or name.startswith("urllib3.")) and getattr(mod, "socket", None) is socket:
                if self.deep_dial and mod is uuc:
                    # urllib3's own create_connection runs: name resolution and the socket constructor are scripted
                    deep = types.ModuleType("socket")
                    deep.__dict__.update(socket.__dict__)
                    deep.socket = self._deep_socket  # type: ignore[attr-defined]
                    deep.getaddrinfo = self._deep_getaddrinfo  # type: ignore[attr-defined]
                    self._patch(mod, "socket", deep)
                else:
                    self._patch(mod, "socket", shim)
        return self

    def __exit__(self, *a: typing.Any) -> None:
        for mod, name, old in reversed(self._saved):
            setattr(mod, name, old)
        self._saved.clear()
        # The network is over: nothing is recorded from here on.  Free every descriptor and break the reference
        # cycles the harness itself created (injected exceptions keep tracebacks -> frames -> the pool, and the
        # pool's weakref finaliser keeps its queue -> connections -> sockets -> this object alive), otherwise a
        # long run exhausts file descriptors.
        self.exited = True
        for e in self.raised:
            try:
                e.__traceback__ = None
            except Exception:  # noqa: BLE001
                pass
        self.raised = []
        self.script = None
        self.on_event = None
        self.before_dial_hook = None
        for st in self.states:
            try:
                st.peer.close()
            except Exception:  # noqa: BLE001
                pass
        for sk in self.socks:
            try:
                socket.socket.close(sk)
            except Exception:  # noqa: BLE001
                pass

    def _patch(self, mod: typing.Any, name: str, new: typing.Any) -> None:
        self._saved.append((mod, name, getattr(mod, name)))
        setattr(mod, name, new)

    def _fake_tls_wrap(self, sock: typing.Any, **kw: typing.Any) -> typing.Any:
        import urllib3.connection as uc

        self.tls_wraps.append({"conn": getattr(getattr(sock, "vf", None), "index", None), "server_hostname": kw.get("server_hostname"), "tls_in_tls": kw.get("tls_in_tls"), "assert_hostname": kw.get("assert_hostname"), "cert_reqs": kw.get("cert_reqs")})
        st = getattr(sock, "vf", None)
        if st is not None:
            st.tls = True
            self._event("tls", st.index, kw.get("server_hostname"))
            act = self._script_call("on_tls", st, kw)
            if isinstance(act, BaseException):
                sock.close()
                raise act
        return uc._WrappedAndVerifiedSocket(socket=sock, is_verified=True)

    def _fake_inner_wrap(self, sock: typing.Any, **kw: typing.Any) -> typing.Any:
        st = getattr(sock, "vf", None)
        self.tls_wraps.append({"conn": getattr(st, "index", None), "server_hostname": kw.get("server_hostname"), "tls_in_tls": kw.get("tls_in_tls"), "inner": True})
        if st is not None:
            st.tls = True
            self._event("tls", st.index, kw.get("server_hostname"))
        return sock

    # -- events ---------------------------------------------------------------------------------
    def _event(self, kind: str, *details: typing.Any) -> None:
        with self.lock:
            self.tick += 1
            ev = (self.tick, kind) + details
            self.events.append(ev)
        if self.on_event:
            self.on_event(ev)

    def _script_call(self, name: str, *args: typing.Any) -> typing.Any:
        fn = getattr(self.script, name, None)
        if fn is None:
            return None
        return fn(self, *args)

    # -- dialing --------------------------------------------------------------------------------
    def create_connection(self, address: tuple[str, int], timeout: typing.Any = None, source_address: typing.Any = None, socket_options: typing.Any = None) -> socket.socket:
        host, port = address
        dial = self._plan_dial(host, port, timeout, source_address, socket_options)
        a, b = socket.socketpair()
        cs = ScriptedSocket(a.family, a.type, a.proto, fileno=a.detach())
        self._register(cs, b, dial, timeout)
        return cs

    def _plan_dial(self, host: str, port: int, timeout: typing.Any, source_address: typing.Any, socket_options: typing.Any, extra: dict[str, typing.Any] | None = None) -> dict[str, typing.Any]:
        """Records a dial and applies the script's connect plan: returns the dial record or raises what was scripted."""
        dial = {"n": len(self.dials), "host": host, "port": port, "timeout": timeout, "source_address": source_address, "socket_options": socket_options, "t": self.clock.now, "open_before": sum(1 for st in self.states if not st.really_closed and st.index not in self.checkout_fault_socks)}
        if extra:
            dial.update(extra)
        with self.lock:
            self.dials.append(dial)
        self._event("dial", dial["n"], host, port, repr(timeout))
        if self.before_dial_hook:
            self.before_dial_hook(dial)
        act = self._script_call("on_dial", dial)
        if isinstance(act, tuple) and act and act[0] == "delay":
            d = float(act[1])
            import urllib3.util.timeout as ut

            t = timeout
            if t is ut._DEFAULT_TIMEOUT:
                t = socket.getdefaulttimeout()
            if t is not None and d > t:
                self.clock.advance(t)
                dial["outcome"] = "timeout"
                raise socket.timeout("timed out (virtual connect)")
            self.clock.advance(d)
            act = None
        if isinstance(act, BaseException):
            dial["outcome"] = type(act).__name__
            self.raised.append(act)
            raise act
        return dial

    def _register(self, cs: "ScriptedSocket", peer: socket.socket, dial: dict[str, typing.Any], timeout: typing.Any) -> None:
        peer.setblocking(False)
        with self.lock:
            idx = len(self.states)
            st = SockState(self, idx, peer, dial)
            cs.vf = st
            self.states.append(st)
            self.socks.append(cs)
            dial["conn"] = idx
            dial["outcome"] = "ok"
            self.max_open = max(self.max_open, self.open_count())
        st.timeouts.append(("connect", timeout))
        self._script_call("on_connected", st)

    # -- deep dialing: urllib3's own create_connection runs; only getaddrinfo and the socket constructor are ours ---
    def _deep_getaddrinfo(self, host: str, port: int, family: int = 0, type: int = 0, proto: int = 0, flags: int = 0) -> list[typing.Any]:  # noqa: A002
        self._event("resolve", host, port)
        n = self.addresses_per_name
        self._deep_seq = 0
        return [(socket.AF_INET, socket.SOCK_STREAM, 6, "", (host, port)) for _ in range(n)]

    def _deep_socket(self, af: int = socket.AF_INET, socktype: int = socket.SOCK_STREAM, proto: int = 0, fileno: typing.Any = None) -> "DeepSocket":
        a, b = socket.socketpair()
        cs = DeepSocket(a.family, a.type, a.proto, fileno=a.detach())
        cs.deep_net = self
        cs.deep_peer = b
        return cs

    def open_count(self) -> int:
        return sum(1 for st in self.states if not st.really_closed)

    def open_states(self) -> list[SockState]:
        return [st for st in self.states if not st.really_closed]

    # -- client -> server ------------------------------------------------------------------------
    def _on_send(self, sock: ScriptedSocket, data: bytes) -> None:
        st = sock.vf
        if st.really_closed or sock.fileno() < 0:
            raise OSError(errno.EBADF, "Bad file descriptor")
        n = st.n_send
        st.n_send += 1
        self._event("send", st.index, n, len(data))
        act = self._script_call("on_send", st, n, data)
        if isinstance(act, BaseException):
            self._event("send-fault", st.index, n, type(act).__name__, id(act))
            self.raised.append(act)
            if not isinstance(act, BrokenPipeError) or True:
                # the peer is gone for any send fault: nothing more will ever be answered
                pass
            raise act
        if st.peer_closed and not getattr(st, "accept_after_close", False):
            # writing to a connection the peer closed: the first write still "succeeds" on TCP, so we accept
            # the bytes silently (they are recorded) — the failure shows on the read side as EOF.
            st.sent += data
            st.sends.append(data)
            return
        st.sent += data
        st.sends.append(data)
        st.phase = "sent"
        self._server_feed(st, data)

    def _server_feed(self, st: SockState, data: bytes) -> None:
        sc = st.server
        if sc.garbled is not None:
            sc.raw_after_garble += data
            return
        sc.inbuf += data
        while sc.inbuf:
            try:
                r = wire.parse_request(bytes(sc.inbuf))
            except wire.WireError as e:
                sc.garbled = str(e)
                self._event("garbled", st.index, str(e))
                if self._script_call("on_garbage", sc) is None:
                    sc.write(wire.build_response(400, "Bad Request", body=b"bad", keepalive=False))
                    sc.close()
                return
            if r is None:
                return
            req, residue = r
            sc.inbuf = bytearray(residue)
            if req.method == b"CONNECT":
                sc.connects.append(req)
                self._event("connect-req", st.index, req.target)
                if self._script_call("on_connect", sc, req) is None:
                    sc.tunnel = req.target
                    sc.write(b"HTTP/1.1 200 Connection established\r\n\r\n")
                continue
            sc.requests.append(req)
            self._event("request", st.index, len(sc.requests) - 1, req.method, req.target)
            self._script_call("on_request", sc, req)

    # -- server -> client ------------------------------------------------------------------------
    def _flush(self, st: SockState) -> None:
        while st.outq and not st.peer_closed:
            try:
                n = st.peer.send(bytes(st.outq[:65536]))
            except BlockingIOError:
                return
            except OSError:
                st.outq.clear()
                return
            del st.outq[:n]
            st.delivered += n
        if not st.outq and not st.segments and getattr(st, "close_after_flush", False):
            self._close_peer(st)

    def _close_peer(self, st: SockState) -> None:
        if not st.peer_closed:
            st.peer_closed = True
            try:
                st.peer.close()
            except OSError:
                pass
            self._event("server-close", st.index)

    def _readable(self, sock: ScriptedSocket) -> bool:
        p = select.poll()
        p.register(sock.fileno(), select.POLLIN)
        return bool(p.poll(0))

    def _has_data(self, sock: ScriptedSocket) -> bool:
        try:
            return len(socket.socket.recv(sock, 1, socket.MSG_PEEK | socket.MSG_DONTWAIT)) > 0
        except (BlockingIOError, OSError):
            return False

    def _before_recv(self, sock: ScriptedSocket) -> None:
        st = sock.vf
        n = st.n_recv
        st.n_recv += 1
        self._event("recv", st.index, n)
        if n in st.recv_faults:
            exc = st.recv_faults.pop(n)
            self._event("recv-fault", st.index, n, type(exc).__name__, id(exc))
            self.raised.append(exc)
            raise exc
        act = self._script_call("on_recv", st, n)
        if isinstance(act, BaseException):
            self._event("recv-fault", st.index, n, type(act).__name__, id(act))
            self.raised.append(act)
            raise act
        if st.fault_on_recv is not None:
            exc, st.fault_on_recv = st.fault_on_recv, None
            self._event("recv-fault", st.index, n, type(exc).__name__, id(exc))
            self.raised.append(exc)
            raise exc
        if st.respond_after is not None:
            # the server needs `respond_after` virtual seconds before its first byte: compare with the socket timeout
            wait, st.respond_after = st.respond_after, None
            t = sock.gettimeout()
            if t is not None and wait > t:
                self.clock.advance(t)
                st.respond_after = wait - t
                self._event("recv-timeout", st.index, n)
                raise socket.timeout("timed out (virtual read, server still thinking)")
            self.clock.advance(wait)
        self._flush(st)
        if self._readable(sock) and not (st.peer_closed and st.fault_when_drained is not None and not self._has_data(sock)):
            return
        if st.fault_when_drained is not None and not st.segments and not st.outq:
            exc, st.fault_when_drained = st.fault_when_drained, None
            self._event("recv-fault", st.index, n, type(exc).__name__, id(exc))
            self.raised.append(exc)
            raise exc
        if st.segments:
            seg = st.segments.popleft()
            st.outq += seg
            self._flush(st)
            if not st.segments and getattr(st, "close_after_flush", False) and not st.outq:
                self._close_peer(st)
            if self._readable(sock):
                return
        if st.peer_closed:
            return  # EOF
        # nothing will ever arrive: on the virtual clock this read times out now
        t = sock.gettimeout()
        if t is not None and t > 0:
            self.clock.advance(t)
        self._event("recv-timeout", st.index, n)
        raise socket.timeout("timed out (virtual read)")

    def _on_settimeout(self, sock: ScriptedSocket, value: typing.Any) -> None:
        st = sock.vf
        st.timeouts.append((st.phase, value))
        self._event("settimeout", st.index, st.phase, repr(value))

    def _on_real_close(self, sock: ScriptedSocket) -> None:
        st = sock.vf
        self._event("real-close", st.index, st.closed_by)
        try:
            st.peer.close()
        except OSError:
            pass
        st.peer_closed = True

    # -- queries for monitors -------------------------------------------------------------------
    def all_requests(self) -> list[tuple[int, wire.Request]]:
        out = []
        for st in self.states:
            for r in st.server.requests:
                out.append((st.index, r))
        return out

    def pending_readable(self, st: SockState) -> bool:
        """Is anything (data or EOF) readable on the client end right now?"""
        s = self.socks[st.index]
        if st.really_closed or s.fileno() < 0:
            return False
        return self._readable(s)


# ------------------------------------------------------------------ attempt-based scripting ---
class AttemptScript:
    """Server behaviour given as a list of per-attempt outcomes (pure data).  An attempt is consumed when
    (a) a dial fails, (b) a send fault fires, (c) a complete request has been received, (d) a CONNECT or the
    (fake) TLS layer is scripted to fail.  When the list is exhausted every further request gets `default`.

    Outcome kinds:
      {"k": "connect", "err": "ECONNREFUSED"|"timeout"|"EHOSTUNREACH"|"gaierror"|"KeyboardInterrupt"|"base"|...}
      {"k": "send", "err": <make_exc name>, "at": n}            n-th sendall of the attempt (0 = request head)
      {"k": "recv", "err": "timeout"|"reset"|"eof"|"garbage"|"ssl"|"KeyboardInterrupt"|"base"|...}   before any response byte
      {"k": "resp", "status": 200, "headers": [[k, v]], "body": "...", "framing": "cl"|"chunked"|"close",
         "keepalive": true, "short": n (deliver only n body bytes, then EOF), "stray": "bytes after the message",
         "body_fault": [n, err] (n body bytes, then err raised by the read), "segments": k}
      {"k": "proxy_connect", "status": 403 | "garbage" | "eof"}
      {"k": "tls", "err": "ssl"|"cert"}
    """

    def __init__(self, outcomes: list[dict[str, typing.Any]], default: dict[str, typing.Any] | None = None, body_for: typing.Callable[[wire.Request], bytes] | None = None):
        self.outcomes = list(outcomes)
        self.ai = 0
        self.default = default or {"k": "resp", "status": 200, "body": "ok"}
        self.log: list[dict[str, typing.Any]] = []  # one entry per consumed attempt
        self.attempt_sends: dict[int, int] = {}
        self.body_for = body_for

    def _peek(self) -> dict[str, typing.Any] | None:
        return self.outcomes[self.ai] if self.ai < len(self.outcomes) else None

    def _consume(self, what: str, conn: int | None, req: wire.Request | None = None) -> dict[str, typing.Any]:
        o = self._peek()
        if o is None:
            o = dict(self.default, defaulted=True)
        self.ai += 1
        self.log.append({"i": len(self.log), "via": what, "conn": conn, "outcome": o, "request": None if req is None else (req.method.decode("latin-1"), req.target.decode("latin-1"))})
        return o

    # -- hooks called by Net ----------------------------------------------------------------------
    def on_dial(self, net: Net, dial: dict[str, typing.Any]) -> typing.Any:
        o = self._peek()
        if o is not None and o["k"] == "connect":
            self._consume("dial", None)
            if "delay" in o:
                return ("delay", o["delay"])
            return make_exc(o["err"])
        return None

    def on_checkout(self, net: Net, conn: typing.Any) -> typing.Any:
        o = self._peek()
        if o is not None and o["k"] == "checkout":
            self._consume("checkout", None)
            return make_exc(o["err"])
        return None

    def on_tls(self, net: Net, st: SockState, kw: dict[str, typing.Any]) -> typing.Any:
        o = self._peek()
        if o is not None and o["k"] == "tls":
            self._consume("tls", st.index)
            if o.get("err") == "cert":
                from urllib3.util.ssl_match_hostname import CertificateError

                return CertificateError("hostname mismatch (injected)")
            return make_exc("ssl")
        return None

    def on_send(self, net: Net, st: SockState, n: int, data: bytes) -> typing.Any:
        k = self.attempt_sends.get(st.index, 0)
        self.attempt_sends[st.index] = k + 1
        o = self._peek()
        if o is not None and o["k"] == "send" and k == o.get("at", 0) and st.server.tunnel_pending is False:
            self._consume("send", st.index)
            self.attempt_sends[st.index] = 0
            # the peer is gone: nothing will ever be answered on this connection
            st.server.close()
            return make_exc(o["err"])
        if o is not None and o["k"] == "early" and k == o.get("at", 1) and k > 0 and st.server.tunnel_pending is False:
            # the server answers after the request head, while the client is still writing the body, and closes: the
            # client's write fails, the answer is nevertheless there to be read
            self._consume("early-response", st.index)
            self.attempt_sends[st.index] = 0
            st.server.inbuf.clear()
            st.server.write(wire.build_response(int(o.get("status", 503)), "Early", [tuple(h) for h in o.get("headers", [])], b"early", keepalive=False))
            st.server.close()
            return make_exc(o.get("err", "EPIPE"))
        return None

    def on_connect(self, net: Net, sc: ServerConn, req: wire.Request) -> typing.Any:
        self.attempt_sends[sc.index] = 0
        o = self._peek()
        if o is not None and o["k"] == "proxy_connect":
            self._consume("connect-request", sc.index, req)
            st = o.get("status")
            if st == "garbage":
                sc.write(b"NOT-HTTP garbage\r\n\r\n")
                sc.close()
            elif st == "eof":
                sc.close()
            else:
                sc.write(wire.build_response(int(st), "Denied", body=b"no tunnel", keepalive=False))
                sc.close()
            return True
        return None

    def on_request(self, net: Net, sc: ServerConn, req: wire.Request) -> None:
        self.attempt_sends[sc.index] = 0
        o = self._consume("request", sc.index, req)
        st = sc.st
        k = o["k"]
        if k == "early":
            # the whole request arrived before the scripted point: an ordinary (closing) answer with that status
            o = dict(o, k="resp", body="early", keepalive=False)
            k = "resp"
        if k in ("connect", "send", "proxy_connect", "tls", "checkout"):
            # an outcome that can no longer happen for this attempt (connection reused, no proxy ...): treat as 200
            self.log[-1]["not_applicable"] = True
            o = dict(self.default)
            k = "resp"
        if k == "recv":
            err = o["err"]
            if err == "timeout":
                sc.stall()
            elif err == "reset":
                sc.reset()
            elif err == "eof":
                sc.close()
            elif err == "garbage":
                sc.write(b"\x16\x03\x01 this is not HTTP\r\n\r\n")
                sc.close()
            else:
                st.fault_on_recv = make_exc(err)
                sc.stall()
            return
        body = o.get("body", "")
        body_b = body.encode("latin-1") if isinstance(body, str) else bytes(body)
        if self.body_for is not None and o.get("body") is None:
            body_b = self.body_for(req)
        if req.method == b"HEAD" or int(o.get("status", 200)) in (204, 304):
            msg = wire.build_response(int(o.get("status", 200)), "X", [tuple(h) for h in o.get("headers", [])], b"", framing="none", keepalive=o.get("keepalive", True))
        else:
            msg = wire.build_response(int(o.get("status", 200)), "X", [tuple(h) for h in o.get("headers", [])], body_b, framing=o.get("framing", "cl"), chunk_sizes=o.get("chunk_sizes"), keepalive=o.get("keepalive", True) and o.get("framing", "cl") != "close")
        split = msg.index(b"\r\n\r\n") + 4
        closing = not (o.get("keepalive", True) and o.get("framing", "cl") != "close")
        if "short" in o:
            msg = msg[: split + int(o["short"])]
            closing = True
        if "body_fault" in o:
            nbytes, err = o["body_fault"]
            msg = msg[: split + int(nbytes)]
            if err == "eof":
                closing = True
            elif err == "reset":
                sc.write(msg)
                st.fault_when_drained = make_exc("ECONNRESET")
                self.net_close_later = True
                return
            else:
                sc.write(msg)
                st.fault_when_drained = make_exc(err)
                return
        if o.get("segments"):
            n = max(1, len(msg) // int(o["segments"]))
            sc.write_segmented([msg[i : i + n] for i in range(0, len(msg), n)])
        else:
            sc.write(msg)
        if o.get("stray"):
            sc.write(o["stray"].encode("latin-1") if isinstance(o["stray"], str) else o["stray"])
        if closing:
            sc.close()
