"""One shard of one check (run as a subprocess by vf.runner)."""
from __future__ import annotations

import argparse
import faulthandler
import importlib
import json
import sys
import traceback

from vf.core import Ctx, Recorder, assert_repo_tree


def main() -> int:
    ap = argparse.ArgumentParser()
    ap.add_argument("prop")
    ap.add_argument("tier")
    ap.add_argument("seed", type=int)
    ap.add_argument("shard", type=int)
    ap.add_argument("nshards", type=int)
    ap.add_argument("out")
    ap.add_argument("--budget", type=float, default=60.0)
    ap.add_argument("--replay", default=None)
    a = ap.parse_args()
    faulthandler.enable()
    assert_repo_tree()
    ctx = Ctx(a.prop, a.tier, a.seed, a.shard, a.nshards, a.budget)
    rec = Recorder(ctx)
    mod = importlib.import_module(f"vf.props.{a.prop.lower()}")
    # hard watchdog inside the shard: dump stacks shortly before the parent would kill us
    faulthandler.dump_traceback_later(a.budget * 3 + 100, exit=False)
    try:
        if a.replay:
            with open(a.replay) as f:
                data = json.load(f)
            mod.replay(data["case"], ctx, rec)
        else:
            mod.run_shard(ctx, rec)
    except BaseException:  # a harness crash is inconclusive, never "held"
        traceback.print_exc()
        rec.note_inconclusive("shard crashed: " + traceback.format_exc()[-1200:])
    faulthandler.cancel_dump_traceback_later()
    with open(a.out, "w") as f:
        json.dump(rec.result(), f)
    return 0


if __name__ == "__main__":
    sys.exit(main())
