"""Shared per-shard recorder: counts evaluations, distinct non-trivial cases, monitor evaluations,
keeps samples and failures.  Every property module gets one ``Recorder`` per shard and returns
``rec.result()``; the parent (vf.runner) merges shards, classifies failures and writes evidence."""
from __future__ import annotations

import hashlib
import json
import os
import random
import sys
import time
import typing

MAX_FAILS_PER_SHARD = 400
MAX_SAMPLES_PER_SHARD = 6


def jdefault(o: typing.Any) -> typing.Any:
    if isinstance(o, (bytes, bytearray, memoryview)):
        b = bytes(o)
        if len(b) > 600:
            return {"__bytes__": b[:600].decode("latin-1"), "len": len(b), "sha1": hashlib.sha1(b).hexdigest()}
        return {"__bytes__": b.decode("latin-1")}
    if isinstance(o, (set, frozenset)):
        return sorted(o, key=repr)
    if isinstance(o, tuple):
        return list(o)
    return repr(o)


def canon(obj: typing.Any) -> str:
    return json.dumps(obj, sort_keys=True, default=jdefault, ensure_ascii=True)


def h64(obj: typing.Any) -> int:
    s = obj if isinstance(obj, str) else canon(obj)
    return int.from_bytes(hashlib.blake2b(s.encode("utf-8", "surrogatepass"), digest_size=8).digest(), "big")


class Ctx:
    """What a shard knows about the run."""

    def __init__(self, prop: str, tier: str, seed: int, shard: int, nshards: int, budget_s: float):
        self.prop = prop
        self.tier = tier
        self.seed = seed
        self.shard = shard
        self.nshards = nshards
        self.budget_s = budget_s
        self.t0 = time.monotonic()
        self.rng = random.Random(seed * 100003 + shard * 7919 + 17)

    @property
    def quick(self) -> bool:
        return self.tier == "quick"

    def mine(self, index: int) -> bool:
        """Deterministic partition of an enumerated space over shards."""
        return index % self.nshards == self.shard

    def skip(self, index: int, stride: typing.Any) -> bool:
        """Sub-sampling of an enumerated space (keep about 1/stride of the indices this shard owns).  The decision is a hash of
        the index and the seed, not index arithmetic: a stride that divides the size of an inner loop would otherwise
        leave the same inner positions out for ever (and different seeds now look at different subsets)."""
        stride = int(stride)
        if stride <= 1:
            return False
        h = (index * 0x9E3779B1 + (self.seed + 1) * 0x85EBCA6B) & 0xFFFFFFFF
        h ^= h >> 15
        h = (h * 0x2C1B3C6D) & 0xFFFFFFFF
        h ^= h >> 12
        return h % stride != 0

    def elapsed(self) -> float:
        return time.monotonic() - self.t0

    def out_of_time(self, frac: float = 1.0) -> bool:
        return self.elapsed() > self.budget_s * frac

    def pick(self, quick: typing.Any, thorough: typing.Any) -> typing.Any:
        return quick if self.quick else thorough


class Recorder:
    def __init__(self, ctx: Ctx):
        self.ctx = ctx
        self.evaluations = 0
        self.distinct: set[int] = set()
        self.monitors: dict[str, int] = {}
        self.samples: list[typing.Any] = []
        self.failures: list[dict[str, typing.Any]] = []
        self.failure_count = 0
        self.dropped_failures = 0
        self.extra_counts: dict[str, int] = {}
        self.extra_sets: dict[str, set[str]] = {}
        self.inconclusive: list[str] = []
        self.exhaustive_parts: list[str] = []
        self._sample_tags: set[str] = set()
        self.known: dict[str, dict[str, typing.Any]] = {}
        self._open_known = load_open_known()

    # -- cases ------------------------------------------------------------------------------
    def case(self, desc: typing.Any, nontrivial: bool = True) -> None:
        """One generated case / execution.  ``desc`` is the canonical case description."""
        self.evaluations += 1
        if nontrivial:
            self.distinct.add(h64(desc))

    def mon(self, name: str, n: int = 1) -> None:
        """The monitor ``name`` evaluated its deciding assertion n times."""
        self.monitors[name] = self.monitors.get(name, 0) + n

    def count(self, name: str, n: int = 1) -> None:
        self.extra_counts[name] = self.extra_counts.get(name, 0) + n

    def seen(self, setname: str, value: typing.Any) -> None:
        """Record a member of a named set of distinct observations (interleavings, fault points …)."""
        s = self.extra_sets.setdefault(setname, set())
        if len(s) < 200000:
            s.add(value if isinstance(value, str) else canon(value))

    def sample(self, obj: typing.Any, tag: str = "") -> None:
        if tag:
            if tag in self._sample_tags:
                return
            self._sample_tags.add(tag)
        elif len(self.samples) >= MAX_SAMPLES_PER_SHARD:
            return
        if len(self.samples) < MAX_SAMPLES_PER_SHARD * 3:
            self.samples.append(json.loads(canon(obj)))

    def fail(self, case: typing.Any, kind: str, observed: typing.Any = None, msg: str = "") -> None:
        """A refuting observation.  ``kind`` names the violated clause; ``observed`` is the signature
        the findings classifier looks at; ``case`` must be enough for --replay."""
        from vf import findings as F

        self.failure_count += 1
        f = json.loads(canon({"case": case, "kind": kind, "observed": observed, "msg": msg}))
        key = F.classify(self.ctx.prop, f)
        if key and f"{self.ctx.prop}/{key}" in self._open_known:
            # attributed to a listed finding (precondition and signature both matched): counted, one example kept
            k = self.known.setdefault(key, {"count": 0, "example": f})
            k["count"] += 1
            return
        f["classified_as"] = key
        if len(self.failures) < MAX_FAILS_PER_SHARD:
            self.failures.append(f)
        else:
            self.dropped_failures += 1

    def note_inconclusive(self, reason: str) -> None:
        if reason not in self.inconclusive:
            self.inconclusive.append(reason)

    def result(self) -> dict[str, typing.Any]:
        return {
            "evaluations": self.evaluations,
            "distinct": sorted(self.distinct),
            "monitors": self.monitors,
            "samples": self.samples,
            "failures": self.failures,
            "failure_count": self.failure_count,
            "dropped_failures": self.dropped_failures,
            "known": self.known,
            "extra_counts": self.extra_counts,
            "extra_sets": {k: sorted(v) for k, v in self.extra_sets.items()},
            "inconclusive": self.inconclusive,
            "exhaustive_parts": self.exhaustive_parts,
            "wall_s": round(self.ctx.elapsed(), 3),
        }


def load_open_known() -> set[str]:
    here = os.path.dirname(os.path.dirname(os.path.abspath(__file__)))
    path = os.path.join(here, "known_findings.json")
    try:
        with open(path) as fh:
            data = json.load(fh)
    except FileNotFoundError:
        return set()
    return {f"{e['property']}/{e['key']}" for e in data.get("findings", []) if e.get("status", "open") == "open"}


def assert_repo_tree() -> str:
    """Every shard checks that the urllib3 it imports is the tree it was asked to test."""
    import urllib3

    want = os.environ.get("VERIF_SRC", "/repo/src")
    got = os.path.dirname(os.path.dirname(os.path.abspath(urllib3.__file__)))
    if os.path.realpath(got) != os.path.realpath(want):
        print(f"FATAL urllib3 imported from {got}, expected {want}", file=sys.stderr)
        sys.exit(3)
    return got
