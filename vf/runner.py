"""Parent process of every check: shards the work over subprocesses, merges what the monitors
observed, classifies failures against the committed known-findings file, writes the evidence
file and decides the exit status (0 held / 1 VIOLATION / 2 inconclusive)."""
from __future__ import annotations

import argparse
import hashlib
import importlib
import json
import os
import subprocess
import sys
import tempfile
import time
import typing

HERE = os.path.dirname(os.path.dirname(os.path.abspath(__file__)))
PY = "/venv/bin/python"


def load_known() -> dict[str, dict[str, typing.Any]]:
    path = os.path.join(HERE, "known_findings.json")
    if not os.path.exists(path):
        return {}
    with open(path) as f:
        data = json.load(f)
    out = {}
    for e in data.get("findings", []):
        if e.get("status", "open") == "open":
            out[f"{e['property']}/{e['key']}"] = e
    return out


def shard_env(src: str) -> dict[str, str]:
    env = dict(os.environ)
    env["PYTHONPATH"] = os.pathsep.join([src, HERE, os.path.join(HERE, ".deps")])
    env["PYTHONHASHSEED"] = "0"
    env["VERIF_SRC"] = src
    env["PYTHONDONTWRITEBYTECODE"] = "1"
    env.setdefault("PYTHONWARNINGS", "default::ResourceWarning")
    return env


def ensure_deps() -> None:
    if not os.path.isdir(os.path.join(HERE, ".deps", "icontract")):
        subprocess.run(["/bin/bash", os.path.join(HERE, "setup.sh")], stdout=subprocess.DEVNULL, stderr=subprocess.DEVNULL)
    os.makedirs(os.path.join(HERE, "evidence"), exist_ok=True)
    os.makedirs(os.path.join(HERE, "replays"), exist_ok=True)


def main(argv: list[str] | None = None) -> int:
    ap = argparse.ArgumentParser()
    ap.add_argument("prop")
    ap.add_argument("--tier", default=os.environ.get("VERIF_TIER", "quick"), choices=["quick", "thorough"])
    ap.add_argument("--seed", type=int, default=int(os.environ.get("VERIF_SEED", "0") or 0))
    ap.add_argument("--replay", default=None)
    ap.add_argument("--src", default=os.environ.get("VERIF_SRC", "/repo/src"))
    ap.add_argument("--shards", type=int, default=0)
    ap.add_argument("--no-evidence", action="store_true", help="do not rewrite evidence (selftest on mutated copies)")
    args = ap.parse_args(argv)
    prop = args.prop.upper()
    src = os.path.abspath(args.src)
    ensure_deps()

    from vf import meta as _meta

    mod = _meta.get(prop)
    if not args.replay:  # replay files of earlier runs of this check are stale
        import glob

        for old_replay in glob.glob(os.path.join(HERE, "replays", f"{prop}-*.json")):
            try:
                os.unlink(old_replay)
            except OSError:
                pass
    t0 = time.monotonic()
    env = shard_env(src)
    tmpdir = tempfile.mkdtemp(prefix=f"vf-{prop}-")
    try:
        if args.replay:
            out = os.path.join(tmpdir, "replay.json")
            cmd = [PY, "-B", "-X", "faulthandler", "-m", "vf.shard", prop, args.tier, str(args.seed), "0", "1", out, "--replay", os.path.abspath(args.replay)]
            p = subprocess.run(cmd, env=env, cwd=HERE, timeout=600)
            results = [json.load(open(out))] if os.path.exists(out) else []
            crashed = [] if results else [f"replay shard exit={p.returncode}"]
            nshards = 1
        else:
            nshards = args.shards or mod.SHARDS[args.tier]
            nshards = max(1, min(nshards, os.cpu_count() or 1))
            budget = mod.BUDGET[args.tier]
            hard = budget * 3 + 120
            procs = []
            for i in range(nshards):
                out = os.path.join(tmpdir, f"s{i}.json")
                err = open(os.path.join(tmpdir, f"s{i}.err"), "wb")
                cmd = [PY, "-B", "-X", "faulthandler", "-m", "vf.shard", prop, args.tier, str(args.seed), str(i), str(nshards), out, "--budget", str(budget)]
                procs.append((i, out, err, subprocess.Popen(cmd, env=env, cwd=HERE, stdout=err, stderr=subprocess.STDOUT)))
            results, crashed = [], []
            deadline = time.monotonic() + hard
            for i, out, err, p in procs:
                try:
                    rc = p.wait(timeout=max(1.0, deadline - time.monotonic()))
                except subprocess.TimeoutExpired:
                    p.kill()
                    p.wait()
                    rc = -9
                    crashed.append(f"shard {i} watchdog expired after {hard}s")
                err.close()
                if rc == 0 and os.path.exists(out):
                    results.append(json.load(open(out)))
                elif rc != -9:
                    tail = open(err.name, "rb").read()[-1500:].decode("utf-8", "replace")
                    crashed.append(f"shard {i} exit={rc}: {tail}")
        return finish(prop, mod, args, results, crashed, nshards, time.monotonic() - t0)
    finally:
        import shutil

        shutil.rmtree(tmpdir, ignore_errors=True)


def finish(prop: str, mod: typing.Any, args: typing.Any, results: list[dict[str, typing.Any]], crashed: list[str], nshards: int, wall: float) -> int:
    known = load_known()
    evaluations = sum(r["evaluations"] for r in results)
    distinct: set[int] = set()
    monitors: dict[str, int] = {}
    extra_counts: dict[str, int] = {}
    extra_sets: dict[str, set[str]] = {}
    samples: list[typing.Any] = []
    failures: list[dict[str, typing.Any]] = []
    failure_count = 0
    inconclusive: list[str] = list(crashed)
    exhaustive_parts: set[str] = set()
    for r in results:
        distinct.update(r["distinct"])
        for k, v in r["monitors"].items():
            monitors[k] = monitors.get(k, 0) + v
        for k, v in r["extra_counts"].items():
            extra_counts[k] = extra_counts.get(k, 0) + v
        for k, v in r["extra_sets"].items():
            extra_sets.setdefault(k, set()).update(v)
        failures.extend(r["failures"])
        failure_count += r["failure_count"]
        for x in r["inconclusive"]:
            if x not in inconclusive:
                inconclusive.append(x)
        exhaustive_parts.update(r.get("exhaustive_parts", []))
    # interleave samples from shards so several shapes are shown
    i = 0
    while len(samples) < 8 and any(len(r["samples"]) > i for r in results):
        for r in results:
            if len(r["samples"]) > i and len(samples) < 8:
                samples.append(r["samples"][i])
        i += 1

    # monitors that must have been reached for the verdict to mean anything
    if not args.replay:
        for name, minimum in getattr(mod, "REQUIRED_MONITORS", {}).get(args.tier, {}).items():
            if monitors.get(name, 0) < minimum:
                inconclusive.append(f"monitor {name} evaluated {monitors.get(name, 0)} < {minimum} times")
        if evaluations == 0:
            inconclusive.append("no case was executed")

    # failures were classified inside the shards (so listed findings cannot crowd out new violations)
    known_seen: dict[str, dict[str, typing.Any]] = {}
    for r in results:
        for key, ks in r.get("known", {}).items():
            full = f"{prop}/{key}"
            agg = known_seen.setdefault(full, {"count": 0, "example": ks["example"]})
            agg["count"] += ks["count"]
    violations: list[dict[str, typing.Any]] = list(failures)
    unrecorded = sum(r.get("dropped_failures", 0) for r in results)

    os.makedirs(os.path.join(HERE, "replays"), exist_ok=True)

    def write_replay(f: dict[str, typing.Any], tag: str) -> str:
        h = hashlib.sha1(json.dumps(f["case"], sort_keys=True).encode()).hexdigest()[:12]
        path = os.path.join(HERE, "replays", f"{prop}-{tag}-{h}.json")
        with open(path, "w") as fh:
            json.dump({"property": prop, "seed": args.seed, "tier": args.tier, **f}, fh, indent=1, sort_keys=True)
        return path

    lines: list[str] = []
    for full, ks in sorted(known_seen.items()):
        path = write_replay(ks["example"], "known-" + full.split("/", 1)[1])
        lines.append(f"KNOWN-FINDING: property={prop} {known[full]['what']} [key={full.split('/', 1)[1]} seen={ks['count']} replay={os.path.relpath(path, HERE)}]")
    seen_kinds: dict[str, int] = {}
    vio_lines: list[str] = []
    for f in violations:
        sig = f["kind"]
        seen_kinds[sig] = seen_kinds.get(sig, 0) + 1
        if seen_kinds[sig] <= 3:
            path = write_replay(f, "violation")
            vio_lines.append(f"VIOLATION property={prop} replay={os.path.relpath(path, HERE)}")
            vio_lines.append(f"  kind={f['kind']} msg={str(f.get('msg'))[:300]}")

    status = "held"
    if violations:
        status = "violated"
    elif inconclusive:
        status = "inconclusive"

    coverage: dict[str, typing.Any] = {
        "evaluations": evaluations,
        "distinct_nontrivial": len(distinct),
        "rule": mod.RULE,
        "samples": samples,
        "monitor_evaluations": monitors,
        "counts": extra_counts,
        "distinct_sets": {k: len(v) for k, v in extra_sets.items()},
        "known_findings_seen": {k: v["count"] for k, v in known_seen.items()},
        "failures_observed": failure_count,
        "violation_kinds": seen_kinds,
        "inconclusive": inconclusive,
        "shards": nshards,
        "verdict": status,
        "exhaustive": bool(getattr(mod, "EXHAUSTIVE", {}).get(args.tier, False)) and not inconclusive,
        "exhaustive_parts": sorted(exhaustive_parts),
    }
    for k, v in extra_sets.items():
        if len(v) <= 40:
            coverage.setdefault("distinct_set_members", {})[k] = sorted(v)
    evidence = {
        "property_id": prop,
        "tier": args.tier,
        "seed": args.seed,
        "level": mod.LEVEL,
        "coverage": coverage,
        "assumptions": list(mod.ASSUMPTIONS),
        "wall_s": round(wall, 2),
        "violations": len(violations) + max(0, unrecorded if violations else 0),
    }
    if not args.no_evidence and not args.replay and os.path.realpath(args.src) == os.path.realpath("/repo/src"):
        path = os.path.join(HERE, "evidence", f"{prop}.json")
        tmp = path + ".tmp"
        with open(tmp, "w") as fh:
            json.dump(evidence, fh, indent=1, sort_keys=True)
        os.replace(tmp, path)

    print(f"[{prop}] tier={args.tier} seed={args.seed} shards={nshards} wall={wall:.1f}s evaluations={evaluations} distinct_nontrivial={len(distinct)} failures={failure_count}")
    print(f"[{prop}] monitors: " + ", ".join(f"{k}={v}" for k, v in sorted(monitors.items())))
    if extra_counts:
        print(f"[{prop}] counts: " + ", ".join(f"{k}={v}" for k, v in sorted(extra_counts.items())))
    if extra_sets:
        print(f"[{prop}] distinct: " + ", ".join(f"{k}={len(v)}" for k, v in sorted(extra_sets.items())))
    for ln in lines:
        print(ln)
    if violations:
        for ln in vio_lines:
            print(ln)
        print(f"[{prop}] VERDICT violated: {len(violations)} unlisted failures ({seen_kinds})")
        return 1
    if inconclusive:
        for r in inconclusive:
            print(f"INCONCLUSIVE property={prop} reason={r[:1500]}")
        return 2
    print(f"[{prop}] VERDICT held on everything explored")
    return 0


if __name__ == "__main__":
    sys.exit(main())
