"""Response generator + read-sequence executor shared by C12 (equivalence of the read APIs) and C13
(truncated / corrupt responses).  Responses are produced by the real HTTPConnection.getresponse() over the
in-memory network with server-controlled segmentation."""
from __future__ import annotations

import typing

from vf import netsim, wire

CODINGS = ["identity", "gzip", "gzip2", "deflate", "rawdeflate", "zstd", "zstdmb", "zstd2", "gzip+deflate", "deflate+gzip", "zstd+gzip", "gzip+zstd", "x-gzip", "unknown"]
DECODABLE = set(CODINGS) - {"unknown", "identity"}


import functools


@functools.lru_cache(maxsize=64)
def payload(n: int) -> bytes:
    out = bytearray()
    i = 0
    while len(out) < n:
        out += b"%07d," % i
        i += 1
    return bytes(out[:n])


def segment(data: bytes, mode: typing.Any, rng: typing.Any) -> list[bytes]:
    if mode == "whole" or not data:
        return [data] if data else []
    if mode == "random":
        out, pos = [], 0
        while pos < len(data):
            n = rng.choice([1, 2, 3, 5, 8, 13, 64, 300, 1500, 9000])
            out.append(data[pos : pos + n])
            pos += n
        return out
    n = int(mode)
    return [data[i : i + n] for i in range(0, len(data), n)]


class Spec(typing.NamedTuple):
    size: int
    coding: str
    framing: str  # cl | chunked | close
    chunk_sizes: list[int]
    chunk_ext: str
    seg: typing.Any  # 1 | 2 | 7 | "random" | "whole"
    decode: bool
    head_request: bool = False


def build(spec: Spec) -> tuple[bytes, bytes, bytes, bytes]:
    """(head, body_on_wire, encoded_content, expected_bytes_for_the_caller)"""
    raw = payload(spec.size)
    enc, ce = _encoded(spec.size, spec.coding)
    headers = [("X-Case", "1")]
    if ce:
        headers.append(("Content-Encoding", ce))
    msg = wire.build_response(200, "OK", headers, enc, framing=spec.framing, chunk_sizes=list(spec.chunk_sizes), chunk_ext=spec.chunk_ext.encode(), keepalive=spec.framing != "close")
    split = msg.index(b"\r\n\r\n") + 4
    expected = raw if (spec.decode and spec.coding in DECODABLE) or spec.coding == "identity" else enc
    return msg[:split], msg[split:], enc, expected


@functools.lru_cache(maxsize=256)
def _encoded(size: int, coding: str) -> tuple[bytes, str | None]:
    return wire.encode_content(payload(size), coding)


class OneShotServer:
    """Answers the first request with the prepared wire bytes (segmented), optionally cut/corrupted, then
    behaves as a plain 200 server for later requests (C13's second request)."""

    def __init__(self, segments: list[bytes], close_after: bool, rng: typing.Any = None):
        self.segments = segments
        self.close_after = close_after
        self.served = 0

    def on_request(self, net: netsim.Net, sc: netsim.ServerConn, req: wire.Request) -> None:
        self.served += 1
        if self.served == 1:
            sc.write_segmented(self.segments)
            if self.close_after:
                sc.close()
            elif not self.segments:
                pass
        else:
            sc.write(wire.build_response(200, body=b"second:" + req.target))


OPS = ["read", "readn", "read1n", "read1", "readinto", "read0", "stream", "read_chunked", "iter"]


class CaseCpuLimit(BaseException):
    """One case burnt far more CPU than any terminating read sequence needs (livelock in the code under test)."""


def _on_vtalrm(signum: int, frame: typing.Any) -> None:
    raise CaseCpuLimit()


CASE_CPU_S = 20.0


def run_ops(resp: typing.Any, ops: list[list[typing.Any]], decode: bool, cap: int = 400000, eof_at_first_empty: bool = False) -> tuple[list[tuple[str, typing.Any, bytes]], BaseException | None, str | None]:
    import signal

    signal.signal(signal.SIGVTALRM, _on_vtalrm)
    signal.setitimer(signal.ITIMER_VIRTUAL, CASE_CPU_S)
    try:
        return _run_ops(resp, ops, decode, cap, eof_at_first_empty)
    except CaseCpuLimit:
        return [], None, f"read sequence did not terminate within {CASE_CPU_S}s of CPU (livelock)"
    finally:
        signal.setitimer(signal.ITIMER_VIRTUAL, 0)


def _run_ops(resp: typing.Any, ops: list[list[typing.Any]], decode: bool, cap: int = 400000, eof_at_first_empty: bool = False) -> tuple[list[tuple[str, typing.Any, bytes]], BaseException | None, str | None]:
    """Executes the call sequence; the last op is repeated until two consecutive empty results (or, with
    eof_at_first_empty, until the first empty result: what a `while chunk := read(n)` caller takes for the end).
    Returns (pieces [(op, arg, data)], exception or None, protocol problem or None)."""
    pieces: list[tuple[str, typing.Any, bytes]] = []
    problem: str | None = None
    gens: dict[tuple[str, typing.Any], typing.Any] = {}

    def one(op: list[typing.Any]) -> typing.Iterator[tuple[str, typing.Any, bytes]]:
        name = op[0]
        if name == "read":
            yield ("read", None, resp.read(decode_content=decode))
        elif name == "readn":
            yield ("readn", op[1], resp.read(op[1], decode_content=decode))
        elif name == "read0":
            yield ("read0", 0, resp.read(0, decode_content=decode))
        elif name == "read1n":
            yield ("read1n", op[1], resp.read1(op[1], decode_content=decode))
        elif name == "read1":
            yield ("read1", None, resp.read1(decode_content=decode))
        elif name == "readinto":
            buf = bytearray(op[1])
            n = resp.readinto(buf)
            yield ("readinto", op[1], bytes(buf[:n]))
        elif name in ("stream", "read_chunked", "iter"):
            # generators stay open across other calls (an interleaving resumes the same generator); abandoning
            # one would (by design) discard the response
            key = (name, op[1] if len(op) > 1 else None)
            gen = gens.get(key)
            if gen is None:
                if name == "stream":
                    gen = resp.stream(op[1], decode_content=decode)
                elif name == "read_chunked":
                    gen = resp.read_chunked(op[1], decode_content=decode)
                else:
                    gen = iter(resp)
                gens[key] = gen
            take = op[2] if len(op) > 2 else None  # None = exhaust
            k = 0
            while take is None or k < take:
                try:
                    item = next(gen)
                except StopIteration:
                    gens.pop(key, None)
                    break
                yield (name, key[1], item)
                k += 1
        else:
            raise ValueError(op)

    try:
        for op in ops:
            for p in one(op):
                pieces.append(p)
        # drain with the last op
        non0 = [o for o in ops if o[0] != "read0"]
        last = list(non0[-1]) if non0 else ["readn", 64]
        if last[0] in ("stream", "read_chunked", "iter"):
            last = last[:2] if len(last) > 1 else last  # exhaust
            if last[0] == "iter":
                last = ["iter"]
        if last[0] == "read0":
            last = ["readn", 64]
        empties = 0
        rounds = 0
        while empties < (1 if eof_at_first_empty else 2):
            got = False
            for p in one(last):
                pieces.append(p)
                if p[2]:
                    got = True
            empties = 0 if got else empties + 1
            rounds += 1
            if rounds > cap:
                problem = "drain did not terminate"
                break
    except BaseException as e:  # noqa: BLE001
        if isinstance(e, (KeyboardInterrupt, SystemExit, CaseCpuLimit)):
            raise
        return pieces, e, problem
    return pieces, None, problem


def open_response(spec: Spec, wire_bytes_segments: list[bytes], close_after: bool, preload: bool) -> tuple[netsim.Net, typing.Any, typing.Any, BaseException | None]:
    """Sends one GET through a real HTTPConnection and returns (net, conn, response or None, exception)."""
    from urllib3.connection import HTTPConnection

    net = netsim.Net(OneShotServer(wire_bytes_segments, close_after))
    net.__enter__()
    conn = HTTPConnection("r.test", 80)
    try:
        conn.request("HEAD" if spec.head_request else "GET", "/r", preload_content=preload, decode_content=spec.decode)
        resp = conn.getresponse()
        return net, conn, resp, None
    except BaseException as e:  # noqa: BLE001
        if isinstance(e, (KeyboardInterrupt, SystemExit)):
            raise
        return net, conn, None, e
