"""Independent strict parsers / builders for the bytes urllib3 puts on (or reads from) the wire.
Written from RFC 9112 / RFC 7578; shares no code with urllib3 or http.client."""
from __future__ import annotations

import typing
import zlib

TCHAR = set(b"!#$%&'*+-.^_`|~0123456789abcdefghijklmnopqrstuvwxyzABCDEFGHIJKLMNOPQRSTUVWXYZ")


class WireError(Exception):
    pass


class Request(typing.NamedTuple):
    method: bytes
    target: bytes
    version: bytes
    headers: list[tuple[bytes, bytes]]  # in order, values with obs-fold unfolded (single SP)
    body: bytes
    framing: str  # "none" | "content-length" | "chunked"
    problems: list[str]  # anomalies that do not prevent splitting the message
    raw_head: bytes
    chunks: list[bytes]


def header_get(headers: list[tuple[bytes, bytes]], name: bytes) -> list[bytes]:
    n = name.lower()
    return [v for k, v in headers if k.lower() == n]


import re as _re

_FOLD = _re.compile(rb"(?:\r\n|\r|\n)[ \t]+")


def unfold(v: bytes) -> bytes:
    """Canonical field value: line folds (incl. degenerate bare-CR / bare-LF folds) become one SP, OWS trimmed."""
    return _FOLD.sub(b" ", v).strip(b" \t")


def parse_head(head: bytes) -> tuple[bytes, bytes, bytes, list[tuple[bytes, bytes]], list[str]]:
    """``head`` excludes the terminating empty line.  Strict: lines are separated by CRLF only."""
    problems: list[str] = []
    lines = head.split(b"\r\n")
    for i, ln in enumerate(lines):
        if b"\x00" in ln:
            if i == 0:
                raise WireError("NUL in the request line")
            problems.append("NUL in a header line")
        if b"\r" in ln or b"\n" in ln:
            # A bare CR or LF is tolerated only as a degenerate line fold inside a header VALUE: it must be
            # followed by SP / HTAB (so even a recipient that ends lines at a bare CR/LF sees a continuation
            # line, never a new header field or message).  Anywhere else it splits the message.
            if i == 0:
                raise WireError(f"bare CR or LF inside the request line {ln[:60]!r}")
            for pos, c in enumerate(ln):
                if c in (0x0D, 0x0A):
                    nxt = ln[pos + 1 : pos + 2]
                    if nxt not in (b" ", b"\t") or not (b":" in ln[:pos] or ln[:1] in (b" ", b"\t")):
                        raise WireError(f"bare CR or LF inside head line {ln[:60]!r}")
            if ln[-1:] in (b"\r", b"\n"):
                raise WireError(f"head line ends in a bare CR or LF {ln[:60]!r}")
            problems.append("bare-fold")
    rl = lines[0]
    parts = rl.split(b" ")
    if len(parts) != 3:
        raise WireError(f"request line does not have exactly two SP: {rl[:80]!r}")
    method, target, version = parts
    if not method or any(c not in TCHAR for c in method):
        raise WireError(f"method is not a token: {method[:40]!r}")
    if not target:
        raise WireError("empty request target")
    if any(c <= 0x20 or c == 0x7F for c in target):
        raise WireError(f"control/space character in request target {target[:60]!r}")
    if version != b"HTTP/1.1":
        raise WireError(f"version {version!r}")
    raw: list[list[bytes]] = []  # [name, raw value incl. folds]
    for ln in lines[1:]:
        if ln[:1] in (b" ", b"\t"):
            if not raw:
                raise WireError("continuation line before any header field")
            raw[-1][1] += b"\r\n" + ln
            problems.append("obs-fold")
            continue
        if b":" not in ln:
            raise WireError(f"header line without colon: {ln[:60]!r}")
        k, v = ln.split(b":", 1)
        if not k:
            raise WireError("empty header name")
        if any(c not in TCHAR for c in k):
            problems.append(f"header name is not a token: {k[:40]!r}")
        raw.append([k, v])
    headers: list[tuple[bytes, bytes]] = [(k, unfold(v)) for k, v in raw]
    return method, target, version, headers, problems


def parse_chunked(data: bytes) -> tuple[bytes, list[bytes], int] | None:
    """Returns (payload, chunks, consumed) or None if incomplete; raises WireError if malformed."""
    pos = 0
    chunks: list[bytes] = []
    while True:
        eol = data.find(b"\r\n", pos)
        if eol < 0:
            if len(data) - pos > 64:
                raise WireError("chunk-size line too long / missing CRLF")
            return None
        line = data[pos:eol]
        size_txt = line.split(b";", 1)[0]
        if not size_txt or any(c not in b"0123456789abcdefABCDEF" for c in size_txt):
            raise WireError(f"bad chunk-size line {line[:40]!r}")
        size = int(size_txt, 16)
        pos = eol + 2
        if size == 0:
            # trailer section: zero or more header lines then CRLF
            while True:
                eol = data.find(b"\r\n", pos)
                if eol < 0:
                    return None
                if eol == pos:
                    return b"".join(chunks), chunks, pos + 2
                pos = eol + 2
        if len(data) < pos + size + 2:
            return None
        chunk = data[pos : pos + size]
        if data[pos + size : pos + size + 2] != b"\r\n":
            raise WireError("chunk data not followed by CRLF")
        chunks.append(chunk)
        pos += size + 2


def parse_request(data: bytes) -> tuple[Request, bytes] | None:
    """Parse ONE request from the start of ``data``.  Returns (request, residue) when a complete message is
    present, None when more bytes are needed, raises WireError when the bytes are not an HTTP/1.1 request."""
    end = data.find(b"\r\n\r\n")
    if end < 0:
        # a head that already contains a bare LF LF will never complete: diagnose early
        if b"\n\n" in data or b"\r\r" in data:
            raise WireError("head terminated by bare line terminators")
        return None
    head = data[:end]
    method, target, version, headers, problems = parse_head(head)
    rest = data[end + 4 :]
    cl = header_get(headers, b"content-length")
    te = header_get(headers, b"transfer-encoding")
    if cl and te:
        problems.append("both Content-Length and Transfer-Encoding")
    if len(cl) > 1:
        problems.append("repeated Content-Length")
    if te:
        if [x.strip().lower() for x in b",".join(te).split(b",")][-1] != b"chunked":
            raise WireError(f"Transfer-Encoding {te!r} does not end in chunked")
        r = parse_chunked(rest)
        if r is None:
            return None
        body, chunks, used = r
        return Request(method, target, version, headers, body, "chunked", problems, head, chunks), rest[used:]
    if cl:
        if not cl[0].isdigit():
            raise WireError(f"Content-Length {cl[0]!r}")
        n = int(cl[0])
        if len(rest) < n:
            return None
        return Request(method, target, version, headers, rest[:n], "content-length", problems, head, []), rest[n:]
    return Request(method, target, version, headers, b"", "none", problems, head, []), rest


def parse_all_requests(data: bytes) -> tuple[list[Request], bytes, str | None]:
    """Split a byte stream into requests: (requests, unparsed residue, error)."""
    out: list[Request] = []
    while data:
        try:
            r = parse_request(data)
        except WireError as e:
            return out, data, str(e)
        if r is None:
            return out, data, "incomplete"
        out.append(r[0])
        data = r[1]
    return out, b"", None


# ------------------------------------------------------------------ response builder ----------
def chunk_encode(payload: bytes, sizes: list[int] | None = None, ext: bytes = b"", trailer: bytes = b"") -> bytes:
    out = bytearray()
    pos = 0
    sizes = list(sizes or [])
    while pos < len(payload):
        n = sizes.pop(0) if sizes else len(payload) - pos
        n = max(1, min(n, len(payload) - pos))
        out += b"%x" % n + ext + b"\r\n" + payload[pos : pos + n] + b"\r\n"
        pos += n
    out += b"0\r\n" + trailer + b"\r\n"
    return bytes(out)


def gzip_bytes(data: bytes, level: int = 6) -> bytes:
    c = zlib.compressobj(level, zlib.DEFLATED, 16 + zlib.MAX_WBITS)
    return c.compress(data) + c.flush()


def zlib_bytes(data: bytes) -> bytes:
    return zlib.compress(data)


def rawdeflate_bytes(data: bytes) -> bytes:
    c = zlib.compressobj(6, zlib.DEFLATED, -zlib.MAX_WBITS)
    return c.compress(data) + c.flush()


def zstd_bytes(data: bytes) -> bytes:
    import zstandard

    return zstandard.ZstdCompressor().compress(data)


def encode_content(payload: bytes, coding: str) -> tuple[bytes, str | None]:
    """coding in: identity, gzip, gzip2 (two members), deflate (zlib), rawdeflate, zstd, zstd2 (two frames),
    'gzip+deflate' style stacks (applied left to right), unknown.  Returns (encoded, Content-Encoding value)."""
    if coding == "identity":
        return payload, None
    if coding == "gzip":
        return gzip_bytes(payload), "gzip"
    if coding == "x-gzip":
        return gzip_bytes(payload), "x-gzip"
    if coding == "gzip2":
        h = len(payload) // 2
        return gzip_bytes(payload[:h]) + gzip_bytes(payload[h:]), "gzip"
    if coding == "deflate":
        return zlib_bytes(payload), "deflate"
    if coding == "rawdeflate":
        return rawdeflate_bytes(payload), "deflate"
    if coding == "zstd":
        return zstd_bytes(payload), "zstd"
    if coding == "zstdmb":
        # one frame, several blocks (flushed every few bytes) and a content checksum: cut-off points exist at inner
        # block boundaries and inside / before the checksum, where a decoder has already produced all the output
        import zstandard

        c = zstandard.ZstdCompressor(write_checksum=True, write_content_size=False).compressobj()
        out = b""
        step = max(1, len(payload) // 4)
        for i in range(0, len(payload), step):
            out += c.compress(payload[i : i + step]) + c.flush(zstandard.COMPRESSOBJ_FLUSH_BLOCK)
        return out + c.flush(), "zstd"
    if coding == "zstd2":
        h = len(payload) // 2
        return zstd_bytes(payload[:h]) + zstd_bytes(payload[h:]), "zstd"
    if coding == "unknown":
        return payload, "x-unknown-coding"
    if "+" in coding:
        data = payload
        names = []
        for c in coding.split("+"):
            data, n = encode_content(data, c)
            names.append(n or "identity")
        return data, ", ".join(names)
    raise ValueError(coding)


def build_response(
    status: int = 200,
    reason: str = "OK",
    headers: list[tuple[str, str]] | None = None,
    body: bytes = b"",
    framing: str = "cl",  # cl | chunked | close | none
    chunk_sizes: list[int] | None = None,
    chunk_ext: bytes = b"",
    keepalive: bool = True,
    version: str = "HTTP/1.1",
) -> bytes:
    lines = [f"{version} {status} {reason}".encode("latin-1")]
    hs = list(headers or [])
    if framing == "cl":
        hs.append(("Content-Length", str(len(body))))
        payload = body
    elif framing == "chunked":
        hs.append(("Transfer-Encoding", "chunked"))
        payload = chunk_encode(body, chunk_sizes, chunk_ext)
    elif framing == "close":
        payload = body
        keepalive = False
    else:
        payload = b""
    if not keepalive:
        hs.append(("Connection", "close"))
    for k, v in hs:
        lines.append(f"{k}: {v}".encode("latin-1"))
    return b"\r\n".join(lines) + b"\r\n\r\n" + payload


# ------------------------------------------------------------------ multipart parser ----------
class Part(typing.NamedTuple):
    headers: list[tuple[bytes, bytes]]
    data: bytes


def parse_multipart(body: bytes, boundary: bytes) -> list[Part]:
    """Strict RFC 2046 multipart parser: the body must be
    (--boundary CRLF headers CRLF CRLF data CRLF)* --boundary-- CRLF with nothing before or after."""
    delim = b"--" + boundary
    parts: list[Part] = []
    pos = 0
    if not body.startswith(delim):
        raise WireError("body does not start with the delimiter")
    while True:
        if not body.startswith(delim, pos):
            raise WireError(f"expected delimiter at {pos}")
        pos += len(delim)
        if body.startswith(b"--", pos):
            pos += 2
            if body[pos:] != b"\r\n":
                raise WireError(f"bytes after the closing delimiter: {body[pos:pos+40]!r}")
            return parts
        if not body.startswith(b"\r\n", pos):
            raise WireError(f"delimiter not followed by CRLF at {pos}")
        pos += 2
        hend = body.find(b"\r\n\r\n", pos)
        if hend < 0:
            raise WireError("part header block not terminated")
        hblock = body[pos:hend]
        headers: list[tuple[bytes, bytes]] = []
        for ln in hblock.split(b"\r\n"):
            if b"\r" in ln or b"\n" in ln:
                raise WireError(f"bare CR/LF in part header line {ln[:60]!r}")
            if b":" not in ln:
                raise WireError(f"part header line without colon {ln[:60]!r}")
            k, v = ln.split(b":", 1)
            headers.append((k, v.strip(b" ")))
        pos = hend + 4
        nxt = body.find(b"\r\n" + delim, pos)
        if nxt < 0:
            raise WireError("no delimiter after part data")
        parts.append(Part(headers, body[pos:nxt]))
        pos = nxt + 2


def parse_disposition(value: bytes) -> tuple[bytes, list[tuple[bytes, bytes]]]:
    """'form-data; name="x"; filename="y"' -> (b'form-data', [(b'name', b'x'), ...]).  A quoted value ends at the
    first double quote (WHATWG escaping guarantees none inside); anything else is an error."""
    pos = value.find(b";")
    if pos < 0:
        return value.strip(), []
    typ = value[:pos].strip()
    params: list[tuple[bytes, bytes]] = []
    rest = value[pos:]
    while rest:
        if not rest.startswith(b"; "):
            raise WireError(f"parameter separator expected at {rest[:30]!r}")
        rest = rest[2:]
        eq = rest.find(b"=")
        if eq < 0:
            raise WireError("parameter without '='")
        name = rest[:eq]
        rest = rest[eq + 1 :]
        if not rest.startswith(b'"'):
            raise WireError("parameter value not quoted")
        close = rest.find(b'"', 1)
        if close < 0:
            raise WireError("unterminated quoted parameter")
        params.append((name, rest[1:close]))
        rest = rest[close + 1 :]
    return typ, params
